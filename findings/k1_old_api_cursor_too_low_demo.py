"""K1 (C06.R2): after an old-API animated draw() completes normally, the clean-up moves the cursor down `lines`
rows from the last image line (CURSOR_DOWN % lines) and then prints a newline: the cursor ends `lines` rows below
the line immediately under the image. Exit 1 = reproduced on the real code (rows counted from the emitted
control sequences). Demonstration only."""
import io, re, sys, warnings
warnings.simplefilter("ignore")
from PIL import Image
from term_image.image import BlockImage
buf = io.BytesIO()
frames = [Image.new("RGB", (4, 8), c) for c in ("red", "blue", "green")]
frames[0].save(buf, "GIF", save_all=True, append_images=frames[1:], duration=1)
buf.seek(0)
im = BlockImage(Image.open(buf), height=4)
out = io.StringIO(); real = sys.stdout; sys.stdout = out
try:
    im.draw(pad_height=6, repeat=1)
finally:
    sys.stdout = real
row = top = 0
for tok in re.findall(r"\x1b\[(\d*)([AB])|(\n)", out.getvalue()):
    n, d, nl = tok
    if nl: row += 1
    elif d == "A": row -= int(n or 1)
    elif d == "B": row += int(n or 1)
lines = 6
print(f"animation occupies rows 0..{lines - 1}; cursor ends on row {row} (expected {lines})")
raise SystemExit(0 if row == lines else 1)
