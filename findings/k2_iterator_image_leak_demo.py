"""K2 (C11.R4): the PIL image handed to ImageIterator._animate is recorded for clean-up only when the generator
first runs. (a) ImageIterator.close() before the first next(), and (b) BaseImage._display_animated(), which replaces
the iterator's unstarted generator by one over its own image, never close that image explicitly: it is left to the
garbage collector (ResourceWarning: unclosed file). Exit 1 = reproduced on the real code. Demonstration only."""
import gc, io, os, sys, tempfile, warnings
from PIL import Image
warnings.simplefilter("ignore")
from term_image.image import BlockImage, ImageIterator
d = tempfile.mkdtemp()
path = os.path.join(d, "a.gif")
frames = [Image.new("RGB", (2, 2), c) for c in ("red", "blue")]
frames[0].save(path, save_all=True, append_images=frames[1:], duration=1)
opened = []
real_open = Image.open
def spy(*a, **k):
    im = real_open(*a, **k); opened.append(im); return im
Image.open = spy
import term_image.image.common as common
common.Image.open = spy
image = BlockImage.from_file(path)
opened.clear()
# (a) close before the first next()
it = ImageIterator(image, 1)
it.close()
a_left = [im for im in opened if im.fp is not None and not im.fp.closed]
print("(a) images still open right after ImageIterator.close():", len(a_left))
opened.clear()
# (b) animated draw: _display_animated builds an ImageIterator (which opens the file) and discards its generator
out = io.StringIO(); real = sys.stdout; sys.stdout = out
try:
    image.draw(repeat=1, pad_height=1)
finally:
    sys.stdout = real
b_left = [im for im in opened if im.fp is not None and not im.fp.closed]
print("(b) images still open right after draw() returned:", len(b_left), "of", len(opened), "opened")
raise SystemExit(1 if (a_left or b_left) else 0)
