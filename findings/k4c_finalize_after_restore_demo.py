"""K4c (C10.R2): in Renderable.draw's clean-up, render_data.finalize() follows the termios restore in the same
finally block; if the restore itself fails (terminal hung up / fd closed -> termios.error) the render data is not
finalized by the time the error reaches the caller. Exit 1 = reproduced on the real code. Demonstration only."""
import warnings, sys, pty, termios; warnings.simplefilter("ignore")
import term_image.renderable._renderable as rr
from term_image.renderable import Renderable, Frame
from term_image.geometry import Size
fin = []
class R(Renderable):
    def __init__(s): super().__init__(1, 1)
    def _get_render_size_(s): return Size(1, 1)
    def _render_(s, d, a): return Frame(0, 1, Size(1, 1), " ")
    @classmethod
    def _finalize_render_data_(cls, rd): fin.append(1)
master, slave = pty.openpty()
class Out:
    def isatty(self): return True
    def fileno(self): return slave
    def write(self, s): pass
    def flush(self): pass
class FakeTermios:
    def __getattr__(self, n): return getattr(termios, n)
    def tcsetattr(self, fd, when, attr):
        if when == termios.TCSANOW:                      # the restore
            raise termios.error(5, "Input/output error")
        return termios.tcsetattr(fd, when, attr)
rr.termios = FakeTermios()
real = sys.stdout; sys.stdout = Out()
try:
    R().draw()
except termios.error:
    sys.stdout = real
    print("finalized when the error reached the caller:", bool(fin))
    raise SystemExit(0 if fin else 1)
finally:
    sys.stdout = real
