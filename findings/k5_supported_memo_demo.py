"""K5 (C15.R2): style support verdicts computed while queries are disabled survive enable_queries().
Exit 1 = finding reproduced on the real code. (Demonstration only; not part of any check.)"""
import warnings; warnings.simplefilter("ignore")
import term_image
from term_image import utils, _ctlseqs as c
import term_image.image.kitty as kitty
from term_image.image import KittyImage

def fake_query(request, more, timeout=None):          # a kitty terminal that answers whenever queries are enabled
    if not utils._queries_enabled:
        return None
    return (c.KITTY_START + "i=31;OK" + c.ST).encode()
kitty.query_terminal = fake_query
kitty.get_terminal_name_version = lambda: ("kitty", "0.30.0")
KittyImage._supported = None
term_image.disable_queries()
assert KittyImage.is_supported() is False             # computed while disabled
term_image.enable_queries()                           # "discards results obtained while they were disabled"
fresh = KittyImage.is_supported()
print("after enable_queries():", fresh)
raise SystemExit(0 if fresh is True else 1)
