import sys
sys.path.insert(0, "/repo/tests")
from term_image.padding import AlignedPadding
from term_image.render import RenderIterator
from term_image.renderable import Renderable, Frame
from term_image.geometry import Size
class R(Renderable):
    def __init__(s): super().__init__(3, 1)
    def _get_render_size_(s): return Size(1,1)
    def _render_(s, d, a): return Frame(0, 1, Size(1,1), " ")
it = RenderIterator(R())
it.set_padding(AlignedPadding(0, -2))
print(next(it).render_size)
