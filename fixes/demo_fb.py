import warnings; warnings.simplefilter("ignore")
from term_image.image import KittyImage
class Sub(KittyImage): pass
class SubSub(Sub): pass
Sub.set_render_method("whole")
SubSub.set_render_method("lines")
SubSub.set_render_method()
assert SubSub._render_method == "whole", SubSub._render_method
Sub.set_render_method()
assert SubSub._render_method == "lines" == Sub._render_method
KittyImage.set_render_method("whole"); KittyImage.set_render_method()
assert KittyImage._render_method == "lines"
print("ok")
