import warnings, sys, io; warnings.simplefilter("ignore")
from PIL import Image
from term_image.image import BlockImage
class Out(io.StringIO):
    n = 0
    def isatty(self): return True
    def flush(self):
        Out.n += 1
        if Out.n == 1: raise KeyboardInterrupt
out = Out(); real = sys.stdout; sys.stdout = out
try:
    BlockImage(Image.new("RGB", (2, 2)), width=1).draw()
except KeyboardInterrupt:
    pass
finally:
    sys.stdout = real
v = out.getvalue()
assert "\x1b[?25l" in v
assert v.rfind("\x1b[?25h") > v.rfind("\x1b[?25l"), repr(v)
print("ok", repr(v))
