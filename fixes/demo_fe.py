import warnings; warnings.simplefilter("ignore")
from PIL import Image
from term_image.image import BlockImage
im = BlockImage(Image.new("RGB", (2, 2)), width=1)
for spec in (".##", ".+L", "1.#+x", "<.+W"):
    try:
        format(im, spec)
    except ValueError as e:
        print("rejected", spec)
    else:
        raise SystemExit(f"accepted {spec!r}")
format(im, ".1##"); format(im, ".^#"); format(im, "##")
print("ok")
