import warnings, sys; warnings.simplefilter("ignore")
from term_image.renderable import Renderable, Frame, RenderSizeOutofRangeError
from term_image.geometry import Size
log = []
class R(Renderable):
    def __init__(s): super().__init__(1, 1)
    def _get_render_size_(s): return Size(1000, 1)
    def _render_(s, d, a): return Frame(0, 1, Size(1,1), " ")
    @classmethod
    def _finalize_render_data_(cls, rd): log.append("fin"); super()._finalize_render_data_(rd)
r = R()
try:
    r.draw()
except RenderSizeOutofRangeError as e:
    assert log == ["fin"], log   # while the exception (and its traceback frames) are alive
    print("ok")
