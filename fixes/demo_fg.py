import warnings, sys, io; warnings.simplefilter("ignore")
from PIL import Image
from term_image.image import BlockImage
buf = io.BytesIO()
frames = [Image.new("RGB", (2, 2), c) for c in ("red", "blue")]
frames[0].save(buf, "GIF", save_all=True, append_images=frames[1:], duration=1)
buf.seek(0)
im = BlockImage(Image.open(buf), width=1)
out = io.StringIO(); real = sys.stdout; sys.stdout = out
try:
    im.draw(pad_height=1, repeat=1)
finally:
    sys.stdout = real
v = out.getvalue()
assert "\x1b[0A" not in v, repr(v)
print("ok")
