import warnings; warnings.simplefilter("ignore")
import term_image
from term_image import utils
from term_image.image.common import TextImage
import term_image.image.common as common
names = iter([("", ""), ("kitty", "0.30.0")])
orig = utils.get_terminal_name_version
calls = []
def body():
    v = next(names); calls.append(v); return v
fake = utils.cached.__wrapped__(body) if hasattr(utils.cached, "__wrapped__") else utils.cached(body)
utils.get_terminal_name_version = common.get_terminal_name_version = fake
term_image.disable_queries()
assert TextImage._is_on_kitty() is False      # computed while queries are disabled
term_image.enable_queries()                   # must discard it
assert TextImage._is_on_kitty() is True, "stale memo survived enable_queries()"
print("ok")
