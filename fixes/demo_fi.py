import warnings, sys; warnings.simplefilter("ignore")
sys.path.insert(0, "/repo")
import tests  # stubs
import urwid
from term_image.widget import UrwidImageScreen
from term_image.image import KittyImage
KittyImage.forced_support = True
scr = UrwidImageScreen(sys.__stdin__, sys.__stdout__)
scr.write = lambda data: None
scr._ti_image_cviews = frozenset({("canv", 1, 1, 0, 0, 1, 1)})
scr._ti_screen_canv = urwid.SolidCanvas("x", 1, 1)   # not a CompositeCanvas
scr._ti_clear_images()
assert scr._ti_image_cviews == frozenset()
print("ok")
