import warnings, os, io, sys; warnings.simplefilter("ignore")
from PIL import Image
import term_image.image.common as common
from term_image.image import BlockImage
buf = io.BytesIO(); Image.new("RGB", (2, 2)).save(buf, "PNG"); data = buf.getvalue()
class Resp:
    status_code = 200
    content = data
common.requests.get = lambda url, stream=True: Resp()
real_write = os.write
def failing_write(fd, b):
    raise OSError(28, "No space left on device")
common.os.write = failing_write
before_fds = set(os.listdir("/proc/self/fd"))
before_tmp = set(os.listdir(common._TEMP_DIR))
try:
    BlockImage.from_url("http://example.invalid/x.png")
except OSError:
    pass
finally:
    common.os.write = real_write
left = set(os.listdir(common._TEMP_DIR)) - before_tmp
fds = set(os.listdir("/proc/self/fd")) - before_fds
assert not left, f"temporary copy left behind after failed construction: {left}"
assert not fds, f"descriptor leaked: {fds}"
print("ok")
