import warnings, sys, os, pty, termios; warnings.simplefilter("ignore")
from term_image.renderable import Renderable, Frame
from term_image.geometry import Size
fin = []
class R(Renderable):
    def __init__(s): super().__init__(1, 1)
    def _get_render_size_(s): return Size(1, 1)
    def _render_(s, d, a): return Frame(0, 1, Size(1,1), " ")
    @classmethod
    def _finalize_render_data_(cls, rd): fin.append(1); super()._finalize_render_data_(rd)
master, slave = pty.openpty()
class Out:
    def isatty(self): return True
    def fileno(self): return slave
    def write(self, s):
        if s == "\n": raise KeyboardInterrupt      # interrupt while the clean-up writes
    def flush(self): pass
before = termios.tcgetattr(slave)
assert before[3] & termios.ECHO
real = sys.stdout; sys.stdout = Out()
try:
    R().draw()
except KeyboardInterrupt:
    pass
finally:
    sys.stdout = real
after = termios.tcgetattr(slave)
assert after == before, "terminal attributes not restored (ECHO still off)"
assert fin == [1], "render data not finalized"
print("ok")
