import warnings, sys; warnings.simplefilter("ignore")
from term_image.renderable import Renderable, Frame
from term_image.geometry import Size
fin = []
class R(Renderable):
    def __init__(s): super().__init__(1, 1)
    def _get_render_size_(s): return Size(1, 1)
    def _render_(s, d, a): return Frame(0, 1, Size(1,1), " ")
    @classmethod
    def _finalize_render_data_(cls, rd): fin.append(1); super()._finalize_render_data_(rd)
class Out:
    def isatty(self): return True
    def fileno(self): raise OSError("detached stream")   # e.g. io.UnsupportedOperation from a wrapped stdout
    def write(self, s): pass
    def flush(self): pass
real = sys.stdout; sys.stdout = Out()
try:
    R().draw()
except OSError as e:
    sys.stdout = real
    created_and_leaked = (fin == [])
    import term_image.renderable._renderable as rr
    # either no render data was created before the failure, or it was finalized by the time the error reaches the caller
    made = [o for o in __import__("gc").get_objects() if type(o).__name__ == "RenderData"]
    assert all(o.finalized for o in made), "render data created for the draw was left un-finalized"
    print("ok")
finally:
    sys.stdout = real
