"""C01 - a render output occupies exactly its advertised columns x lines rectangle: structural clauses
(DESIGN.md 4, C01). What a terminal does with the string (cells painted, wrapping) is not decided."""
from __future__ import annotations

import ast

from tiv import ecma48
from tiv.astutil import conds, body_walk, call_name, dotted, enclosing_stmt, guards, norm, short, stores_in, walk_local
from tiv.constfold import UNKNOWN, Folder
from tiv.effects import names_in
from tiv.match import b2s, find_exprs, find_stmts, match_expr, match_stmt
from tiv.affine import NotPoly, equal, parse
from tiv.mutate import M
from tiv.sign import ge1

RULES = {
    "R1": "template completeness: every control-sequence constant of _ctlseqs.py, constant-folded, is a concatenation of complete ECMA-48 "
          "sequences (CSI ... final byte; OSC/APC/DCS ... ST) with placeholders only in parameter/payload positions; the declared "
          "introducers/terminators are exactly ESC BEL APC CSI DCS OSC ST KITTY_START ITERM2_START; the bytes versions are generated for all; "
          "cursor_up/down/forward/backward return '' for a non-positive operand",
    "R2": "no hand-written escapes: no string literal outside _ctlseqs.py contains ESC or a C1 control; every ITERM2_START (the only opener "
          "without its terminator in the same template) is followed by ST before the next newline/opener/return",
    "R3": "operand sign: every application `T % e` of a raw cursor/erase template (CURSOR_UP/DOWN/FORWARD/BACKWARD, ERASE_CHARS) has e >= 1 "
          "proven from the size clamp or a dominating guard (CSI 0 A moves by one on every ECMA-48 terminal)",
    "R5": "every transmitted graphics command is complete: a chunked kitty transmission is terminated (continuation flags m=1 ... m=0 by one-chunk "
          "look-ahead; shared with C03.R1)",
    "R4": "line structure: in every _render_image the newline-bearing fragments are repeated exactly rendered_height - 1 times (recognised idioms), "
          "the output does not end with one; kitty (C=1: cursor stays) ends every line with CURSOR_FORWARD % rendered_width; iterm2 sets "
          "doNotMoveCursor=1 exactly where (is_on_konsole) it also advances the cursor itself, and otherwise pre-advances rendered_height-1 lines and comes "
          "back with CURSOR_UP % (rendered_height-1); block ends every line with SGR_DEFAULT + newline and the output with SGR_DEFAULT",
}
CS, BL, KT, IT, CM = "_ctlseqs.py", "image/block.py", "image/kitty.py", "image/iterm2.py", "image/common.py"
INTRODUCERS = {"ESC": "\x1b", "BEL": "\x07", "APC": "\x1b_", "CSI": "\x1b[", "DCS": "\x1bP", "OSC": "\x1b]", "ST": "\x1b\\", "KITTY_START": "\x1b_G", "ITERM2_START": "\x1b]1337;File="}
RAW = {"CURSOR_UP", "CURSOR_DOWN", "CURSOR_FORWARD", "CURSOR_BACKWARD", "ERASE_CHARS"}
PARAMS = {"C", "Ps", "Pt"}


def raw_applications(m):
    """[(rel, qual, fn, BinOp)] for every `T % e` with T a raw cursor/erase template."""
    out = []
    for rel, q, fn in m.functions():
        if rel == CS:
            continue
        for n in body_walk(fn):
            if isinstance(n, ast.BinOp) and isinstance(n.op, ast.Mod) and (dotted(n.left) or "").split(".")[-1] in RAW:
                out.append((rel, q, fn, n))
    return out


def rule_operand_sign(ck, m, rid, only=None):
    apps = raw_applications(m)
    for rel, q, fn, n in apps:
        if only is not None and not only(rel, q):
            continue
        ok, why = ge1(n.right, fn, n)
        ck.ob(rid, enclosing_stmt(n), ok, f"{q}: `{short(n, 50)}`: {why}; a zero operand is emitted as e.g. `CSI 0 A`, which every terminal executes as a move by ONE",
              stmt=f"{q}: {short(n, 70)} operand >= 1")
    return len(apps)


def run(ck, m):
    tree = m.tree(CS)
    fold = Folder(tree)
    env = fold.env
    # ---- R1 ----------------------------------------------------------------------------
    start_i = next((i for i, s in enumerate(tree.body) if isinstance(s, ast.Assign) and norm(s.targets[0]) == "_START"), None)
    loop_i = next((i for i, s in enumerate(tree.body) if isinstance(s, ast.For) and "module_items" in norm(s.iter)), None)
    ck.need(start_i is not None and loop_i is not None, "_ctlseqs: `_START` marker / bytes-generation loop not found")
    names = [norm(s.targets[0]) for s in tree.body[start_i + 1:loop_i] if isinstance(s, ast.Assign) and isinstance(s.targets[0], ast.Name) and norm(s.targets[0]) != "module_items"]
    ck.expect(len(names) >= 43, f"expected >= 43 control-sequence constants, found {len(names)}")
    for nm in names:
        v = env.get(nm, UNKNOWN)
        ck.expect(v is not UNKNOWN and isinstance(v, str), f"_ctlseqs.{nm} could not be constant-folded")
        if v is UNKNOWN or not isinstance(v, str):
            continue
        node = next(s for s in tree.body if isinstance(s, ast.Assign) and norm(s.targets[0]) == nm)
        if nm in INTRODUCERS:
            ck.ob("R1", node, v == INTRODUCERS[nm], f"{nm} must be exactly {INTRODUCERS[nm]!r}; folded to {v!r}", stmt=f"{nm} == {INTRODUCERS[nm]!r}", construct=f"{CS}::<module>")
            continue
        try:
            seqs = ecma48.parse(v)
            ok, why = bool(seqs), ""
        except ecma48.Incomplete as e:
            ok, why = False, str(e)
        ck.ob("R1", node, ok, f"{nm} = {v!r} is not a concatenation of complete control sequences: {why}", stmt=f"{nm} is complete: {v!r}", construct=f"{CS}::<module>")
    loop = tree.body[loop_i]
    ck.ob("R1", loop, "module_items.index(('_START', None)) + 1" in norm(loop.iter) and any("globals()[f'{name}_b'] = value.encode()" == norm(s) for s in loop.body),
          "the bytes version `<name>_b` must be generated for every definition after _START", stmt="_b generation loop", construct=f"{CS}::<module>")
    for h, tmpl in (("cursor_up", "CURSOR_UP"), ("cursor_down", "CURSOR_DOWN"), ("cursor_forward", "CURSOR_FORWARD"), ("cursor_backward", "CURSOR_BACKWARD")):
        fn = m.get(CS, h)
        arg = fn.args.args[0].arg
        r = next((s for s in fn.body if isinstance(s, ast.Return)), None)
        ok = r is not None and isinstance(r.value, ast.IfExp) and match_expr(f"{tmpl} % {arg}", r.value.body) is not None and norm(r.value.orelse) == "''" and norm(r.value.test) in (f"{arg} > 0", f"{arg} >= 1")
        ck.ob("R1", fn, ok, f"{h}(n) must be `{tmpl} % n if n > 0 else ''` (a non-positive count must emit nothing, not `CSI 0 x`)", stmt=f"{h}: guarded helper")

    # ---- R2 ----------------------------------------------------------------------------
    n_lit = 0
    for rel, f in m.files.items():
        if rel == CS:
            continue
        for n in ast.walk(f.tree):
            if isinstance(n, ast.Constant) and isinstance(n.value, (str, bytes)):
                n_lit += 1
                v = n.value if isinstance(n.value, str) else n.value.decode("latin-1")
                bad = "\x1b" in v or any(0x80 <= ord(c) <= 0x9F for c in v)
                if bad and isinstance(getattr(n, "_p", None), ast.Expr):
                    continue  # docstring
                if bad:
                    ck.ob("R2", enclosing_stmt(n), False, f"hand-written escape sequence {short(n, 40)} outside _ctlseqs.py: it bypasses the completeness check of R1", stmt=f"{rel}: literal {short(n, 40)}")
    ck.ob("R2", None, True, f"{n_lit} string literals scanned outside _ctlseqs.py", stmt="no ESC/C1 in literals outside _ctlseqs.py", construct="<package>")
    ck.expect(n_lit > 500, "literal scan looks vacuous")
    # positive example (must match on every run)
    pos = ast.parse('x = "\\x1b[0m"').body[0].value
    ck.need("\x1b" in pos.value, "R2 positive example failed")
    ir = m.get(IT, "ITerm2Image._render_image")
    n_open = 0
    for n in body_walk(ir):
        if isinstance(n, ast.Tuple) and any(norm(e) == "ITERM2_START" for e in n.elts):
            n_open += 1
            els = [norm(e) for e in n.elts]
            i = els.index("ITERM2_START")
            rest = els[i + 1:]
            j = rest.index("ST") if "ST" in rest else -1
            ck.ob("R2", enclosing_stmt(n), j >= 0 and not any("\\n" in x or "ITERM2_START" in x for x in rest[:j]), f"an OSC 1337 opener is not closed by ST before the next newline/opener in {els}", stmt="iterm2 join: ITERM2_START ... ST")
        if isinstance(n, ast.Call) and norm(n.func) == "buffer.write" and n.args and norm(n.args[0]) == "ITERM2_START":
            n_open += 1
            blk = enclosing_stmt(n)._p.body
            seq = [norm(s.value.args[0]) if isinstance(s, ast.Expr) and isinstance(s.value, ast.Call) and norm(s.value.func) == "buffer.write" and s.value.args else norm(s) for s in blk]
            i = seq.index("ITERM2_START")
            j = next((k for k in range(i + 1, len(seq)) if seq[k] == "ST"), -1)
            ck.ob("R2", enclosing_stmt(n), j > i and not any("'\\n'" in x for x in seq[i + 1:j]), "the per-line OSC 1337 opener is not closed by ST before the newline", stmt="iterm2 LINES: write(ITERM2_START) ... write(ST)")
    ck.expect(n_open >= 3, f"expected >= 3 ITERM2_START emissions, found {n_open}")

    # ---- R3 ----------------------------------------------------------------------------
    n3 = rule_operand_sign(ck, m, "R3")
    ck.expect(n3 >= 8, f"expected >= 8 applications of raw cursor/erase templates, found {n3}")

    # ---- R4 ----------------------------------------------------------------------------
    renderers = [(rel, c) for rel, c in m.subclasses("BaseImage") if any(isinstance(s, ast.FunctionDef) and s.name == "_render_image" and not any(norm(d) == "abstractmethod" for d in s.decorator_list) for s in c.body)]
    ck.expect(sorted(c.name for _, c in renderers) == ["BlockImage", "ITerm2Image", "KittyImage"], f"concrete renderers found: {[c.name for _, c in renderers]}; a new render style needs its own line-structure rules")
    # -- kitty
    kr = m.get(KT, "KittyImage._render_image")
    rs = find_stmts("$$rw, $$rh = self.rendered_size", body_walk(kr))
    ck.need(len(rs) == 1, "kitty: r_width, r_height = self.rendered_size not found")
    rw, rh = norm(rs[0][1]["rw"]), norm(rs[0][1]["rh"])
    fnl = find_stmts("$$fn = $$f + '\\n'", body_walk(kr))
    ck.expect(len(fnl) == 1, "kitty: `<fill_newline> = <fill> + newline` not recognised")
    FN, F = (norm(fnl[0][1]["fn"]), norm(fnl[0][1]["f"])) if fnl else ("fill_newline", "fill")
    fl = find_stmts(f"{F} = $e", body_walk(kr))
    okf = len(fl) == 1 and match_expr(f"('' if mix else ERASE_CHARS % {rw}) + CURSOR_FORWARD % {rw}", fl[0][1]["e"]) is not None
    ck.ob("R4", fl[0][0] if fl else kr, okf,
          f"kitty places images with C=1 (cursor does not move), so each line must end with an explicit CURSOR_FORWARD % {rw} (after an optional ERASE_CHARS % {rw}); found `{norm(fl[0][1]['e']) if fl else None}`", stmt="kitty: fill = [ECH w] CUF w; fill_newline = fill + newline")
    lines_if = next((s for s in kr.body if isinstance(s, ast.If) and norm(s.test) == "render_method == LINES"), None)
    ck.need(lines_if is not None, "kitty: LINES branch not found")
    lps = [n for n in walk_local(lines_if) if isinstance(n, ast.For) and any(norm(s) == f"buffer.write({FN})" for s in n.body)]
    ck.expect(len(lps) == 1, "kitty LINES: the loop writing the newline-bearing fragment not recognised")
    lp = lps[0] if lps else None
    okl = lp is not None and match_expr(f"range({rh} - 1)", lp.iter) is not None
    ck.ob("R4", lp or lines_if, okl, f"kitty LINES: the newline-bearing fragment must be written exactly {rh} - 1 times (`for _ in range({rh} - 1)`); found `{norm(lp.iter) if lp else None}`", stmt="kitty LINES: r_height - 1 newlines")
    other_nl = [s for s in walk_local(lines_if) if isinstance(s, ast.Expr) and norm(s) == f"buffer.write({FN})" and (lp is None or s not in lp.body)]
    ck.ob("R4", lines_if, not other_nl, "kitty LINES: the newline-bearing fragment is also written outside the counted loop", stmt="kitty LINES: no extra newline fragment")
    ret_i = next((s for s in walk_local(lines_if) if isinstance(s, ast.Return)), None)
    last_w = [s for s in walk_local(lines_if) if isinstance(s, ast.Expr) and isinstance(s.value, ast.Call) and norm(s.value.func) == "buffer.write" and s.lineno < (ret_i.lineno if ret_i else 0)]
    ck.ob("R4", lines_if, bool(last_w) and norm(max(last_w, key=lambda s: s.lineno)) == f"buffer.write({F})", "kitty LINES: the output must end with `fill` (no trailing newline)", stmt="kitty LINES: ends with fill")
    jn = next((n for n in body_walk(kr) if isinstance(n, ast.Tuple) and any(norm(e).startswith(FN) for e in n.elts)), None)
    okw = jn is not None and match_expr(f"{FN} * ({rh} - 1)", jn.elts[-2]) is not None and norm(jn.elts[-1]) == F
    ck.ob("R4", enclosing_stmt(jn) if jn is not None else kr, okw, f"kitty WHOLE: `{FN} * ({rh} - 1)` then `{F}`; found {[norm(e) for e in jn.elts[-2:]] if jn is not None else None}", stmt="kitty WHOLE: r_height - 1 newlines, ends with fill")
    cdc = m.get(KT, "ControlData")
    cdef = next((norm(s.value) for s in cdc.body if isinstance(s, ast.AnnAssign) and norm(s.target) == "C"), None)
    ck.ob("R4", cdc, cdef == "C.STAY", "kitty: the cursor policy must stay C=1 (the renderer moves the cursor itself)", stmt="kitty: C defaults to STAY")
    # -- iterm2
    irs = find_stmts("$$rw, $$rh = self.rendered_size", body_walk(ir))
    ck.need(len(irs) == 1, "iterm2: r_width, r_height = self.rendered_size not found")
    rw, rh = norm(irs[0][1]["rw"]), norm(irs[0][1]["rh"])
    cr = find_stmts(f"cursor_right = CURSOR_FORWARD % {rw}", body_walk(ir))
    cu = find_stmts("cursor_up = $e", body_walk(ir))
    ck.ob("R4", ir, len(cr) == 1, f"iterm2: cursor_right must be CURSOR_FORWARD % {rw}", stmt="iterm2: cursor_right")
    ck.ob("R4", cu[0][0] if cu else ir, len(cu) == 1 and match_expr(f"CURSOR_UP % ({rh} - 1) if {rh} > 1 else ''", cu[0][1]["e"]) is not None,
          f"iterm2: cursor_up must be `CURSOR_UP % ({rh} - 1) if {rh} > 1 else ''`; found `{norm(cu[0][1]['e']) if cu else None}`", stmt="iterm2: cursor_up")
    ctl = [n for n in body_walk(ir) if isinstance(n, ast.JoinedStr) and "preserveAspectRatio" in norm(n)]
    ck.expect(len(ctl) == 3, f"iterm2: expected 3 control-data strings, found {len(ctl)}")
    for j in ctl:
        ck.ob("R4", enclosing_stmt(j), "{';doNotMoveCursor=1' * is_on_konsole}" in norm(j),
              "iterm2: on konsole the renderer advances the cursor itself (CUF/newlines after the image), so the command must carry doNotMoveCursor=1 under the same condition; "
              f"found `{norm(j)[:100]}`", stmt="iterm2: doNotMoveCursor=1 iff is_on_konsole")
    tups = [n for n in body_walk(ir) if isinstance(n, ast.Tuple) and any(norm(e) == "ITERM2_START" for e in n.elts)]
    for t in tups:
        els = [norm(e) for e in t.elts]
        want = [f"'' if is_on_konsole else f'{{erase}}{{cursor_right}}\\n' * ({rh} - 1)", "erase", "'' if is_on_konsole else cursor_up", "ITERM2_START", "control_data", None, "ST",
                f"f'{{cursor_right}}\\n' * ({rh} - 1) if is_on_konsole else ''", "cursor_right * is_on_konsole"]
        ok = len(els) == len(want) and all(w is None or w == e for w, e in zip(want, els))
        ck.ob("R4", enclosing_stmt(t), ok,
              f"iterm2 WHOLE/ANIM choreography must be: [pre-advance h-1 lines unless konsole] erase [cursor_up unless konsole] START control payload ST [CUF+newline h-1 times on konsole] [CUF on konsole]; found {els}",
              stmt="iterm2 WHOLE/ANIM: cursor choreography")
    lp = next((n for n in body_walk(ir) if isinstance(n, ast.For) and rh in norm(n.iter)), None)
    okl = lp is not None and match_expr(f"range(1, {rh} + 1)", lp.iter) is not None
    lv = norm(lp.target) if lp is not None else "line"
    nl = [s for s in (walk_local(lp) if lp is not None else []) if isinstance(s, ast.Expr) and isinstance(s.value, ast.Call) and norm(s.value.func) == "buffer.write" and "\\n" in norm(s.value.args[0])]
    lp_conds = conds(lp) if lp is not None else set()
    ck.ob("R4", lp or ir, okl and len(nl) == 1 and norm(nl[0].value.args[0]) == "'\\n'" and (conds(nl[0]) - lp_conds) == {f"{lv} < {rh}"},
          f"iterm2 LINES: a newline after every line but the last (written under `{lv} < {rh}` only); found under {sorted(conds(nl[0]) - lp_conds) if nl else None}", stmt="iterm2 LINES: r_height - 1 newlines")
    cuf = [s for s in (walk_local(lp) if lp is not None else []) if isinstance(s, ast.Expr) and norm(s.value) == "buffer.write(cursor_right)"]
    ck.ob("R4", lp or ir, len(cuf) == 1 and bool(nl) and (conds(cuf[0]) - lp_conds) == {"is_on_konsole"} and cuf[0].lineno < nl[0].lineno,
          "iterm2 LINES: on konsole (and only there) each line must be followed by CUF rendered_width before the newline", stmt="iterm2 LINES: CUF on konsole before newline")
    # -- block
    br = m.get(BL, "BlockImage._render_image")
    eol = find_stmts("end_of_line = SGR_DEFAULT + '\\n'", body_walk(br))
    ck.ob("R4", br, len(eol) == 1, "block: every line must end with SGR_DEFAULT + newline (attributes reset before the newline, padding never coloured)", stmt="block: end_of_line = SGR_DEFAULT + newline")
    wh = find_stmts("$$w, $$h = self._get_render_size()", body_walk(br))
    ck.need(len(wh) == 1, "block: width, height = self._get_render_size() not found")
    H = norm(wh[0][1]["h"])
    outer = next((s for s in br.body if isinstance(s, ast.For)), None)
    inc = find_stmts("$$r += 2", outer.body if outer else [])
    tst = [s for s in (outer.body if outer else []) if isinstance(s, ast.If) and any(norm(x) == "buf_write(end_of_line)" for x in s.body)]
    ck.ob("R4", outer or br, len(inc) == 1 and len(tst) == 1 and norm(tst[0].test) == f"{norm(inc[0][1]['r'])} < {H}" and outer.body.index(inc[0][0]) < outer.body.index(tst[0]),
          "block: two pixel rows per line; the line terminator is written for every line but the last (`row_no += 2` ... `if row_no < height`)", stmt="block: r_height - 1 line terminators")
    init = find_stmts(f"{norm(inc[0][1]['r']) if inc else 'row_no'} = 0", br.body)
    ck.ob("R4", br, len(init) == 1, "block: the pixel-row counter must start at 0", stmt="block: row counter starts at 0")
    after = [s for s in br.body if outer is not None and s.lineno > outer.end_lineno]
    ck.ob("R4", br, bool(after) and norm(after[0]) == "buf_write(SGR_DEFAULT)", "block: the output must end with SGR_DEFAULT (attributes reset after the last line)", stmt="block: final SGR_DEFAULT")
    nl_consts = [n for n in body_walk(br) if isinstance(n, ast.Constant) and isinstance(n.value, str) and "\n" in n.value and not isinstance(n._p, ast.Expr)]
    ck.ob("R4", br, len(nl_consts) == 1, f"block: newline appears in {len(nl_consts)} literals; only end_of_line may carry one", stmt="block: single newline-bearing fragment")
    for fn, nm, allowed in ((kr, "kitty", 1), (ir, "iterm2", 5)):
        cnt = len([n for n in body_walk(fn) if isinstance(n, ast.Constant) and isinstance(n.value, str) and "\n" in n.value and not isinstance(n._p, ast.Expr)])
        ck.ob("R4", fn, cnt == allowed, f"{nm}: {cnt} newline-bearing literals, {allowed} recognised by the idioms above; a new one is outside the analysis", stmt=f"{nm}: newline-bearing fragments all recognised")

    from rules.c03 import rule_chunk_protocol
    rule_chunk_protocol(ck, m, "R5")


MUTANTS = [
    M("template-no-final", CS, None, 'SGR = f"{CSI}{Pt}m"', 'SGR = f"{CSI}{Pt}"', {"R1"}),
    M("osc-no-st", CS, None, 'TEXT_PARAM_QUERY = f"{OSC}{Ps};?{ST}"', 'TEXT_PARAM_QUERY = f"{OSC}{Ps};?"', {"R1"}),
    M("helper-unguarded", CS, "cursor_up", "return CURSOR_UP % lines if lines > 0 else \"\"", "return CURSOR_UP % lines", {"R1"}),
    M("literal-escape", BL, "BlockImage._render_image", "        end_of_line = SGR_DEFAULT + \"\\n\"\n", "        end_of_line = \"\\x1b[0m\" + \"\\n\"\n", {"R2", "R4"}),
    M("drop-st-lines", IT, "ITerm2Image._render_image", "                    buffer.write(ST)\n", "", {"R2"}),
    M("wrong-guard-var", IT, "ITerm2Image._render_image", "cursor_up = CURSOR_UP % (r_height - 1) if r_height > 1 else \"\"", "cursor_up = CURSOR_UP % (r_height - 1) if r_width > 1 else \"\"", {"R3", "R4"}),
    M("unguarded-up", CM, "BaseImage._display_animated", "cursor_up = CURSOR_UP % (lines - 1) if lines > 1 else \"\"", "cursor_up = CURSOR_UP % (lines - 1)", {"R3"}),
    M("range-r-height", KT, "KittyImage._render_image", "for _ in range(r_height - 1):", "for _ in range(r_height):", {"R4"}),
    M("times-r-height", KT, "KittyImage._render_image", "fill_newline * (r_height - 1),", "fill_newline * r_height,", {"R4"}),
    M("delete-final-fill", KT, "KittyImage._render_image", "                buffer.write(fill)\n\n                return buffer.getvalue()", "                return buffer.getvalue()", {"R4"}),
    M("swap-operand", KT, "KittyImage._render_image", "(CURSOR_FORWARD % r_width)", "(CURSOR_FORWARD % r_height)", {"R4"}),
    M("anim-drops-donotmove", IT, "ITerm2Image._render_image",
      "                        f\"size={compressed_image.tell()};width={r_width}\"\n                        f\";height={r_height};preserveAspectRatio=0;inline=1\"\n                        f\"{';doNotMoveCursor=1' * is_on_konsole}:\"\n                    )\n                )\n                compressed_image.seek(0)\n                return \"\".join(\n                    (\n                        (\n                            \"\"\n                            if is_on_konsole",
      "                        f\"size={compressed_image.tell()};width={r_width}\"\n                        f\";height={r_height};preserveAspectRatio=0;inline=1:\"\n                    )\n                )\n                compressed_image.seek(0)\n                return \"\".join(\n                    (\n                        (\n                            \"\"\n                            if is_on_konsole", {"R4"}),
    M("block-eol-no-reset", BL, "BlockImage._render_image", "end_of_line = SGR_DEFAULT + \"\\n\"", "end_of_line = \"\\n\"", {"R4"}),
    M("block-le", BL, "BlockImage._render_image", "if row_no < height:", "if row_no <= height:", {"R4"}),
    M("twin-rename-fill", KT, "KittyImage._render_image", "fill_newline", "fill_nl", twin=True, count=0),
]
