"""C01 - a render output occupies exactly its advertised columns x lines rectangle: structural clauses
(DESIGN.md 4, C01). What a terminal does with the string (cells painted, wrapping) is not decided."""
from __future__ import annotations

import ast

from tiv import affine, ecma48
from tiv.astutil import conds, body_walk, call_name, dotted, enclosing_stmt, guards, norm, short, stores_in, walk_local
from tiv.constfold import UNKNOWN, Folder
from tiv.effects import names_in
from tiv.match import b2s, find_exprs, find_stmts, match_expr, match_stmt
from tiv.affine import NotPoly, equal, parse
from tiv.mutate import M
from tiv.sign import ge1

RULES = {
    "R6": "borrowed clauses: C03.R3 (image commands carry width/height = rendered size, preserveAspectRatio=0), C03.R6 (kitty o=z flag never stale across strips) and "
          "C04.R3 (rendered_size re-evaluated on every access) hold for the renderers - the rectangle advertised is the rectangle painted",
    "MEMO": "memo safety (shared, rules/common.py): a memoised function in this property's files (or called from them) is a function of its "
            "arguments only (no terminal/ambient/receiver state outside the key) and no caller mutates its result in place; renderers keep no state: _render_image, _get_render_data, _format_render and the size helpers store to no attribute of the instance or class",
    "R1": "template completeness: every control-sequence constant of _ctlseqs.py, constant-folded, is a concatenation of complete ECMA-48 "
          "sequences (CSI ... final byte; OSC/APC/DCS ... ST) with placeholders only in parameter/payload positions; the declared "
          "introducers/terminators are exactly ESC BEL APC CSI DCS OSC ST KITTY_START ITERM2_START; the bytes versions are generated for all; "
          "cursor_up/down/forward/backward return '' for a non-positive operand",
    "R2": "no hand-written escapes: no string literal outside _ctlseqs.py contains ESC or a C1 control; every ITERM2_START (the only opener "
          "without its terminator in the same template) is followed by ST before the next newline/opener/return",
    "R3": "operand sign: every application `T % e` of a raw cursor/erase template (CURSOR_UP/DOWN/FORWARD/BACKWARD, ERASE_CHARS) has e >= 1 "
          "proven from the size clamp or a dominating guard (CSI 0 A moves by one on every ECMA-48 terminal)",
    "R5": "every transmitted graphics command is complete: a chunked kitty transmission is terminated (continuation flags m=1 ... m=0 by one-chunk "
          "look-ahead; shared with C03.R1)",
    "R4": 'line structure, decided on the symbolic output shape of each renderer (tiv.emit) for every case of the free conditions: the emitted text contains exactly rendered_height - 1 newlines and does not end with one; kitty (C=1: the cursor stays) ends every line with CURSOR_FORWARD % rendered_width, preceded by ERASE_CHARS iff not mix; iterm2 sends doNotMoveCursor=1 exactly on konsole, where it advances the cursor itself (CUF before every newline, CUF last), and otherwise pre-advances and returns with one CURSOR_UP of exactly the number of lines advanced (none for one line); block ends every line with SGR_DEFAULT + newline except the last',
}
CS, BL, KT, IT, CM = "_ctlseqs.py", "image/block.py", "image/kitty.py", "image/iterm2.py", "image/common.py"
INTRODUCERS = {"ESC": "\x1b", "BEL": "\x07", "APC": "\x1b_", "CSI": "\x1b[", "DCS": "\x1bP", "OSC": "\x1b]", "ST": "\x1b\\", "KITTY_START": "\x1b_G", "ITERM2_START": "\x1b]1337;File="}
RAW = {"CURSOR_UP", "CURSOR_DOWN", "CURSOR_FORWARD", "CURSOR_BACKWARD", "ERASE_CHARS"}
PARAMS = {"C", "Ps", "Pt"}


def raw_applications(m):
    """[(rel, qual, fn, BinOp)] for every `T % e` with T a raw cursor/erase template."""
    out = []
    for rel, q, fn in m.functions():
        if rel == CS:
            continue
        for n in body_walk(fn):
            if isinstance(n, ast.BinOp) and isinstance(n.op, ast.Mod) and (dotted(n.left) or "").split(".")[-1] in RAW:
                out.append((rel, q, fn, n))
    return out


def rule_operand_sign(ck, m, rid, only=None):
    apps = raw_applications(m)
    for rel, q, fn, n in apps:
        if only is not None and not only(rel, q):
            continue
        ok, why = ge1(n.right, fn, n)
        ck.ob(rid, enclosing_stmt(n), ok, f"{q}: `{short(n, 50)}`: {why}; a zero operand is emitted as e.g. `CSI 0 A`, which every terminal executes as a move by ONE",
              stmt=f"{q}: {short(n, 70)} operand >= 1")
    return len(apps)


def _poly_eq(affine, expr, p) -> bool:
    try:
        return affine.poly(expr) == p
    except affine.NotPoly:
        return False


def run(ck, m):
    from rules.common import rule_memo_safety
    rule_memo_safety(ck, m, "MEMO", "C01")          # first: a memoised helper also hides the code it wraps from the rules below
    from rules.common import rule_stateless_renderers
    rule_stateless_renderers(ck, m, "MEMO")
    tree = m.tree(CS)
    fold = Folder(tree)
    env = fold.env
    # ---- R1 ----------------------------------------------------------------------------
    start_i = next((i for i, s in enumerate(tree.body) if isinstance(s, ast.Assign) and norm(s.targets[0]) == "_START"), None)
    loop_i = next((i for i, s in enumerate(tree.body) if isinstance(s, ast.For) and "module_items" in norm(s.iter)), None)
    ck.need(start_i is not None and loop_i is not None, "_ctlseqs: `_START` marker / bytes-generation loop not found")
    names = [norm(s.targets[0]) for s in tree.body[start_i + 1:loop_i] if isinstance(s, ast.Assign) and isinstance(s.targets[0], ast.Name) and norm(s.targets[0]) != "module_items"]
    ck.expect(len(names) >= 43, f"expected >= 43 control-sequence constants, found {len(names)}")
    for nm in names:
        v = env.get(nm, UNKNOWN)
        ck.expect(v is not UNKNOWN and isinstance(v, str), f"_ctlseqs.{nm} could not be constant-folded")
        if v is UNKNOWN or not isinstance(v, str):
            continue
        node = next(s for s in tree.body if isinstance(s, ast.Assign) and norm(s.targets[0]) == nm)
        if nm in INTRODUCERS:
            ck.ob("R1", node, v == INTRODUCERS[nm], f"{nm} must be exactly {INTRODUCERS[nm]!r}; folded to {v!r}", stmt=f"{nm} == {INTRODUCERS[nm]!r}", construct=f"{CS}::<module>")
            continue
        try:
            seqs = ecma48.parse(v)
            ok, why = bool(seqs), ""
        except ecma48.Incomplete as e:
            ok, why = False, str(e)
        ck.ob("R1", node, ok, f"{nm} = {v!r} is not a concatenation of complete control sequences: {why}", stmt=f"{nm} is complete: {v!r}", construct=f"{CS}::<module>")
    loop = tree.body[loop_i]
    ck.ob("R1", loop, "module_items.index(('_START', None)) + 1" in norm(loop.iter) and any("globals()[f'{name}_b'] = value.encode()" == norm(s) for s in loop.body),
          "the bytes version `<name>_b` must be generated for every definition after _START", stmt="_b generation loop", construct=f"{CS}::<module>")
    for h, tmpl in (("cursor_up", "CURSOR_UP"), ("cursor_down", "CURSOR_DOWN"), ("cursor_forward", "CURSOR_FORWARD"), ("cursor_backward", "CURSOR_BACKWARD")):
        fn = m.get(CS, h)
        arg = fn.args.args[0].arg
        r = next((s for s in fn.body if isinstance(s, ast.Return)), None)
        ok = r is not None and isinstance(r.value, ast.IfExp) and match_expr(f"{tmpl} % {arg}", r.value.body) is not None and norm(r.value.orelse) == "''" and norm(r.value.test) in (f"{arg} > 0", f"{arg} >= 1")
        ck.ob("R1", fn, ok, f"{h}(n) must be `{tmpl} % n if n > 0 else ''` (a non-positive count must emit nothing, not `CSI 0 x`)", stmt=f"{h}: guarded helper")

    # ---- R2 ----------------------------------------------------------------------------
    n_lit = 0
    for rel, f in m.files.items():
        if rel == CS:
            continue
        for n in ast.walk(f.tree):
            if isinstance(n, ast.Constant) and isinstance(n.value, (str, bytes)):
                n_lit += 1
                v = n.value if isinstance(n.value, str) else n.value.decode("latin-1")
                bad = "\x1b" in v or any(0x80 <= ord(c) <= 0x9F for c in v)
                if bad and isinstance(getattr(n, "_p", None), ast.Expr):
                    continue  # docstring
                if bad:
                    ck.ob("R2", enclosing_stmt(n), False, f"hand-written escape sequence {short(n, 40)} outside _ctlseqs.py: it bypasses the completeness check of R1", stmt=f"{rel}: literal {short(n, 40)}")
    ck.ob("R2", None, True, f"{n_lit} string literals scanned outside _ctlseqs.py", stmt="no ESC/C1 in literals outside _ctlseqs.py", construct="<package>")
    ck.expect(n_lit > 500, "literal scan looks vacuous")
    # positive example (must match on every run)
    pos = ast.parse('x = "\\x1b[0m"').body[0].value
    ck.need("\x1b" in pos.value, "R2 positive example failed")
    ir = m.get(IT, "ITerm2Image._render_image")
    n_open = 0
    from tiv.sem import trace

    def _is_bw(c):          # buffer.write(...), directly or through a local alias of the bound method
        return norm(c.func) == "buffer.write" or (isinstance(c.func, ast.Name) and norm(trace(ir, c.func, use=c, keep=("buffer",))) == "buffer.write")

    def _starts_with_st(e):
        if isinstance(e, ast.BinOp) and isinstance(e.op, ast.Add):
            return _starts_with_st(e.left)
        if isinstance(e, ast.IfExp):
            return _starts_with_st(e.body) and _starts_with_st(e.orelse)
        return norm(e) == "ST"
    for n in body_walk(ir):
        if isinstance(n, ast.Tuple) and any(norm(e) == "ITERM2_START" for e in n.elts):
            n_open += 1
            els = [norm(e) for e in n.elts]
            i = els.index("ITERM2_START")
            rest = els[i + 1:]
            j = rest.index("ST") if "ST" in rest else -1
            ck.ob("R2", enclosing_stmt(n), j >= 0 and not any("\\n" in x or "ITERM2_START" in x for x in rest[:j]), f"an OSC 1337 opener is not closed by ST before the next newline/opener in {els}", stmt="iterm2 join: ITERM2_START ... ST")
        if isinstance(n, ast.Call) and _is_bw(n) and n.args and norm(n.args[0]) == "ITERM2_START":
            n_open += 1
            blk = enclosing_stmt(n)._p.body
            seq = [s.value.args[0] if isinstance(s, ast.Expr) and isinstance(s.value, ast.Call) and _is_bw(s.value) and s.value.args else s for s in blk]
            i = next(k for k, x in enumerate(seq) if isinstance(x, ast.expr) and norm(x) == "ITERM2_START")
            j = next((k for k in range(i + 1, len(seq)) if isinstance(seq[k], ast.expr) and _starts_with_st(trace(ir, seq[k]))), -1)
            ck.ob("R2", enclosing_stmt(n), j > i and not any("'\\n'" in norm(x) for x in seq[i + 1:j]), "the per-line OSC 1337 opener is not closed by ST before the newline", stmt="iterm2 LINES: write(ITERM2_START) ... write(ST)")
    ck.expect(n_open >= 3, f"expected >= 3 ITERM2_START emissions, found {n_open}")

    # ---- R3 ----------------------------------------------------------------------------
    n3 = rule_operand_sign(ck, m, "R3")
    ck.expect(n3 >= 8, f"expected >= 8 applications of raw cursor/erase templates, found {n3}")

    # ---- R4 ----------------------------------------------------------------------------
    renderers = [(rel, c) for rel, c in m.subclasses("BaseImage") if any(isinstance(s, ast.FunctionDef) and s.name == "_render_image" and not any(norm(d) == "abstractmethod" for d in s.decorator_list) for s in c.body)]
    ck.expect(sorted(c.name for _, c in renderers) == ["BlockImage", "ITerm2Image", "KittyImage"], f"concrete renderers found: {[c.name for _, c in renderers]}; a new render style needs its own line-structure rules")
    # -- kitty / iterm2: invariants of the symbolic output shape (tiv.emit), per return and per case of the free conditions
    from tiv import emit, affine

    def shape_cases(fn, label):
        rs = find_stmts("$$rw, $$rh = self.rendered_size", body_walk(fn))
        ck.need(len(rs) == 1, f"{label}: `<w>, <h> = self.rendered_size` not found")
        rw, rh = "self.rendered_size[0]", "self.rendered_size[1]"     # what the two names expand to (tiv.sem.expand)
        out = []
        sums = emit.summaries(fn, env)
        ck.expect(len(sums) >= 2, f"{label}: expected >= 2 string-returning paths, found {len(sums)}")
        seen_nl = set()
        for ret, facts, term in sums:
            cs = emit.cases(term, facts, limit=9)
            ck.expect(cs is not None, f"{label}: too many free conditions in the output shape of the return at line {m.loc(ret)}")
            for a_ in emit.atoms(term):
                if emit.is_nl(a_) and a_.src is not None:
                    seen_nl.add(id(a_.src))
            for f, t in cs or []:
                out.append((ret, f, t))
        # every newline-bearing literal of the function must be accounted for by a summary
        for n in body_walk(fn):
            if isinstance(n, ast.Constant) and isinstance(n.value, str) and "\n" in n.value and not isinstance(n._p, ast.Expr):
                ck.expect(id(n) in seen_nl, f"{label}: the newline-bearing literal at line {m.loc(n)} is not part of a recognised output shape")
        return rw, rh, out

    def is_fmt(a_, tmpl, arg=None):
        return isinstance(a_, emit.Fmt) and a_.tmpl == tmpl and (arg is None or norm(a_.args) == arg)

    def hand_made(a_):
        return isinstance(a_, emit.Lit) and "\x1b" in a_.text and not getattr(a_, "name", None)

    def show_case(f):
        return ", ".join(f"{k}={v}" for k, v in sorted(f.items()))

    def common_line_rules(label, ret, f, t, rh):
        c = emit.count(t, emit.is_nl)
        ck.expect(c is not None, f"{label}: the number of newlines in the output shape `{repr(t)[:160]}` is not determined")
        if c is not None:
            ck.ob("R4", ret, c == affine.poly(ast.parse(f"{rh} - 1", mode="eval").body),
                  f"{label} [{show_case(f)}]: the output has `{affine.show(c)}` newlines; a render of rendered_height lines must have exactly {rh} - 1 (shape: {repr(t)[:200]})",
                  stmt=f"{label}: newline count == {rh} - 1 [{show_case(f)}] @return#{ordinal[id(ret)]}")

    ordinal = {}
    # -- kitty
    kr = m.get(KT, "KittyImage._render_image")
    rw, rh, kcases = shape_cases(kr, "kitty")
    for i, r_ in enumerate(sorted({id(r): r for r, _, _ in kcases}.values(), key=lambda r: r.lineno)):
        ordinal[id(r_)] = i + 1
    for ret, f, t in kcases:
        common_line_rules("kitty", ret, f, t, rh)
        by = {a_.uid: a_ for a_ in emit.atoms(t)}
        pre, last = emit.predecessors(t)
        tag = f"[{show_case(f)}] @return#{ordinal[id(ret)]}"
        bad_nl = [(by[u], p_) for u in by if emit.is_nl(by[u]) for p_ in pre.get(u, ()) if p_ == "START" or not is_fmt(by[p_], "CURSOR_FORWARD", rw)]
        unk = [x for x in bad_nl if x[1] != "START" and hand_made(by[x[1]])]
        ck.expect(not unk, f"kitty: a newline is preceded by a hand-made control sequence ({unk[:1]}): not analysable")
        ck.ob("R4", ret, not bad_nl or bool(unk),
              f"kitty places images with C=1 (the cursor does not move), so every line must end with an explicit CURSOR_FORWARD % {rw} before the newline; "
              f"here a newline can directly follow `{by[bad_nl[0][1]] if bad_nl and bad_nl[0][1] != 'START' else 'the start of the output'}` {tag}", stmt=f"kitty: every newline preceded by CUF {rw} {tag}")
        bad_last = [by[u] for u in last if not is_fmt(by[u], "CURSOR_FORWARD", rw)]
        ck.ob("R4", ret, not bad_last, f"kitty: the output must end with CURSOR_FORWARD % {rw} (cursor at the right edge of the last line, no trailing newline); it can end with `{bad_last[:1]}` {tag}",
              stmt=f"kitty: ends with CUF {rw} {tag}")
        ech = [a_ for a_ in by.values() if isinstance(a_, emit.Fmt) and a_.tmpl == "ERASE_CHARS"]
        if f.get("mix") is True:
            ck.ob("R4", ret, not ech, f"kitty: with mix=True nothing may be erased under the image; found {ech[:1]} {tag}", stmt=f"kitty: no erase when mixing {tag}")
        elif f.get("mix") is False:
            cufs = [u for u, a_ in by.items() if is_fmt(a_, "CURSOR_FORWARD", rw)]
            bad = [u for u in cufs if any(p_ == "START" or not is_fmt(by[p_], "ERASE_CHARS", rw) for p_ in pre.get(u, ()))]
            ck.ob("R4", ret, bool(cufs) and not bad, f"kitty: without mix every line's cells must be erased (ERASE_CHARS % {rw}) right before the CURSOR_FORWARD {tag}", stmt=f"kitty: ECH {rw} before every CUF {tag}")
        else:
            ck.expect(False, f"kitty: the `mix` parameter does not appear as a condition of the output shape {tag}")
    ck.expect(len(kcases) >= 8, f"kitty: expected >= 8 (return, case) pairs, found {len(kcases)}")
    cdc = m.get(KT, "ControlData")
    cdef = next((norm(s.value) for s in cdc.body if isinstance(s, ast.AnnAssign) and norm(s.target) == "C"), None)
    ck.ob("R4", cdc, cdef == "C.STAY", "kitty: the cursor policy must stay C=1 (the renderer moves the cursor itself)", stmt="kitty: C defaults to STAY")
    # -- iterm2
    rw, rh, icases = shape_cases(ir, "iterm2")
    for i, r_ in enumerate(sorted({id(r): r for r, _, _ in icases}.values(), key=lambda r: r.lineno)):
        ordinal[id(r_)] = i + 1
    kon = "self._TERM == 'konsole'"
    wez = "self._TERM == 'wezterm'"
    n_checked = 0
    for ret, f, t in icases:
        if f.get(kon) and f.get(wez):
            continue   # infeasible: one terminal name
        tag = f"[{show_case({k: v for k, v in f.items() if k in (kon, wez, 'mix', f'{rh} > 1') or 'LINES' in k})}] @return#{ordinal[id(ret)]}"
        ck.expect(kon in f, f"iterm2: `{kon}` is not a condition of the output shape {tag}")
        if kon not in f:
            continue
        n_checked += 1
        common_line_rules("iterm2", ret, f, t, rh)
        by = {a_.uid: a_ for a_ in emit.atoms(t)}
        pre, last = emit.predecessors(t)
        ck.ob("R4", ret, not any(emit.is_nl(by[u]) for u in last), f"iterm2: the output can end with a newline {tag}", stmt=f"iterm2: no trailing newline {tag}")
        dnm = [a_ for a_ in by.values() if isinstance(a_, emit.Lit) and "doNotMoveCursor=1" in a_.text]
        starts = [a_ for a_ in by.values() if getattr(a_, "name", None) == "ITERM2_START"]
        ck.expect(bool(starts), f"iterm2: no ITERM2_START in the output shape {tag}")
        if f[kon]:
            ck.ob("R4", ret, len(dnm) == len(starts) and bool(dnm), "iterm2: on konsole the renderer advances the cursor itself (CUF/newlines after the image), so every image command must carry doNotMoveCursor=1 "
                  f"{tag}", stmt=f"iterm2: doNotMoveCursor=1 on konsole {tag}")
            bad_nl = [p_ for u in by if emit.is_nl(by[u]) for p_ in pre.get(u, ()) if p_ == "START" or not is_fmt(by[p_], "CURSOR_FORWARD", rw)]
            ck.ob("R4", ret, not bad_nl, f"iterm2: on konsole every line must be followed by CURSOR_FORWARD % {rw} before the newline {tag}", stmt=f"iterm2: konsole: CUF {rw} before every newline {tag}")
            bad_last = [by[u] for u in last if not is_fmt(by[u], "CURSOR_FORWARD", rw)]
            ck.ob("R4", ret, not bad_last, f"iterm2: on konsole the output must end with CURSOR_FORWARD % {rw}; it can end with {bad_last[:1]} {tag}", stmt=f"iterm2: konsole: ends with CUF {rw} {tag}")
        else:
            ck.ob("R4", ret, not dnm, f"iterm2: doNotMoveCursor=1 must only be sent to konsole (elsewhere the terminal itself moves the cursor past the image) {tag}", stmt=f"iterm2: no doNotMoveCursor off konsole {tag}")
            bad_last = [by[u] for u in last if getattr(by[u], "name", None) != "ST"]
            ck.ob("R4", ret, not bad_last, f"iterm2: off konsole the output must end with the image command's ST (the terminal leaves the cursor after the image); it can end with {bad_last[:1]} {tag}",
                  stmt=f"iterm2: ends with ST off konsole {tag}")
            # WHOLE/ANIM: the lines advanced before the image must be taken back by exactly one CURSOR_UP of the same amount
            if isinstance(t, emit.Seq) and not any("LINES" in k and v for k, v in f.items()):
                idx = next((i for i, it in enumerate(t.items) if getattr(it, "name", None) == "ITERM2_START"), None)
                ck.expect(idx is not None, f"iterm2: ITERM2_START is not a top-level fragment of the WHOLE/ANIM shape {tag}")
                if idx is not None:
                    prefix = emit.Seq(t.items[:idx])
                    c = emit.count(prefix, emit.is_nl)
                    cuu = [a_ for a_ in emit.atoms(prefix) if isinstance(a_, emit.Fmt) and a_.tmpl == "CURSOR_UP"]
                    gt1 = f.get(f"{rh} > 1")
                    ck.expect(c is not None and gt1 is not None, f"iterm2: pre-advance newline count / `{rh} > 1` case not determined {tag}")
                    if c is not None and gt1 is not None:
                        if gt1:
                            okc = len(cuu) == 1 and _poly_eq(affine, cuu[0].args, c)
                            ck.ob("R4", ret, okc, f"iterm2: {affine.show(c)} lines are advanced before the image, so exactly one CURSOR_UP % ({affine.show(c)}) must bring the cursor back to the first line; "
                                  f"found {cuu} {tag}", stmt=f"iterm2: CUU amount == lines advanced {tag}")
                        else:
                            ck.ob("R4", ret, not cuu, f"iterm2: for a one-line image no CURSOR_UP may be emitted (`CSI 0 A` moves up by one); found {cuu} {tag}", stmt=f"iterm2: no CUU for one line {tag}")
                    ech = [a_ for a_ in by.values() if isinstance(a_, emit.Fmt) and a_.tmpl == "ERASE_CHARS"]
                    nls = [u for u in by if emit.is_nl(by[u])]
                    bad_nl = [p_ for u in nls for p_ in pre.get(u, ()) if p_ == "START" or not is_fmt(by[p_], "CURSOR_FORWARD", rw)]
                    ck.ob("R4", ret, not bad_nl, f"iterm2: each pre-advanced line must be skipped with CURSOR_FORWARD % {rw} before its newline {tag}", stmt=f"iterm2: CUF {rw} before every pre-advance newline {tag}")
        ech = [a_ for a_ in by.values() if isinstance(a_, emit.Fmt) and a_.tmpl == "ERASE_CHARS"]
        if f.get("mix") is True or f.get(wez) is False:
            ck.ob("R4", ret, not ech, f"iterm2: cells are erased only on wezterm and only when not mixing; found {ech[:1]} {tag}", stmt=f"iterm2: no erase unless wezterm and not mix {tag}")
        elif f.get("mix") is False and f.get(wez) is True:
            ck.ob("R4", ret, bool(ech) and all(norm(a_.args) == rw for a_ in ech), f"iterm2: on wezterm without mix the cells under the image must be erased (ERASE_CHARS % {rw}) {tag}", stmt=f"iterm2: erase on wezterm without mix {tag}")
    ck.expect(n_checked >= 12, f"iterm2: expected >= 12 feasible (return, case) pairs, found {n_checked}")
    # -- block
    br = m.get(BL, "BlockImage._render_image")
    eol = find_stmts("end_of_line = SGR_DEFAULT + '\\n'", body_walk(br))
    ck.ob("R4", br, len(eol) == 1, "block: every line must end with SGR_DEFAULT + newline (attributes reset before the newline, padding never coloured)", stmt="block: end_of_line = SGR_DEFAULT + newline")
    wh = find_stmts("$$w, $$h = self._get_render_size()", body_walk(br))
    ck.need(len(wh) == 1, "block: width, height = self._get_render_size() not found")
    H = norm(wh[0][1]["h"])
    outer = next((s for s in br.body if isinstance(s, ast.For)), None)
    tst = [s for s in (outer.body if outer else []) if isinstance(s, ast.If) and not s.orelse and any(norm(x) == "buf_write(end_of_line)" for x in s.body)]
    all_eol = [n for n in body_walk(br) if isinstance(n, ast.Call) and norm(n) == "buf_write(end_of_line)"]
    ck.ob("R4", outer or br, len(tst) == 1 and len(all_eol) == 1, "block: the line terminator is written once per line of cells, under one test of the pixel-row counter, at the end of the line loop",
          stmt="block: one guarded terminator write per line")
    if len(tst) == 1:
        # the test must be equivalent to 2K < height in the K-th iteration (K = 1..height/2): every line but the last is terminated
        from tiv import induct
        try:
            op, P = induct.compare_at(br, outer, tst[0].test, tst[0])
        except induct.NotInductive as ex:
            op = None
            ck.expect(False, f"block: the terminator test `{short(tst[0].test)}` is not an affine comparison of the line counter ({ex})")
        if op is not None:
            ref = {(induct.K,): 2, (H,): -1}
            c = induct.proportional(P, ref)
            e = 0
            if c is None and () in P:
                e = P[()]
                c = induct.proportional({k: v for k, v in P.items() if k != ()}, ref)
            ck.expect(c is not None, f"block: the terminator test `{short(tst[0].test)}` compares {affine.show(P)}; expected a multiple of 2K - {H}")
            if c is not None:
                if c < 0:  # l op r  ==  (-l) op' (-r)
                    c, e = -c, -e
                    op = {ast.Lt: ast.Gt, ast.Gt: ast.Lt, ast.LtE: ast.GtE, ast.GtE: ast.LtE}.get(op, op)
                okc = (op is ast.Lt and e == 0) or (op is ast.NotEq and e == 0) or (op is ast.LtE and 0 < e <= 2 * c)
                ck.ob("R4", tst[0], okc, f"block: two pixel rows per line; the line terminator must be written for every line but the last: in the K-th line the test is `{affine.show(P)} "
                      f"{ {ast.Lt: '<', ast.Gt: '>', ast.LtE: '<=', ast.GtE: '>=', ast.NotEq: '!=', ast.Eq: '=='}.get(op, '?')} 0` (sign-normalised), which is not 2K < {H}", stmt="block: r_height - 1 line terminators")
    after = [s for s in br.body if outer is not None and s.lineno > outer.end_lineno]
    ck.ob("R4", br, bool(after) and norm(after[0]) == "buf_write(SGR_DEFAULT)", "block: the output must end with SGR_DEFAULT (attributes reset after the last line)", stmt="block: final SGR_DEFAULT")
    nl_consts = [n for n in body_walk(br) if isinstance(n, ast.Constant) and isinstance(n.value, str) and "\n" in n.value and not isinstance(n._p, ast.Expr)]
    ck.ob("R4", br, len(nl_consts) == 1, f"block: newline appears in {len(nl_consts)} literals; only end_of_line may carry one", stmt="block: single newline-bearing fragment")

    from rules.c03 import rule_chunk_protocol
    rule_chunk_protocol(ck, m, "R5")

    # ---- R6: what the rectangle also depends on, decided by sibling properties' rules and applied here to the same code ---------
    #   C03.R3: the image commands carry width/height = rendered size, preserveAspectRatio=0 (the image covers every cell);
    #   C03.R6: the kitty o=z flag never goes stale across the strips of one render (a strip that fails to decode paints nothing);
    #   C04.R3: rendered_size is re-evaluated on every access for a dynamic size (the advertised rectangle is the current one).
    from tiv.report import Scoped
    import rules.c03 as c03
    import rules.c04 as c04
    sc3 = Scoped(ck, "R6", lambda c: "_render_image" in c or "Transmission" in c or "ControlData" in c, rids={"R3", "R4", "R6"})
    c03.run(sc3, m)
    sc4 = Scoped(ck, "R6", lambda c: c.endswith("::BaseImage") or "rendered_" in c, rids={"R3"})
    c04.run(sc4, m)
    #   C02.R3: every cell of a block line is painted (on kitty a background equal to the default background is not painted at all,
    #           so the work-around must cover every cluster whose background colour is used).
    import rules.c02 as c02
    sc2 = Scoped(ck, "R6", lambda c: c.endswith("update_buffer"), rids={"R3"})
    c02.run(sc2, m)
    #   C02.R4: the resize is skipped only when the frame held has the target size (else the render has not the advertised dimensions).
    c02.rule_resize_guard(ck, m, "R6")
    ck.expect(sc3.kept >= 10 and sc4.kept >= 3 and sc2.kept >= 8, f"expected sibling obligations (C03.R3/R6: {sc3.kept}, C04.R3: {sc4.kept}, C02.R3: {sc2.kept})")



MUTANTS = [
    M("template-no-final", CS, None, 'SGR = f"{CSI}{Pt}m"', 'SGR = f"{CSI}{Pt}"', {"R1"}),
    M("osc-no-st", CS, None, 'TEXT_PARAM_QUERY = f"{OSC}{Ps};?{ST}"', 'TEXT_PARAM_QUERY = f"{OSC}{Ps};?"', {"R1"}),
    M("helper-unguarded", CS, "cursor_up", "return CURSOR_UP % lines if lines > 0 else \"\"", "return CURSOR_UP % lines", {"R1"}),
    M("literal-escape", BL, "BlockImage._render_image", "        end_of_line = SGR_DEFAULT + \"\\n\"\n", "        end_of_line = \"\\x1b[0m\" + \"\\n\"\n", {"R2", "R4"}),
    M("drop-st-lines", IT, "ITerm2Image._render_image", "                    buffer.write(ST)\n", "", {"R2"}),
    M("wrong-guard-var", IT, "ITerm2Image._render_image", "cursor_up = CURSOR_UP % (r_height - 1) if r_height > 1 else \"\"", "cursor_up = CURSOR_UP % (r_height - 1) if r_width > 1 else \"\"", {"R3", "R4"}),
    M("unguarded-up", CM, "BaseImage._display_animated", "cursor_up = CURSOR_UP % (lines - 1) if lines > 1 else \"\"", "cursor_up = CURSOR_UP % (lines - 1)", {"R3"}),
    M("range-r-height", KT, "KittyImage._render_image", "for _ in range(r_height - 1):", "for _ in range(r_height):", {"R4"}),
    M("times-r-height", KT, "KittyImage._render_image", "fill_newline * (r_height - 1),", "fill_newline * r_height,", {"R4"}),
    M("delete-final-fill", KT, "KittyImage._render_image", "                buffer.write(fill)\n\n                return buffer.getvalue()", "                return buffer.getvalue()", {"R4"}),
    M("swap-operand", KT, "KittyImage._render_image", "(CURSOR_FORWARD % r_width)", "(CURSOR_FORWARD % r_height)", {"R4"}),
    M("anim-drops-donotmove", IT, "ITerm2Image._render_image",
      "                        f\"size={compressed_image.tell()};width={r_width}\"\n                        f\";height={r_height};preserveAspectRatio=0;inline=1\"\n                        f\"{';doNotMoveCursor=1' * is_on_konsole}:\"\n                    )\n                )\n                compressed_image.seek(0)\n                return \"\".join(\n                    (\n                        (\n                            \"\"\n                            if is_on_konsole",
      "                        f\"size={compressed_image.tell()};width={r_width}\"\n                        f\";height={r_height};preserveAspectRatio=0;inline=1:\"\n                    )\n                )\n                compressed_image.seek(0)\n                return \"\".join(\n                    (\n                        (\n                            \"\"\n                            if is_on_konsole", {"R4"}),
    M("block-eol-no-reset", BL, "BlockImage._render_image", "end_of_line = SGR_DEFAULT + \"\\n\"", "end_of_line = \"\\n\"", {"R4"}),
    M("block-le", BL, "BlockImage._render_image", "if row_no < height:", "if row_no <= height:", {"R4"}),
    M("renderer-keeps-last-transmission", KT, "KittyImage._render_image", "        vars(control_data).update(v=height, r=r_height)\n", "        vars(control_data).update(v=height, r=r_height)\n        self._last_whole = (height, r_height)\n", {"MEMO"}),
    M("twin-rename-fill", KT, "KittyImage._render_image", "fill_newline", "fill_nl", twin=True, count=0),
]
