"""C02 - block renders show exactly the image's pixels: the run-length state machine's structural core
(DESIGN.md 4, C02). Pixel values, PIL conversion and compositing results are runtime data - not decided."""
from __future__ import annotations

import ast
import re

from tiv.astutil import conds, body_walk, call_name, enclosing_stmt, flatten_boolop, guards, kw, norm, rename, short, stores_in, walk_local
from tiv.match import find_exprs, find_stmts, match_expr, match_stmt
from tiv.mutate import M
from tiv.sem import trace

RULES = {
    "MEMO": "memo safety (shared, rules/common.py): a memoised function in this property's files (or called from them) is a function of its "
            "arguments only (no terminal/ambient/receiver state outside the key) and no caller mutates its result in place; renderers keep no state: _render_image, _get_render_data, _format_render and the size helpers store to no attribute of the instance or class",
    "R1": 'the run-boundary predicate of the block renderer, traced to an expression over (alpha, a1, a2, a_cluster1, a_cluster2, px == cluster per half), agrees on all 648 valuations of a finite abstract domain with: flush <=> not (alpha and both halves stay transparent) and (colour change in either half or, under alpha, a change of transparency class in either half)',
    "R2": "the state update is complete: every loop-carried variable that update_buffer() reads (cluster1, cluster2, a_cluster1, a_cluster2, n) "
          "is reassigned right after the flush (alpha classes under `if alpha`), n restarts, and update_buffer() is called once more after the "
          "inner loop (rest of the line) before the line terminator",
    "R3": "the emission of update_buffer as a truth table over (alpha, upper transparent, lower transparent, halves equal), read off its symbolic output shape: both transparent -> SGR_DEFAULT + blanks; one half transparent -> SGR_DEFAULT + FG of the other half + that half's glyph; opaque -> BG from the lower cluster (+ FG of the upper one and the upper-half glyph unless equal); the kitty workaround tests and nudges the background cluster",
    "R4": "alpha classification: the text renderer requests round_alpha=True and derives `alpha` from the returned mode; _get_render_data rounds the "
          "threshold to 0..255, classifies with strict `<` (at or above is opaque) and composites over the terminal background under state-only "
          "conditions (no data-dependent shortcut); the background an image is composited over is the given colour or the terminal background with an opaque (string) fallback, never a numeric fill; shared with C19.R2: the transparency field of a format specifier is classified by the grammar's groups; the source image is read-only: no in-place edit of `<img>.info` / `.palette` where <img> can be the source object; nor is the image object modified in place (draft / paste / putalpha / thumbnail ...) where it can be the source, in _get_render_data and in the _render_image methods; resize(size, BOX) takes no reducing_gap / box; the image is resized as a whole (the receiver of resize is the pipeline's image, not a channel or another conversion of it); the resize is skipped only when the image about to be resized already has the target size (its own .size compared with size)",
}
BL, CM = "image/block.py", "image/common.py"
SWAP = {"px1": "px2", "px2": "px1", "cluster1": "cluster2", "cluster2": "cluster1", "a1": "a2", "a2": "a1", "a_cluster1": "a_cluster2", "a_cluster2": "a_cluster1",
        "upper_pixel": "lower_pixel", "lower_pixel": "upper_pixel"}


from tiv.absdom import EvUnk as _EvUnk, ev as _ev


def _check_bg(ck, ub, A, f):
    """The argument of SGR_BG_DIRECT in one case of update_buffer's output: the lower cluster's colour (`cluster2`, whole or by components);
    exactly when the kitty work-around applies (is_on_kitty and cluster2 == bg_color) its red component - and only it - is moved by one,
    staying in 0..255 (decided for each of the 256 values). Conditional expressions on the work-around condition inside the argument are split."""
    from tiv import emit
    KX = ast.parse("is_on_kitty and cluster2 == bg_color", mode="eval").body

    def kitty_cond(t):
        return any(isinstance(n, ast.Name) and n.id in ("is_on_kitty", "bg_color") for n in ast.walk(t))

    def split(e, facts):
        if isinstance(e, ast.IfExp) and kitty_cond(e.test):
            tv = emit.truth(e.test, facts)
            if tv is not False:
                yield from split(e.body, {**facts, norm(e.test): True} if tv is None else facts)
            if tv is not True:
                yield from split(e.orelse, {**facts, norm(e.test): False} if tv is None else facts)
        elif isinstance(e, ast.Tuple) and len(e.elts) == 3 and isinstance(e.elts[0], ast.IfExp) and kitty_cond(e.elts[0].test):
            for fx, r_ in split(e.elts[0], facts):
                yield fx, ast.Tuple(elts=[r_, e.elts[1], e.elts[2]], ctx=ast.Load())
        else:
            yield facts, e
    # every valuation of the atoms the work-around can depend on that is consistent with the case's facts (with equal halves, cluster1 == bg_color
    # and cluster2 == bg_color are the same proposition)
    import itertools
    AT = ["is_on_kitty", "cluster1 == bg_color", "cluster2 == bg_color"]
    vals = []
    for bits in itertools.product((True, False), repeat=3):
        val = dict(zip(AT, bits))
        if f.get("cluster1 == cluster2") is True and val[AT[1]] != val[AT[2]]:
            continue
        if all(emit.truth(ast.parse(k_, mode="eval").body, val) in (None, v_) for k_, v_ in f.items()):
            vals.append({**f, **val})
    seen = set()
    for fx, v in (y for val in vals for y in split(A, val)):
        k = emit.truth(KX, fx)
        if (k, norm(v)) in seen:
            continue
        seen.add((k, norm(v)))
        if norm(v) == "cluster2":
            comps = [ast.parse(f"cluster2[{i}]", mode="eval").body for i in range(3)]
        elif isinstance(v, ast.Tuple) and len(v.elts) == 3:
            comps = list(v.elts)
        else:
            ck.expect(False, f"update_buffer: background colour argument `{short(v)}` is not the lower cluster or a 3-tuple")
            continue
        ok_gb = norm(comps[1]) == "cluster2[1]" and norm(comps[2]) == "cluster2[2]"
        plain = norm(comps[0]) == "cluster2[0]"
        why = ""
        if k:
            ok = ok_gb and not plain
            if ok:
                try:
                    for r_ in range(256):
                        n_ = _ev(comps[0], {"cluster2[0]": r_})
                        if isinstance(n_, bool) or not isinstance(n_, int) or abs(n_ - r_) != 1 or not 0 <= n_ <= 255:
                            ok, why = False, f" (red {r_} -> {n_!r})"
                            break
                except _EvUnk as ex:
                    ck.expect(False, f"update_buffer: nudged red component `{short(comps[0])}` not evaluable ({ex})")
                    continue
        else:
            ok = ok_gb and plain
        ck.ob("R3", ub, ok, f"the kitty workaround must test the cluster whose colour is used as background (`cluster2 == bg_color`, under is_on_kitty) and nudge only its red component by one, within 0..255; "
              f"with the work-around {'applying' if k else 'not applying'} the background is `{short(v, 90)}`{why}", stmt=f"update_buffer: kitty workaround on the BG cluster [{'on' if k else 'off'}]")


def rels(e):
    """Canonical set of atomic relations of a (chained) comparison: frozenset of (op, frozenset(operands))."""
    if isinstance(e, ast.Compare):
        out = set()
        left = e.left
        for op, right in zip(e.ops, e.comparators):
            k = {ast.Eq: "eq", ast.NotEq: "ne", ast.Is: "is", ast.IsNot: "isnot", ast.Lt: "lt", ast.Gt: "gt", ast.LtE: "le", ast.GtE: "ge"}[type(op)]
            a, b = norm(left), norm(right)
            if k in ("lt", "le", "gt", "ge"):
                out.add((k, (a, b)))
            else:
                out.add((k, frozenset((a, b))))
            left = right
        # an all-equal chain is the set of its operands
        if all(isinstance(o, ast.Eq) for o in e.ops):
            ops = frozenset([norm(e.left)] + [norm(c) for c in e.comparators])
            return frozenset({("alleq", ops)})
        return frozenset(out)
    return frozenset({("expr", norm(e))})


def canon(e):
    """Canonical form of a boolean formula: nested ('and'/'or'/'not', frozenset(children)) over relation sets."""
    if isinstance(e, ast.BoolOp):
        k = "and" if isinstance(e.op, ast.And) else "or"
        return (k, frozenset(canon(v) for v in flatten_boolop(e, type(e.op))))
    if isinstance(e, ast.UnaryOp) and isinstance(e.op, ast.Not):
        return ("not", canon(e.operand))
    return ("rel", rels(e))


def rule_resize_guard(ck, m, rid):
    """The resize is skipped only when the frame held already has the target size: the test that guards it compares the size of the very image that
    would be resized with the target (frames / pages of one file need not have the size of frame 0 that was recorded when the image was opened).
    Shared by C01 (the render has the advertised dimensions), C02 and C03 (the pixels are those of the image at the render size)."""
    from tiv.astutil import guards as _guards
    grd = m.get(CM, "BaseImage._get_render_data")
    fns = [grd] + [n for n in ast.walk(grd) if isinstance(n, ast.FunctionDef) and n is not grd]
    n_ = 0
    for fn in fns:
        def owner(n):
            while n is not None and not isinstance(n, (ast.FunctionDef, ast.AsyncFunctionDef, ast.Lambda)):
                n = getattr(n, "_p", None)
            return n
        for c in [c for c in ast.walk(fn) if isinstance(c, ast.Call) and isinstance(c.func, ast.Attribute) and c.func.attr == "resize" and owner(c) is fn]:
            n_ += 1
            recv_ = norm(c.func.value)
            ck.ob(rid, enclosing_stmt(c), True, "", stmt=f"pixel pipeline: guards of `{short(c, 40)}` examined")
            for t_, _b in _guards(c):
                for x_ in ast.walk(t_):
                    if isinstance(x_, ast.Compare) and len(x_.ops) == 1 and isinstance(x_.ops[0], (ast.Eq, ast.NotEq)) and "size" in (norm(x_.left), norm(x_.comparators[0])):
                        oth_ = x_.comparators[0] if norm(x_.left) == "size" else x_.left
                        other_ = norm(oth_)
                        same_ = other_ == recv_ + ".size" or norm(trace(fn, oth_, use=x_)) in (recv_ + ".size", norm(trace(fn, c.func.value, use=c)) + ".size")
                        ck.ob(rid, enclosing_stmt(c), same_, f"whether `{short(c, 40)}` runs is decided by comparing the target size with `{other_}`, not with the size of the image about to be resized "
                              f"(`{recv_}.size`): a frame whose own size differs (multi-page TIFF / ICO, a frame after a draft) is then passed on at the wrong size - the render no longer has the advertised dimensions",
                              stmt="pixel pipeline: the resize is skipped only when the image held has the target size")
    ck.expect(n_ >= 1, "_get_render_data: no resize step found")


def rule_pixel_pipeline(ck, m, rid):
    """Order and conditions of the steps that produce the pixels (shared with C03): select the frame, convert to the target mode,
    then BOX-resize; resampling happens on pixels of the target mode only, and the frame is always selected for animated images."""
    from tiv.cfg import CFG, fmt_path
    from tiv.sem import econds
    grd = m.get(CM, "BaseImage._get_render_data")
    fns = [grd] + [n for n in ast.walk(grd) if isinstance(n, ast.FunctionDef) and n is not grd]
    seeks = [c for c in body_walk(grd) if isinstance(c, ast.Call) and isinstance(c.func, ast.Attribute) and c.func.attr == "seek" and norm(c.func.value) == "img"]
    ck.expect(len(seeks) == 1, f"_get_render_data: expected one `img.seek(...)`, found {len(seeks)}")
    for c in seeks:
        cds = econds(grd, c)
        ck.ob(rid, enclosing_stmt(c), cds == {"self._is_animated"} and [norm(a_) for a_ in c.args] == ["self._seek_position"],
              f"the frame to render must be selected (`img.seek(self._seek_position)`) whenever the image is animated - found conditions {sorted(cds)}: a PIL image supplied by the caller keeps the "
              "position of the last render, so any shortcut renders a stale frame", stmt="_get_render_data: img.seek(self._seek_position) iff animated")
    # the source image is only read: its metadata / palette (`img.info`, `img.palette`, ...) is never edited in place. For a PIL image supplied by
    # the caller `img` IS the caller's object (and the instance's source for every later render): popping `info['transparency']` for one
    # render changes the pixels of all later ones.
    from rules.common import IN_PLACE as _INPL
    FRESH_ = {"convert", "resize", "copy", "new", "crop", "transpose", "getchannel", "point", "open", "frombytes", "fromarray", "quantize", "reduce"}
    n_meta = 0
    # ... nor is the image object itself modified (draft / paste / putalpha / thumbnail ... on an image that can be the source): the renderers get
    # from _get_render_data either a fresh image or - when no conversion / resize was needed - the source object itself
    IMG_MUT = {"draft", "paste", "putalpha", "putdata", "putpixel", "putpalette", "thumbnail", "alpha_composite", "frombytes", "apply_transparency", "convert_alpha", "rotate_inplace"}
    rimgs = [fn2 for _r2, q2, fn2 in m.functions() if q2.endswith("._render_image") and _r2.startswith("image/")]
    for fn_ in fns + rimgs:
        for x in body_walk(fn_):
            recv = None
            if isinstance(x, ast.Call) and isinstance(x.func, ast.Attribute) and x.func.attr in IMG_MUT and isinstance(x.func.value, ast.Name) and x.func.value.id not in ("self", "cls"):
                tr0 = trace(fn_, x.func.value, use=x)
                fresh0 = isinstance(tr0, ast.Call) and ((isinstance(tr0.func, ast.Attribute) and tr0.func.attr in FRESH_) or norm(tr0.func) in ("Image.new", "PIL.Image.new", "Image.frombytes", "PIL.Image.frombytes"))
                src0 = (isinstance(tr0, ast.Name) and tr0.id in ("img", "frame_img")) or "_get_render_data(" in norm(tr0) or "_get_image(" in norm(tr0)
                if src0 and not fresh0:
                    n_meta += 1
                    ck.ob(rid, enclosing_stmt(x), False, f"`{short(x, 60)}` modifies `{x.func.value.id}` in place, which can be the source image itself (`{short(tr0, 50)}`; _get_render_data returns the source object when no "
                          "conversion or resize was needed): every later render of the same image then starts from modified pixels / a reduced decode", stmt=f"{fn_.name}: source image not modified in place: {short(x, 40)}")
                continue
            if isinstance(x, ast.Call) and isinstance(x.func, ast.Attribute) and x.func.attr in _INPL and isinstance(x.func.value, (ast.Attribute, ast.Subscript)):
                recv = x.func.value
            elif isinstance(x, (ast.Subscript, ast.Attribute)) and isinstance(x.ctx, (ast.Store, ast.Del)) and isinstance(x.value, (ast.Attribute, ast.Subscript)):
                recv = x.value
            if recv is None:
                continue
            root = recv
            while isinstance(root, (ast.Attribute, ast.Subscript)):
                root = root.value
            if not isinstance(root, ast.Name) or root.id in ("self", "cls"):
                continue
            tr_ = trace(fn_, root, use=x)
            fresh = isinstance(tr_, ast.Call) and isinstance(tr_.func, ast.Attribute) and tr_.func.attr in FRESH_
            if "img" in norm(root) or "image" in norm(root) or any(isinstance(n_, ast.Name) and n_.id in ("img", "frame_img") for n_ in ast.walk(tr_)):
                n_meta += 1
                ck.ob(rid, enclosing_stmt(x), fresh, f"`{short(x, 60)}` edits state of `{root.id}` in place, which can be the source image itself (a caller's PIL image is rendered from directly): every later render of "
                      "the same image then sees the edited metadata - the pixels shown depend on the render history", stmt=f"_get_render_data: source image metadata not edited: {short(x, 40)}")
    ck.extra["source_metadata_edits"] = n_meta
    comp = [c for c in body_walk(grd) if isinstance(c, ast.Call) and isinstance(c.func, ast.Attribute) and c.func.attr == "alpha_composite" and isinstance(c.func.value, ast.Name)
            and [norm(a_) for a_ in c.args] == ["img"] and norm(trace(grd, c.func.value, use=c)).startswith("Image.new('RGBA', img.size")]
    # what the image is composited over: the user's colour, or the terminal background with OPAQUE black as the fallback. For an RGBA
    # canvas a numeric fill such as 0 is transparent black: nothing would be blended and translucent pixels keep their raw colour.
    for c in comp:
        new_ = trace(grd, c.func.value, use=c)
        col = new_.args[2] if isinstance(new_, ast.Call) and len(new_.args) >= 3 else None
        consts = [x for x in ast.walk(col) if isinstance(x, ast.Constant) and not isinstance(getattr(x, "_p", None), ast.Subscript)] if col is not None else []
        # (constants that are subscript indices / keyword flags of the colour query are not colours)
        fills = [x for x in consts if not isinstance(x.value, bool) and not (isinstance(x.value, int) and any(isinstance(p_, ast.Subscript) and p_.slice is x for p_ in ast.walk(col)))
                 and not (isinstance(x.value, str) and x.value == "#")]
        badf = [x.value for x in fills if not (isinstance(x.value, str) and x.value.lower() in ("#000000", "#000", "black"))]
        ck.ob(rid, enclosing_stmt(c), col is not None and not badf,
              f"the background an image is composited over must be the given colour or the terminal background with opaque black (`'#000000'`) as the fallback; found fill value(s) {badf} in `{short(col, 70) if col is not None else None}`"
              " - a numeric fill of an RGBA canvas is transparent, so nothing is blended", stmt="_get_render_data: composite background is a colour (opaque fallback)")
    # which sources skip alpha processing: exactly `alpha is None` or a mode without transparency (palette modes carry it in info, not in a band)
    top = next((s_ for s_ in grd.body if isinstance(s_, ast.If) and any(isinstance(c, ast.Call) and call_name(c) == "convert_resize_img" for x in s_.body for c in ast.walk(x))), None)
    ck.expect(top is not None, "_get_render_data: the opaque / alpha-processing decision not found")
    if top is not None:
        from tiv.sem import same_bool
        ck.ob(rid, top, same_bool(grd, top.test, "alpha is None or img.mode in {'1', 'L', 'RGB', 'HSV', 'CMYK'}", expand_b=False) or same_bool(grd, top.test, "alpha is None or img.mode in {'1', 'L', 'RGB', 'HSV', 'CMYK'}"),
              f"alpha processing may be skipped only for `alpha is None` or the modes that cannot carry transparency {{'1','L','RGB','HSV','CMYK'}}; found `{norm(top.test)[:110]}` - palette images keep "
              "their transparency in info['transparency'] (index 0 is a valid, falsy value)", stmt="_get_render_data: which sources skip alpha processing")
        # every conversion call sits on one side of that decision (inside the if/else, or after it when the opaque branch returns)
        sides = {}
        for c in body_walk(grd):
            if isinstance(c, ast.Call) and call_name(c) == "convert_resize_img" and c.args:
                side = next((b_ for t_, b_ in guards(c) if t_ is top.test), None)
                sides.setdefault(side, set()).add(norm(c.args[0]))
        ck.ob(rid, top, sides == {True: {"'RGB'"}, False: {"'RGBA'"}}, f"opaque sources are converted to RGB, the others to RGBA; found { {str(k): sorted(v) for k, v in sides.items()} }", stmt="_get_render_data: target modes")
    # the bi-level classification of alpha happens whenever pixel data with rounded alpha is requested (no shortcut on the threshold value)
    cls_st = [s_ for s_ in body_walk(grd) if isinstance(s_, ast.Assign) and isinstance(s_.value, ast.ListComp) and isinstance(s_.value.elt, ast.IfExp)]
    for s_ in cls_st:
        pos = set()
        for t_, b_ in guards(s_):
            if b_:
                for v_ in flatten_boolop(t_, ast.And):
                    pos.add(norm(v_))
        ck.ob(rid, s_, pos == {"pixel_data", "round_alpha"}, f"the alpha list is classified into 0/255 under {sorted(pos)}; it must be exactly when pixel data with rounded alpha is requested "
              "(the block renderer tests `== 0`: unclassified values below 255 would be drawn as opaque, zero as transparent whatever the threshold)", stmt="_get_render_data: alpha classified iff pixel_data and round_alpha")
    n_resize = 0
    for fn in fns:
        def owner(n):
            while n is not None and not isinstance(n, (ast.FunctionDef, ast.AsyncFunctionDef, ast.Lambda)):
                n = getattr(n, "_p", None)
            return n
        rs = [c for c in ast.walk(fn) if isinstance(c, ast.Call) and isinstance(c.func, ast.Attribute) and c.func.attr == "resize" and owner(c) is fn]
        if not rs:
            continue
        g = CFG(fn)
        conv_tests = [n for n in g.nodes if n.kind == "test" and n.ast is not None and ".mode" in norm(n.ast) and any(isinstance(x, ast.Compare) for x in ast.walk(n.ast))]
        for c in rs:
            n_resize += 1
            nodes = g.nodes_of(enclosing_stmt(c))
            p = g.search([g.entry], lambda n: n in nodes, avoid=lambda n: n in conv_tests, from_succ=False, edge_ok=lambda a, lab, d: not lab.startswith(("e:", "p:")))
            ck.ob(rid, enclosing_stmt(c), p is None and bool(conv_tests),
                  f"`{short(c, 50)}` can run before the image has been brought to the target mode ({fmt_path(p) if p else 'no mode test'}): PIL resamples palette/bilevel modes with NEAREST and "
                  "averages CMYK/HSV/premultiplied-alpha components, so the half-cell colours are no longer the BOX average of the converted pixels", stmt="pixel pipeline: convert to the target mode before resizing")
            # the image is resampled as a whole: the receiver is the pipeline's image itself, not one of its channels or another conversion of it
            # (colour planes resampled apart from alpha are averaged without alpha weighting: the hidden colour of transparent pixels bleeds in)
            rt_ = norm(trace(fn, c.func.value, use=c)) if isinstance(c.func.value, ast.Name) else norm(c.func.value)
            whole = isinstance(c.func.value, ast.Name) and not any(k_ in rt_ for k_ in ("getchannel(", ".split(", "Image.merge("))
            ck.ob(rid, enclosing_stmt(c), whole, f"`{short(c, 60)}` resamples `{short(c.func.value, 40)}`, not the converted image as a whole: BOX-averaging colour without its alpha (or a channel on its own) "
                  "is not the box average of the image's pixels", stmt="pixel pipeline: the image is resized as a whole")
            extra_kw = [k_.arg for k_ in c.keywords if k_.arg not in ("size", "resample")] + [norm(a_) for a_ in c.args[2:]]
            ck.ob(rid, enclosing_stmt(c), len(c.args) >= 2 and norm(c.args[0]) == "size" and norm(c.args[1]).endswith("BOX") and not extra_kw,
                  f"the image must be resized to exactly `size` with BOX resampling of the whole image in one step (no box=, reducing_gap=: a two-step reduction is not the box average); found `{short(c, 70)}`", stmt="pixel pipeline: resize(size, BOX)")
    ck.expect(n_resize >= 1, "_get_render_data: no resize step found")
    rule_resize_guard(ck, m, rid)


def run(ck, m):
    from rules.common import rule_memo_safety
    rule_memo_safety(ck, m, "MEMO", "C02")          # first: a memoised helper also hides the code it wraps from the rules below
    from rules.common import rule_stateless_renderers
    rule_stateless_renderers(ck, m, "MEMO")
    br = m.get(BL, "BlockImage._render_image")
    ub = m.get(BL, "BlockImage._render_image.update_buffer")
    # roles of the three cell glyphs (the names the rules are written with): the variables update_buffer multiplies by the run length, classified by what
    # the renderer binds them to (a blank, LOWER_PIXEL, UPPER_PIXEL - each possibly followed by the cell separator)
    from tiv.roles import rename_locals as _rl
    groles = {}
    for mul_ in [x for x in body_walk(ub) if isinstance(x, ast.BinOp) and isinstance(x.op, ast.Mult) and isinstance(x.left, ast.Name)]:
        nm_ = mul_.left.id
        if nm_ in ("blank", "lower_pixel", "upper_pixel") or nm_ in groles:
            continue
        vals_ = " ".join(norm(st_.value) for t_, st_ in stores_in(ast.Module(body=br.body, type_ignores=[])) if isinstance(t_, ast.Name) and t_.id == nm_ and getattr(st_, "value", None) is not None)
        vals_ += " " + norm(trace(br, ast.Name(id=nm_, ctx=ast.Load()), use=ub))
        if "LOWER_PIXEL" in vals_ and "UPPER_PIXEL" not in vals_:
            groles[nm_] = "lower_pixel"
        elif "UPPER_PIXEL" in vals_ and "LOWER_PIXEL" not in vals_:
            groles[nm_] = "upper_pixel"
        elif "' '" in vals_ or "' \\x00'" in vals_:
            groles[nm_] = "blank"
    if groles and len(set(groles.values())) == len(groles):
        ck.extra.setdefault("roles", {})["BlockImage._render_image"] = _rl(br, groles)
    # ---- R1 ----------------------------------------------------------------------------
    inner = None
    for n in body_walk(br):
        if isinstance(n, ast.For) and any(isinstance(x, ast.If) and any(isinstance(c, ast.Call) and call_name(c) == "update_buffer" for s in x.body for c in walk_local(s)) for x in n.body):
            inner = n
    ck.need(inner is not None, "block: inner pixel loop with the run-boundary `if` not found")
    bif = next(x for x in inner.body if isinstance(x, ast.If) and any(isinstance(c, ast.Call) and call_name(c) == "update_buffer" for s in x.body for c in walk_local(s)))
    test = bif.test
    # Decision over a finite abstract domain: alpha in {T, F}; the four alpha values in {0, 128, 255}; each pixel either equal to
    # its cluster colour or not. The (traced) predicate must agree everywhere with the specification
    #     flush  <=>  not (alpha and all four alphas are 0)  and  (colour change in either half  or  alpha and an alpha-class change in either half)
    tt = trace(br, test, keep=("alpha", "a1", "a2", "a_cluster1", "a_cluster2", "px1", "px2", "cluster1", "cluster2"))
    decided, witness = True, None
    try:
        import itertools
        for al_, a1, ac1, a2, ac2, p1, p2 in itertools.product((True, False), (0, 128, 255), (0, 128, 255), (0, 128, 255), (0, 128, 255), ("A", "B"), ("A", "B")):
            envv = {"alpha": al_, "a1": a1, "a_cluster1": ac1, "a2": a2, "a_cluster2": ac2, "px1": p1, "cluster1": "A", "px2": p2, "cluster2": "A"}
            got = bool(_ev(tt, envv))
            want_ = (not (al_ and a1 == ac1 == 0 == ac2 == a2)) and (p1 != "A" or p2 != "A" or (al_ and ((a1 == 0) != (ac1 == 0) or (a2 == 0) != (ac2 == 0))))
            if got != want_ and witness is None:
                witness = (envv, got, want_)
    except _EvUnk as e:
        decided = False
        ck.extra["r1_fallback"] = str(e)
    if decided:
        ck.ob("R1", bif, witness is None,
              "the run-boundary predicate differs from `not (alpha and both halves stay transparent) and (colour change in either half or, under alpha, a change of transparency class in either half)`"
              + (f": for {witness[0]} it gives {witness[1]}, expected {witness[2]} - that run is {'not ' if witness[2] else ''}flushed, so its cells are drawn with the {'previous' if witness[2] else 'same'} run's colours/transparency" if witness else ""),
              stmt="block: boundary predicate == specification on the abstract domain (648 valuations)")
    else:
        sym = canon(test) == canon(rename(test, SWAP))
        ck.ob("R1", bif, sym,
              "the run-boundary predicate is not symmetric between the upper and lower pixel row: some transition is tested for one half only (or with an operand of the other half), so a run is not "
              "flushed at that boundary and its cells are drawn with the previous run's colours/transparency", stmt="block: boundary predicate symmetric under upper<->lower")
        # structure: not (alpha and ALLZERO) and (D1 or D2 or alpha and (T1 or T2 or T3 or T4))
        parts = flatten_boolop(test, ast.And)
        ex = next((p for p in parts if isinstance(p, ast.UnaryOp) and isinstance(p.op, ast.Not)), None)
        disj = next((p for p in parts if isinstance(p, ast.BoolOp) and isinstance(p.op, ast.Or)), None)
        ck.expect(len(parts) == 2 and ex is not None and disj is not None, "block: boundary predicate shape `not (...) and (... or ...)` not recognised")
        if ex is not None and disj is not None:
            exc = flatten_boolop(ex.operand, ast.And)
            allzero = frozenset({("alleq", frozenset({"a1", "a_cluster1", "0", "a_cluster2", "a2"}))})
            ck.ob("R1", bif, any(norm(c) == "alpha" for c in exc) and any(rels(c) == allzero for c in exc) and len(exc) == 2,
                  "the exemption must be exactly `alpha and all four alpha values are 0` (colour changes inside a run that stays fully transparent need no flush)", stmt="block: exemption = both halves stay transparent")
            ds = flatten_boolop(disj, ast.Or)
            colour = {rels(d) for d in ds if isinstance(d, ast.Compare)}
            want_colour = {frozenset({("ne", frozenset({"px1", "cluster1"}))}), frozenset({("ne", frozenset({"px2", "cluster2"}))})}
            ck.ob("R1", bif, colour == want_colour, f"a colour change of either half must end the run: expected px1 != cluster1 and px2 != cluster2; found {sorted(norm(d) for d in ds if isinstance(d, ast.Compare))}", stmt="block: colour-change test for each half")
            ab = next((d for d in ds if isinstance(d, ast.BoolOp) and isinstance(d.op, ast.And)), None)
            trans = set()
            if ab is not None:
                av = flatten_boolop(ab, ast.And)
                inner_or = next((v for v in av if isinstance(v, ast.BoolOp) and isinstance(v.op, ast.Or)), None)
                if inner_or is not None and any(norm(v) == "alpha" for v in av):
                    trans = {rels(t) for t in flatten_boolop(inner_or, ast.Or)}
            want = set()
            for h in ("1", "2"):
                want.add(frozenset({("ne", frozenset({f"a_cluster{h}", f"a{h}"})), ("eq", frozenset({f"a{h}", "0"}))}))   # opaque -> transparent
                want.add(frozenset({("eq", frozenset({"0", f"a_cluster{h}"})), ("ne", frozenset({f"a_cluster{h}", f"a{h}"}))}))   # transparent -> opaque
            ck.ob("R1", bif, trans == want,
                  f"under alpha both directions of an alpha-class change must end the run, for each half (4 tests); missing {len(want - trans)}, unexpected {len(trans - want)}: "
                  f"{sorted(sorted(str(x) for x in t) for t in (trans - want))}", stmt="block: 4 alpha-transition tests (2 directions x 2 halves)")

    # ---- R2 ----------------------------------------------------------------------------
    nvs = {norm(b_["n"]) for _, b_ in find_exprs("blank * $$n", body_walk(ub))}
    ck.expect(len(nvs) == 1, f"update_buffer: the run-length variable (`blank * <n>`) not recognised: {sorted(nvs)}")
    NV = next(iter(nvs)) if len(nvs) == 1 else "n"
    assigned_in_ub = {norm(t) for t, _ in stores_in(ast.Module(body=ub.body, type_ignores=[])) if isinstance(t, ast.Name)}
    read_by_ub = {n.id for n in body_walk(ub) if isinstance(n, ast.Name) and isinstance(n.ctx, ast.Load)} - assigned_in_ub
    outer = inner._p if isinstance(inner._p, ast.For) else None
    ck.need(outer is not None, "block: outer line loop not found")
    loop_assigned = {norm(t) for t, _ in stores_in(outer) if isinstance(t, ast.Name)}
    carried = sorted(read_by_ub & loop_assigned)
    ck.expect(carried == sorted(["a_cluster1", "a_cluster2", "cluster1", "cluster2", NV]), f"block: loop-carried state read by update_buffer recognised as {carried}")
    carried = [v for v in carried if v in ("a_cluster1", "a_cluster2", "cluster1", "cluster2", NV)]
    call_i = next(i for i, s in enumerate(bif.body) if isinstance(s, ast.Expr) and isinstance(s.value, ast.Call) and call_name(s.value) == "update_buffer")
    after = bif.body[call_i + 1:]
    upd = {}
    for s in after:
        for t, st in stores_in(s):
            if isinstance(t, ast.Name):
                upd[t.id] = (st, [norm(g) for g, b in guards(st) if b and g is not bif.test])
    src = {"cluster1": "px1", "cluster2": "px2", "a_cluster1": "a1", "a_cluster2": "a2", NV: "0"}
    n_inc = [s_ for s_ in inner.body if match_stmt(f"{NV} += 1", s_) is not None]
    n_inc_else = [s_ for s_ in bif.orelse if match_stmt(f"{NV} += 1", s_) is not None]
    for v in carried:
        ok = v in upd and norm(upd[v][0].value) == src[v]
        if v == NV and v in upd and norm(upd[v][0].value) == "1" and n_inc_else and not n_inc:
            ok = True      # `n = 1` in the flush branch with `n += 1` in the other: the same count
        if ok and v.startswith("a_"):
            ok = "alpha" in upd[v][1]
        ck.ob("R2", bif, ok, f"after a flush `{v}` must restart from the current pixel (`{v} = {src[v]}`" + (" under `if alpha`" if v.startswith("a_") else "") + "): otherwise the next run is emitted with the previous run's value",
              stmt=f"block: {v} updated after flush")
    ck.ob("R2", inner, (bool(n_inc) and inner.body.index(bif) < inner.body.index(n_inc[0])) or (bool(n_inc_else) and NV in upd and norm(upd[NV][0].value) == "1"),
          "the run length must be incremented for every pixel pair, after a possible flush", stmt="block: n += 1 per pixel pair")
    idx = outer.body.index(inner)
    rest = outer.body[idx + 1:]
    ck.ob("R2", outer, bool(rest) and isinstance(rest[0], ast.Expr) and norm(rest[0]) == "update_buffer()", "the last run of every line must be flushed right after the pixel loop", stmt="block: update_buffer() after the pixel loop")
    ck.ob("R2", outer, any(match_stmt(f"{NV} = 0", s) is not None for s in outer.body[:idx]), "the run length must restart at every line", stmt="block: n = 0 per line")
    eol = [s for s in rest if isinstance(s, ast.If) and any("end_of_line" in norm(x) for x in s.body)]
    ck.ob("R2", outer, len(eol) == 1 and rest.index(eol[0]) > 0, "the line terminator is written after the last run was flushed", stmt="block: terminator after the final flush")

    # ---- R3 ----------------------------------------------------------------------------
    # The emission of update_buffer as a truth table (tiv.emit): one output shape per case of (alpha, upper transparent, lower
    # transparent, halves equal). The expected table is symmetric under upper<->lower by construction.
    from tiv import emit
    term = emit.Builder(ub).block(ub.body, {"buf_write"})
    cs = emit.cases(term, {}, limit=6)
    ck.expect(cs is not None, "update_buffer: too many free conditions in the output shape")
    A, T1, T2, EQ = "alpha", "a_cluster1 == 0", "a_cluster2 == 0", "cluster1 == cluster2"
    BG = "BG"
    n_cases = 0
    for f, t in cs or []:
        # the kitty work-around's own condition may split cases: it only selects the background argument (checked by _check_bg)
        extra = {k_ for k_ in set(f) - {A, T1, T2, EQ} if not {norm(x_) for x_ in emit.atoms_of_cond(ast.parse(k_, mode="eval").body)} <= {"is_on_kitty", "cluster1 == bg_color", "cluster2 == bg_color"}}
        ck.expect(A in f, "update_buffer: `alpha` is not a condition of the output shape")
        if A not in f:
            continue
        if extra and not getattr(ck, "strict_self_contained", False):
            # for C02 alone an emission that depends on more state (e.g. "skip the colour sequence if unchanged") is not decided here
            ck.expect(False, f"update_buffer: unexpected conditions in the output shape: {sorted(extra)}")
            continue
        # further conditions (e.g. "only if the colour changed") are enumerated like the others: the table must hold in each of their cases -
        # every run is emitted self-contained (the urwid canvas cuts lines at run boundaries and re-uses a run leader's colour sequences)
        n_cases += 1
        got = repr(t)
        for a_ in emit.atoms(t):
            if isinstance(a_, emit.Fmt) and a_.tmpl == "SGR_BG_DIRECT":
                got = got.replace(repr(a_), "BG")
                _check_bg(ck, ub, a_.args, f)
        al_, t1, t2, eq = f.get(A), f.get(T1), f.get(T2), f.get(EQ)
        tag = f"alpha={al_}, upper transparent={t1}, lower transparent={t2}, halves equal={eq}" + ("".join(f", {k[:40]}={v}" for k, v in sorted(f.items()) if k in extra))
        if al_ and t1 and t2:
            want, why = r"<SGR_DEFAULT> \(<blank>\)\{NVX\}", "both halves transparent: default attributes and blanks"
        elif al_ and t1:
            want, why = r"<SGR_DEFAULT> SGR_FG_DIRECT\(cluster2\) \(<lower_pixel>\)\{NVX\}", "upper half transparent: default background, the lower colour as foreground of the lower-half glyph"
        elif al_ and t2:
            want, why = r"<SGR_DEFAULT> SGR_FG_DIRECT\(cluster1\) \(<upper_pixel>\)\{NVX\}", "lower half transparent: default background, the upper colour as foreground of the upper-half glyph"
        elif eq:
            want, why = BG + r" \(<blank>\)\{NVX\}", "opaque, equal halves: the lower colour as background and blanks"
        elif eq is False:
            want, why = BG + r" SGR_FG_DIRECT\(cluster1\) \(<upper_pixel>\)\{NVX\}", "opaque: the lower colour as background, the upper colour as foreground of the upper-half glyph"
        else:
            ck.expect(False, f"update_buffer: case not determined [{tag}]")
            continue
        want = want.replace("NVX", re.escape(NV))
        ck.ob("R3", ub, re.fullmatch(want, got) is not None, f"update_buffer [{tag}]: {why}; emitted `{got}`", stmt=f"update_buffer: emission [{tag}]")
    ck.expect(n_cases >= 12, f"update_buffer: expected >= 12 cases, found {n_cases}")
    # ---- R4 ----------------------------------------------------------------------------
    gd = next((c for c in body_walk(br) if isinstance(c, ast.Call) and (call_name(c) or "").endswith("_get_render_data")), None)
    ck.ob("R4", enclosing_stmt(gd) if gd else br, gd is not None and norm(kw(gd, "round_alpha")) == "True" and norm(kw(gd, "frame")) == "frame", "the block renderer must request bi-level alpha (round_alpha=True)", stmt="block: _get_render_data(..., round_alpha=True)")
    am = find_stmts("alpha = img.mode == 'RGBA'", body_walk(br))
    ck.ob("R4", br, len(am) == 1 and gd is not None and am[0][0].lineno > gd.lineno, "transparency handling must follow the mode of the returned image (alpha = img.mode == 'RGBA')", stmt="block: alpha from the returned mode")
    grd = m.get(CM, "BaseImage._get_render_data")
    cls = [n for n in body_walk(grd) if isinstance(n, ast.ListComp) and isinstance(n.elt, ast.IfExp)]
    okc = False
    if len(cls) == 1:
        v_ = norm(cls[0].generators[0].target)
        b_ = match_expr(f"0 if {v_} < $t else 255", cls[0].elt) or match_expr(f"255 if {v_} >= $t else 0", cls[0].elt) or match_expr(f"255 if not {v_} < $t else 0", cls[0].elt)
        okc = b_ is not None and norm(trace(grd, b_["t"])) in ("round(alpha__0 * 255)", "round(alpha * 255)")
    rnd = [1]
    ck.ob("R4", cls[0] if cls else grd, len(rnd) == 1 and okc, "pixels strictly below the (0..255) threshold are transparent, at or above it opaque: `0 if val < alpha else 255` with alpha = round(alpha * 255)", stmt="_get_render_data: strict < threshold classification")
    # compositing sites: `<X>.alpha_composite(img)` where X was created as a new RGBA image of img's size (any local name)
    comp = [c for c in body_walk(grd) if isinstance(c, ast.Call) and isinstance(c.func, ast.Attribute) and c.func.attr == "alpha_composite" and isinstance(c.func.value, ast.Name)
            and [norm(a_) for a_ in c.args] == ["img"] and norm(trace(grd, c.func.value, use=c)).startswith("Image.new('RGBA', img.size")]
    ck.expect(len(comp) == 2, f"_get_render_data: the two compositing sites not found ({len(comp)})")
    for c in comp:
        gs = set()
        for t, b in guards(c):
            for v in (flatten_boolop(t, ast.And) if b else [t]):
                gs.add(("" if b else "not ") + norm(v))
        data_dep = [g for g in gs if any(x in g for x in ("min(", "max(", "any(", "all(", "sum(", " a ", "(a)", "rgb", "getdata", "getextrema"))]
        ck.ob("R4", enclosing_stmt(c), not data_dep, f"compositing over the background is skipped under a data-dependent condition {data_dep}: partially transparent pixels at or above the threshold would then show their raw colour instead of the blend",
              stmt=f"_get_render_data: compositing under state-only conditions ({'str alpha' if any('isinstance(alpha, str)' in g and not g.startswith('not') for g in gs) else 'threshold'})")
    thr = next((c for c in comp if any(norm(t) == "round_alpha" and b for t, b in guards(c))), None)
    def _keeps_alpha(thr_):
        want_ = norm(trace(grd, thr_.func.value, use=thr_))
        for s_ in enclosing_stmt(thr_)._p.body:
            for c_ in ast.walk(s_):
                if isinstance(c_, ast.Call) and isinstance(c_.func, ast.Attribute) and c_.func.attr == "putalpha" and [norm(a_) for a_ in c_.args] == ["img.getchannel('A')"] \
                        and (norm(c_.func.value) == norm(thr_.func.value) or norm(trace(grd, c_.func.value, use=c_)) == want_):          # (the canvas, under any alias)
                    return True
        return False
    ck.ob("R4", grd, thr is not None and _keeps_alpha(thr),
          "thresholded transparency composites over the terminal background and keeps the alpha channel", stmt="_get_render_data: threshold branch composites and keeps alpha")

    rule_pixel_pipeline(ck, m, "R4")
    # ---- shared with C19.R2: the transparency field of a format specifier reaches the renderer as what it denotes
    from tiv.report import borrow
    import rules.c19 as c19
    borrow(ck, c19, m, "R4", lambda c: c.endswith("BaseImage._check_format_spec"), rids={"R2"}, min_kept=5)


MUTANTS = [
    M("resize-guard-original-size", CM, "BaseImage._get_render_data", "            if img.size != size:\n", "            if size != self._original_size:\n", {"R4"}),
    M("seek-shortcut", CM, "BaseImage._get_render_data", "        if self._is_animated:\n            img.seek(self._seek_position)\n", "        if self._is_animated and (frame or self._seek_position):\n            img.seek(self._seek_position)\n", {"R4"}),
    M("memo-canvas", CM, "BaseImage._get_render_data", "                bg = Image.new(\"RGBA\", img.size, alpha)\n",
      "                @lru_cache(maxsize=8)\n                def _bg_canvas(size_, color_):\n                    return Image.new(\"RGBA\", size_, color_)\n\n                bg = _bg_canvas(img.size, alpha)\n", {"MEMO"}),
    M("drop-disjunct", BL, "BlockImage._render_image", "                        or 0 == a_cluster2 != a2\n", "", {"R1"}),
    M("operand-slip", BL, "BlockImage._render_image", "or 0 == a_cluster2 != a2", "or 0 == a_cluster1 != a2", {"R1"}),
    M("sibling-copy", BL, "BlockImage._render_image", "or a_cluster2 != a2 == 0", "or a_cluster1 != a1 == 0", {"R1"}),
    M("drop-a-cluster2", BL, "BlockImage._render_image", "                        a_cluster1 = a1\n                        a_cluster2 = a2\n", "                        a_cluster1 = a1\n", {"R2"}),
    M("drop-trailing-flush", BL, "BlockImage._render_image", "            update_buffer()  # Rest of the line\n", "", {"R2"}),
    M("swap-glyph", BL, "BlockImage._render_image", "                    buf_write(SGR_FG_DIRECT % cluster2)\n                    buf_write(lower_pixel * n)", "                    buf_write(SGR_FG_DIRECT % cluster2)\n                    buf_write(upper_pixel * n)", {"R3"}),
    M("kitty-wrong-cluster", BL, "BlockImage._render_image", "if is_on_kitty and cluster2 == bg_color:", "if is_on_kitty and cluster1 == bg_color:", {"R3"}),
    M("threshold-le", CM, "BaseImage._get_render_data", "a = [0 if val < alpha else 255 for val in a]", "a = [0 if val <= alpha else 255 for val in a]", {"R4"}),
    M("composite-shortcut", CM, "BaseImage._get_render_data", "                if round_alpha:\n                    bg = Image.new(", "                if round_alpha and not (pixel_data and min(a) == 255):\n                    bg = Image.new(", {"R4"}),
    M("no-round-alpha", BL, "BlockImage._render_image", "round_alpha=True, ", "", {"R4"}),
    M("edit-source-info", CM, "BaseImage._get_render_data", '            convert_resize_img("RGB")\n            if pixel_data:\n                rgb = list(img.getdata())', '            img.info.pop("transparency", None)\n            convert_resize_img("RGB")\n            if pixel_data:\n                rgb = list(img.getdata())', {"R4"}),
    M("numeric-fallback-fill", CM, "BaseImage._get_render_data", '                    alpha = get_fg_bg_colors(hex=True)[1] or "#000000"\n', '                    alpha = get_fg_bg_colors(hex=True)[1] or 0\n', {"R4"}),
    M("numeric-fill-round-alpha", CM, "BaseImage._get_render_data", '"RGBA", img.size, get_fg_bg_colors(hex=True)[1] or "#000000"\n', '"RGBA", img.size, get_fg_bg_colors(hex=True)[1] or (0, 0, 0, 0)\n', {"R4"}),
    M("draft-the-source", CM, "BaseImage._get_render_data", "        if not size:\n            size = self._get_render_size()\n", "        if not size:\n            size = self._get_render_size()\n        img.draft(None, size)\n", {"R4"}),
    M("two-step-reduction", CM, "BaseImage._get_render_data", "img = img.resize(size, Image.Resampling.BOX)", "img = img.resize(size, Image.Resampling.BOX, reducing_gap=2.0)", {"R4"}),
    M("resize-planes-apart", CM, "BaseImage._get_render_data", "img = img.resize(size, Image.Resampling.BOX)", "img = img.convert(\"RGB\").resize(size, Image.Resampling.BOX)", {"R4"}),
    M("twin-reorder-disjuncts", BL, "BlockImage._render_image", "                    px1 != cluster1\n                    or px2 != cluster2\n", "                    px2 != cluster2\n                    or px1 != cluster1\n", twin=True),
]
