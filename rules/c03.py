"""C03 - graphics renders transmit exactly the image, in well-formed protocol framing: structural clauses
(DESIGN.md 4, C03). Equality of the decoded payload with the image's pixels is runtime data - not decided."""
from __future__ import annotations

import ast
import re

from tiv.astutil import conds, body_walk, call_name, dotted, enclosing_stmt, flatten_boolop, guards, kw, norm, short, stores_in, walk_local, with_context
from tiv.match import b2s, find_exprs, find_stmts, match_expr, match_stmt
from tiv.affine import NotPoly, equal, parse
from tiv.mutate import M
from tiv.constfold import Folder
from tiv.sem import trace, expand, same

RULES = {
    "MEMO": "memo safety (shared, rules/common.py): a memoised function in this property's files (or called from them) is a function of its "
            "arguments only (no terminal/ambient/receiver state outside the key) and no caller mutates its result in place; renderers keep no state: _render_image, _get_render_data, _format_render and the size helpers store to no attribute of the instance or class",
    "R1": "chunk protocol (Transmission.get_chunks): the default chunk size is an int literal <= 4096 and a multiple of 4 and no call site "
          "overrides it; the generator uses one-chunk look-ahead: the first yield carries the control data and m=bool(<look-ahead>), every yield inside "
          "`while <look-ahead>` carries the literal m=1, the yield after the loop carries m=0 and is guarded by the pending chunk; every yield is a "
          "KITTY_TRANSMISSION; decided by exploring the finite abstract state space of the generator (tiv.protocol) for any loop shape, idiom rules as fallback; a loop over get_chunks() writes the chunk and nothing else",
    "R2": "mode/format table: every PIL mode _get_render_data can return ({RGB, RGBA}) is an attribute of kitty's class `f` with value "
          "8*len(mode); kitty computes bytes per pixel as format // 8, iterm2 as len(img.mode)",
    "R3": "control-key provenance: s<-pixel width, v<-pixel height (WHOLE) or height // r_height (LINES), c<-rendered width, r<-rendered height "
          "(WHOLE) or 1 (LINES), z<-z_index, f<-getattr(f, img.mode); strip length = width * cell_height * bytes-per-pixel; class defaults a=T, t=d, "
          "C=1; iterm2 width=/height= keys from rendered width/height (height=1 for LINES) and size= from the encoded buffer",
    "R4": "buffer typestate: where a length is advertised (size=): WHOLE/ANIM seek(0,2) -> tell() -> seek(0) -> read(); LINES (one buffer "
          "reused per strip) seek(0) -> save() -> truncate() -> tell()/getvalue()",
    "R5": "read-from-file gate: the branch that transmits the source file untouched opens it 'rb', is taken only under the documented "
          "conjunction (read_from_file, not animated, readable, WHOLE, original <= render size, mode/alpha condition) and sets frame_img = None",
    "R6": "compression flag in sync on a ControlData that is shared by all strips: in Transmission.compress the payload store, control.o = ZLIB and "
          "_compressed = True sit under one guard made only of {control.t == DIRECT, not _compressed, level}; __post_init__ resets o to None when "
          "not compressing; nobody passes t=/o= to ControlData",
}
KT, IT, CM = "image/kitty.py", "image/iterm2.py", "image/common.py"


def _yields(fn):
    return [n for n in body_walk(fn) if isinstance(n, ast.Yield)]


def _mflag(y, fn=None):
    """(('const', '0'/'1') | ('bool', name, has_control_data) | ('other', text), payload) for a yielded KITTY_TRANSMISSION % (ctrl, chunk).
    The control string is read through its symbolic shape (tiv.emit), so f-strings, concatenations and named locals are the same."""
    import re as _re
    from tiv import emit
    v = y.value
    if not (isinstance(v, ast.BinOp) and isinstance(v.op, ast.Mod) and (dotted(v.left) or "").split(".")[-1] == "KITTY_TRANSMISSION" and isinstance(v.right, ast.Tuple) and len(v.right.elts) == 2):
        return None, None
    ctrl, chunk = v.right.elts
    if fn is None:
        fn = y
        while fn is not None and not isinstance(fn, ast.FunctionDef):
            fn = getattr(fn, "_p", None)
    term = emit.Builder(fn).expr(ctrl)
    items = term.items if isinstance(term, emit.Seq) else [term]
    has_ctrl = any(isinstance(i, emit.Sym) and "get_control_data()" in i.text for i in items)
    txt = repr(term)
    for k, it in enumerate(items):
        if isinstance(it, emit.Lit) and _re.search(r"m=[01]$", it.text) and k == len(items) - 1:
            return (("const", it.text[-1]) if not has_ctrl and it.text in ("m=0", "m=1") else ("other", txt)), norm(chunk)
        if isinstance(it, emit.Lit) and it.text.endswith("m=") and k + 1 < len(items):
            nx = items[k + 1]
            if isinstance(nx, emit.Sym):
                mo = _re.fullmatch(r"\{?(?:int\()?bool\((\w+)\)\)?(:d)?\}?", nx.text)
                if mo and k + 2 == len(items):
                    return ("bool", mo.group(1), has_ctrl), norm(chunk)
            if isinstance(nx, emit.Alt) and isinstance(nx.cond, ast.Name) and repr(nx.a) == "'1'" and repr(nx.b) == "'0'" and k + 2 == len(items):
                return ("bool", nx.cond.id, has_ctrl), norm(chunk)
    return ("other", txt), norm(chunk)


def run(ck, m):
    from rules.common import rule_memo_safety
    rule_memo_safety(ck, m, "MEMO", "C03")          # first: a memoised helper also hides the code it wraps from the rules below
    from rules.common import rule_stateless_renderers
    rule_stateless_renderers(ck, m, "MEMO")
    rule_chunk_protocol(ck, m, "R1")

    # ---- R2 ----------------------------------------------------------------------------
    grd = m.get(CM, "BaseImage._get_render_data")
    modes = set()
    for c in ast.walk(grd):
        if isinstance(c, ast.Call) and call_name(c) == "convert_resize_img" and c.args and isinstance(c.args[0], ast.Constant):
            modes.add(c.args[0].value)
        if isinstance(c, ast.Call) and isinstance(c.func, ast.Attribute) and c.func.attr == "convert" and c.args and isinstance(c.args[0], ast.Constant):
            modes.add(c.args[0].value)
        if isinstance(c, ast.Call) and norm(c.func) == "Image.new" and c.args and isinstance(c.args[0], ast.Constant):
            modes.add(c.args[0].value)
    modes.discard("mode")
    ck.expect(modes == {"RGB", "RGBA"}, f"_get_render_data: returned modes recognised as {sorted(modes)}, expected RGB/RGBA")
    fcls = m.get(KT, "f")
    ftab = {norm(s.targets[0]): s.value.value for s in fcls.body if isinstance(s, ast.Assign) and isinstance(s.value, ast.Constant)}
    for md in sorted(modes):
        ck.ob("R2", fcls, ftab.get(md) == 8 * len(md), f"image mode {md!r} can reach the kitty renderer but `f.{md}` is {ftab.get(md)} (must be {8 * len(md)} bits per pixel)", stmt=f"f.{md} == {8 * len(md)}")
    kr = m.get(KT, "KittyImage._render_image")
    ir = m.get(IT, "ITerm2Image._render_image")
    # (the data format must be getattr(f, <converted image>.mode): checked with the control keys in R3)

    # ---- R3 ----------------------------------------------------------------------------
    # Everything is compared on *traced* expressions (tiv.sem.trace: locals replaced by where their value comes from), so the
    # rule does not depend on local names, helper locals or statement grouping.
    def T(e):
        return trace(kr, e)

    RS0, RS1 = "self.rendered_size[0]", "self.rendered_size[1]"
    gd = next((c for c in body_walk(kr) if isinstance(c, ast.Call) and (call_name(c) or "").endswith("_get_render_data")), None)
    ck.need(gd is not None, "kitty renderer: _get_render_data(...) call not found")
    size_t = T(kw(gd, "size")) if kw(gd, "size") is not None else None
    P = None
    if size_t is not None:
        b_ = match_expr("($P[0], $P[1])", size_t)
        P = b_["P"] if b_ is not None else size_t
    okP = P is not None and match_expr("self._get_minimal_render_size() if (method or self._render_method).lower() == WHOLE else self._get_render_size()", P) is not None
    ck.ob("R3", enclosing_stmt(gd), okP and norm(kw(gd, "pixel_data")) == "False" and norm(kw(gd, "frame")) == "frame",
          f"the image must be converted at exactly the transmitted pixel size: minimal render size for WHOLE, full render size otherwise; found size=`{norm(size_t) if size_t is not None else None}`",
          stmt="kitty: _get_render_data(size=<pixel size>), pixel size source")
    if okP:
        Pn = norm(P)
        P0, P1 = f"({Pn})[0]", f"({Pn})[1]"
        IMG = norm(T(ast.Subscript(value=gd, slice=ast.Constant(value=0), ctx=ast.Load())))
        FMT = f"getattr(f, {IMG}.mode)"

        def eq(e, want):
            try:
                return equal(T(e), parse(want))
            except NotPoly:
                return norm(T(e)) == norm(parse(want))
        cd = next((c for c in body_walk(kr) if isinstance(c, ast.Call) and call_name(c) == "ControlData"), None)
        ck.need(cd is not None, "kitty renderer: ControlData(...) not found")
        kws = {k.arg: k.value for k in cd.keywords}
        okc = set(kws) == {"f", "s", "c", "z"} and eq(kws["f"], FMT) and eq(kws["s"], P0) and eq(kws["c"], RS0) and norm(kws["z"]) == "z_index"
        ck.ob("R3", enclosing_stmt(cd), okc, f"control keys must be f<-getattr(f, img.mode), s<-pixel width, c<-rendered width, z<-z_index; found { {k: norm(T(v)) [:60] for k, v in kws.items()} }", stmt="kitty: ControlData(f, s, c, z)")
        cdv = next((norm(t) for t, st in m.stores(kr) if isinstance(st, ast.Assign) and st.value is cd), "control_data")
        # later key settings: vars(cd).update(k=v) or cd.k = v, grouped by the LINES / not-LINES context
        sets = {"lines": {}, "whole": {}}
        lines_key = "(method or self._render_method).lower() == LINES"

        def ctx_of(n):
            from tiv.emit import facts_from_guards
            f_ = facts_from_guards(kr, n)
            return "lines" if f_.get(lines_key) is True else "whole" if f_.get(lines_key) is False else None
        for n in body_walk(kr):
            if isinstance(n, ast.Call) and norm(n.func) == f"vars({cdv}).update":
                for k in n.keywords:
                    sets.setdefault(ctx_of(n), {})[k.arg] = k.value
            if isinstance(n, ast.Assign) and len(n.targets) == 1 and isinstance(n.targets[0], ast.Attribute) and norm(n.targets[0].value) == cdv:
                sets.setdefault(ctx_of(n), {})[n.targets[0].attr] = n.value
        ck.expect(None not in sets and set(sets["lines"]) == {"v", "r"} and set(sets["whole"]) == {"v", "r"}, f"kitty renderer: v/r control keys per render method not recognised ({ {k: sorted(v) for k, v in sets.items()} })")
        if None not in sets and set(sets["lines"]) == {"v", "r"} and set(sets["whole"]) == {"v", "r"}:
            L, Wh = sets["lines"], sets["whole"]
            ck.ob("R3", enclosing_stmt(L["v"]), eq(L["v"], f"{P1} // {RS1}") and eq(L["r"], "1"), f"LINES: each strip is v = height // r_height pixels high and r = 1 row; found v={norm(T(L['v']))[:80]}, r={norm(T(L['r']))}", stmt="kitty LINES: v=cell_height, r=1")
            ck.ob("R3", enclosing_stmt(Wh["v"]), eq(Wh["v"], P1) and eq(Wh["r"], RS1), f"WHOLE: v<-pixel height, r<-rendered height; found v={norm(T(Wh['v']))[:80]}, r={norm(T(Wh['r']))}", stmt="kitty WHOLE: v=height, r=r_height")
        trs = [c for c in body_walk(kr) if isinstance(c, ast.Call) and call_name(c) == "Transmission"]
        ck.expect(len(trs) >= 2, f"kitty renderer: expected >= 2 Transmission(...) constructions, found {len(trs)}")
        for c in trs:
            ck.expect(len(c.args) >= 2, "kitty renderer: Transmission(...) without a positional payload")
            if len(c.args) < 2:
                continue
            pay = T(c.args[1])
            if ctx_of(c) == "lines":
                b_ = match_expr("io.BytesIO($raw).read($n)", pay)
                okp = b_ is not None and norm(b_["raw"]) == f"{IMG}.tobytes()"
                try:
                    okn = b_ is not None and equal(b_["n"], parse(f"{P0} * ({P1} // {RS1}) * ({FMT} // 8)"))
                except NotPoly:
                    okn = False
                ck.ob("R3", enclosing_stmt(c), okp and okn, "LINES: every strip's payload must be the next width * cell_height * (format // 8) bytes of the converted image's raw data; "
                      f"found `{norm(pay)[:140]}`", stmt="kitty LINES: strips read bytes_per_line of img.tobytes()")
            else:
                ck.ob("R3", enclosing_stmt(c), norm(pay) == f"{IMG}.tobytes()", f"WHOLE: the payload must be the converted image's raw data; found `{norm(pay)[:120]}`", stmt="kitty WHOLE: payload = img.tobytes()")
    cdc = m.get(KT, "ControlData")
    dfl = {s.target.id: norm(s.value) for s in cdc.body if isinstance(s, ast.AnnAssign) and s.value is not None}
    ck.ob("R3", cdc, dfl.get("a") == "a.TRANS_DISP" and dfl.get("t") == "t.DIRECT" and dfl.get("C") == "C.STAY", f"ControlData defaults must be a=T (transmit+display), t=d (direct), C=1 (cursor stays); found a={dfl.get('a')}, t={dfl.get('t')}, C={dfl.get('C')}", stmt="ControlData defaults")
    consts = {}
    for cn in ("a", "t", "C", "o"):
        c = m.get(KT, cn)
        for s in c.body:
            if isinstance(s, ast.Assign) and isinstance(s.value, ast.Constant):
                consts[f"{cn}.{norm(s.targets[0])}"] = s.value.value
    ck.ob("R3", cdc, consts.get("a.TRANS_DISP") == "T" and consts.get("t.DIRECT") == "d" and consts.get("C.STAY") == 1 and consts.get("o.ZLIB") == "z", "protocol constants a.TRANS_DISP='T', t.DIRECT='d', C.STAY=1, o.ZLIB='z'", stmt="kitty protocol constants")
    gcd = m.get(KT, "Transmission.get_control_data")
    ck.ob("R3", gcd, "f'{key}={value}'" in norm(gcd) and "asdict(self.control).items()" in norm(gcd) and ("if value is not None" in norm(gcd) or "if not value is None" in norm(gcd)), "control data must list key=value for every non-None key", stmt="get_control_data: key=value for non-None keys")
    # iterm2 keys: read off the symbolic output shape (tiv.emit) - the text between ITERM2_START and the ':' that ends the arguments
    from tiv import emit
    ienv = Folder(m.tree("_ctlseqs.py")).env
    n_ctl = 0

    def control_strings(term):
        """[text] of every `START key=value;...:` argument list in the term, Sym atoms written as <source>."""
        out = []

        def go(n):
            if isinstance(n, emit.Seq):
                i = 0
                while i < len(n.items):
                    it = n.items[i]
                    if getattr(it, "name", None) == "ITERM2_START" and it.text.endswith("File="):
                        txt, j, closed = "", i + 1, False
                        while j < len(n.items) and not closed:
                            x = n.items[j]
                            if isinstance(x, emit.Lit):
                                txt += x.text
                                closed = x.text.endswith(":")
                            elif isinstance(x, emit.Sym):
                                txt += f"<{x.text}>"
                            else:
                                txt += "<?>"
                            j += 1
                        nxt = n.items[j] if j < len(n.items) else None
                        out.append((txt, closed, nxt.text if isinstance(nxt, emit.Sym) else None))
                        i = j
                        continue
                    go(it)
                    i += 1
            elif isinstance(n, emit.Rep):
                go(n.body)
            elif isinstance(n, emit.Alt):
                go(n.a)
                go(n.b)
        go(term)
        return out
    for ret, facts, term in emit.summaries(ir, ienv):
        cs = emit.cases(term, facts, limit=9)
        ck.expect(cs is not None, "iterm2 renderer: too many free conditions in an output shape")
        for f, t in cs or []:
            lines = any("LINES" in k and v for k, v in f.items())
            for txt, closed, payload in control_strings(t):
                n_ctl += 1
                ck.expect(closed and "<?>" not in txt, f"iterm2 renderer: image arguments not in a recognised form: `{txt[:100]}`")
                if not closed or "<?>" in txt:
                    continue
                kv = dict(p.split("=", 1) for p in txt.rstrip(":").split(";") if "=" in p)
                want_h = "1" if lines else "<self.rendered_size[1]>"
                ck.ob("R3", ret, kv.get("width") == "<self.rendered_size[0]>" and kv.get("height") == want_h and kv.get("preserveAspectRatio") == "0" and kv.get("inline") == "1",
                      f"iterm2 control data must carry width=<rendered width>, {'height=1 (one row per strip)' if lines else 'height=<rendered height>'}, preserveAspectRatio=0, inline=1; found `{txt[:120]}`",
                      stmt=f"iterm2 {'LINES' if lines else 'WHOLE/ANIM'}: width/height keys")
                mo = re.fullmatch(r"<(.*)\.tell\(\)>", kv.get("size") or "", re.S)
                oksz = mo is not None and payload in (f"standard_b64encode({mo.group(1)}.read()).decode()", f"standard_b64encode({mo.group(1)}.getvalue()).decode()")
                ck.ob("R3", ret, oksz, f"size= must be the length (<buffer>.tell()) of the very buffer whose content is sent as the payload; found size=`{(kv.get('size') or '')[:80]}`, payload `{(payload or '')[:80]}`",
                      stmt="iterm2: size={<buffer>.tell()} of the transmitted buffer")
    ck.expect(n_ctl >= 12, f"iterm2 renderer: expected >= 12 (case, image command) pairs, found {n_ctl}")
    # strips: PIL.Image.frombytes(mode, (w, h), <raw>.read(n)) with n == w * h * len(mode), h == pixel height // rendered height
    fbs = [c for c in body_walk(ir) if isinstance(c, ast.Call) and norm(c.func).endswith("Image.frombytes")]
    # `img` is rebound by the per-strip `with ... as img`; it is compared as a symbol (the strips have the mode of the whole image)
    ivar = "img"
    sz_t = trace(ir, fbs[0].args[1], keep=(ivar,)) if len(fbs) == 1 and len(fbs[0].args) == 3 else None
    ck.expect(sz_t is not None and isinstance(sz_t, ast.Tuple) and len(sz_t.elts) == 2, "iterm2 renderer: the per-strip PIL.Image.frombytes(mode, (w, h), data) not recognised")
    if sz_t is not None and isinstance(sz_t, ast.Tuple) and len(sz_t.elts) == 2:
        fb = fbs[0]
        mode_t, w_t, h_t = trace(ir, fb.args[0], keep=(ivar,)), sz_t.elts[0], sz_t.elts[1]
        data_t = trace(ir, fb.args[2], keep=(ivar,))
        b_ = match_expr("$raw.read($n)", data_t)
        try:
            okn = b_ is not None and equal(b_["n"], ast.BinOp(left=ast.BinOp(left=w_t, op=ast.Mult(), right=h_t), op=ast.Mult(), right=ast.Call(func=ast.Name(id="len", ctx=ast.Load()), args=[mode_t], keywords=[])))
        except NotPoly:
            okn = False
        ck.ob("R2", enclosing_stmt(fb), okn and "tobytes()" in norm(b_["raw"]), f"iterm2 LINES: a strip is width * cell_height * len(img.mode) bytes of the converted image's raw data; found `{norm(data_t)[:140]}`", stmt="iterm2 LINES: bytes per strip")
        gdi = next((c for c in body_walk(ir) if isinstance(c, ast.Call) and (call_name(c) or "").endswith("_get_render_data")), None)
        szi = trace(ir, kw(gdi, "size")) if gdi is not None and kw(gdi, "size") is not None else None
        bs = match_expr("($P[0], $P[1])", szi) if szi is not None else None
        ck.expect(bs is not None, "iterm2 renderer: _get_render_data(size=(w, h)) not recognised")
        if bs is not None:
            Pn = norm(bs["P"])
            try:
                okh = equal(h_t, parse(f"({Pn})[1] // self.rendered_size[1]")) and equal(w_t, parse(f"({Pn})[0]"))
            except NotPoly:
                okh = False
            ck.ob("R3", enclosing_stmt(fb), okh, f"iterm2 LINES: strips are <pixel width> x (<pixel height> // <rendered height>); found {norm(w_t)[:60]} x {norm(h_t)[:80]}", stmt="iterm2 LINES: cell_height")

    # ---- R4 ----------------------------------------------------------------------------
    def method_seq(node, recv):
        out = []
        for c in walk_local(node):
            if isinstance(c, ast.Call) and isinstance(c.func, ast.Attribute) and norm(c.func.value) == recv:
                out.append((c.lineno, c.col_offset, c.func.attr + "(" + ",".join({"io.SEEK_END": "2", "os.SEEK_END": "2", "io.SEEK_SET": "0", "os.SEEK_SET": "0"}.get(norm(a), norm(a)) for a in c.args) + ")"))
            elif isinstance(c, ast.Call) and any(norm(a) == recv for a in c.args) and isinstance(c.func, ast.Attribute) and c.func.attr == "save":
                out.append((c.lineno, c.col_offset, "save-into"))
        return [x[2] for x in sorted(out)]
    withs = [w for w in body_walk(ir) if isinstance(w, ast.With) and [norm(i.context_expr) for i in w.items] == ["compressed_image"]]
    ck.expect(len(withs) == 2, f"iterm2 renderer: expected 2 `with compressed_image:` blocks (ANIM, WHOLE), found {len(withs)}")
    for w in withs:
        seq = [x for x in method_seq(w, "compressed_image") if x != "tell()" or True]
        core = [x for x in seq if x in ("seek(0,2)", "tell()", "seek(0)", "read()")]
        first_tell = core.index("tell()") if "tell()" in core else -1
        ok = core[:1] == ["seek(0,2)"] and first_tell == 1 and "seek(0)" in core and core.index("seek(0)") > max(i for i, x in enumerate(core) if x == "tell()") and core[-1] == "read()" \
            and not any(x.startswith(("write", "truncate")) or x == "save-into" for x in seq)
        ck.ob("R4", w, ok, f"advertised size and payload must come from the same buffer state: seek(0,2) -> tell() -> seek(0) -> read(), no write in between; found {seq}", stmt=f"iterm2 L{'' if False else ''}buffer order: seek(0,2) tell seek(0) read")
    loop = next((n for n in body_walk(ir) if isinstance(n, ast.For) and "r_height" in norm(n.iter)), None)
    ck.expect(loop is not None, "iterm2 renderer: the per-strip loop not found")
    if loop is not None:
        seq = method_seq(loop, "compressed_image")
        want = ["seek(0)", "save-into", "truncate()", "tell()", "getvalue()"]
        idx = [seq.index(x) if x in seq else -1 for x in want]
        ck.ob("R4", loop, all(i >= 0 for i in idx) and idx == sorted(idx),
              f"the strip buffer is reused: seek(0) -> save -> truncate() -> tell()/getvalue(); found {seq} - without truncate() a strip that encodes smaller than an earlier one keeps the stale tail while size= reports the shorter length",
              stmt="iterm2 LINES buffer order: seek(0) save truncate tell getvalue")

    # ---- R5 ----------------------------------------------------------------------------
    # the gate = the traced situation in which the source file itself is opened for transmission (an `open(...)` that runs under
    # `self.read_from_file`): its conjuncts, however the test is spelled (one `and` chain, nested ifs, a helper with early returns)
    from tiv.sem import tconds
    opens = [c for c in body_walk(ir) if isinstance(c, ast.Call) and call_name(c) == "open"]
    gl = [(c, tconds(ir, c, keep=("file_is_readable", "render_method"))) for c in opens]
    gl = [(c, L) for c, L in gl if "self.read_from_file" in L]
    ck.need(len(gl) == 1, "iterm2 renderer: read-from-file gate not found")
    op, conj = gl[0][0], sorted(gl[0][1])
    gate = next((a_ for a_ in _anc(op) if isinstance(a_, ast.If)), None)
    ck.need(gate is not None, "iterm2 renderer: read-from-file gate not found")
    kind_of = {
        "policy": lambda c: c == "self.read_from_file",
        "not animated": lambda c: c == "not self._is_animated",
        "readable": lambda c: c == "file_is_readable",
        "WHOLE": lambda c: c == "render_method == WHOLE",
        "original <= render size": lambda c: c == "mul(*self._original_size) <= mul(*self._get_render_size())",
        "mode/alpha": lambda c: ".mode in {'1', 'L', 'RGB', 'HSV', 'CMYK'} or (isinstance(alpha, float) and" in c and c.endswith(".mode not in {'P', 'PA'})"),
    }
    for k, pred in kind_of.items():
        ck.ob("R5", gate, any(pred(c) for c in conj), f"the untouched source file may be transmitted only under the documented conjunction; the `{k}` condition is missing from {conj}", stmt=f"read-from-file gate: {k}")
    other = [c for c in conj if not any(pred(c) for pred in kind_of.values()) and "ANIM" not in c]
    ck.ob("R5", gate, not other, f"the gate has conjuncts beyond the 6 documented ones: {other}", stmt="read-from-file gate: exactly the documented conjuncts")
    ck.ob("R5", gate, op is not None and len(op.args) == 2 and norm(op.args[1]) == "'rb'", "the source file must be opened 'rb'", stmt="read-from-file: open(..., 'rb')")
    rel_ = [b_ for s_, b_ in find_stmts("if $$v is not img:\n    self._close_image(img)", body_walk(ir))]
    ck.expect(len(rel_) == 1, "iterm2 renderer: `if <frame image> is not img: self._close_image(img)` not recognised")
    if len(rel_) == 1:
        fv = norm(rel_[0]["v"])
        ck.ob("R5", gate, any(norm(s) == f"{fv} = None" for s in gate.body), f"the branch must set {fv} = None so that the PIL image is still released", stmt="read-from-file: frame_img = None")

    # ---- R6 ----------------------------------------------------------------------------
    cp = m.get(KT, "Transmission.compress")
    pl = [st for t, st in stores_in(ast.Module(body=cp.body, type_ignores=[])) if norm(t) == "self.payload"]
    of = [st for t, st in stores_in(ast.Module(body=cp.body, type_ignores=[])) if norm(t) == "self.control.o"]
    cf = [st for t, st in stores_in(ast.Module(body=cp.body, type_ignores=[])) if norm(t) == "self._compressed"]
    ck.expect(len(pl) == 1 and len(of) == 1 and len(cf) == 1, "Transmission.compress: payload / control.o / _compressed stores not recognised")
    if len(pl) == 1 and len(of) == 1 and len(cf) == 1:
        gsets = [frozenset(conds(x)) for x in (pl[0], of[0], cf[0])]
        ck.ob("R6", pl[0], gsets[0] == gsets[1] == gsets[2], f"payload compression, control.o = ZLIB and _compressed = True must happen under the same condition; found {[sorted(g) for g in gsets]}", stmt="compress: one guard for payload, o and _compressed")
        allowed = {"self.control.t == t.DIRECT", "not self._compressed", "self.level"}
        extra = set(gsets[1]) - allowed
        ck.ob("R6", of[0], not extra and norm(of[0].value) == "o.ZLIB",
              f"the o=z flag is set under a data-dependent condition {sorted(extra)}: the ControlData object is shared by all strips of a LINES render, so a strip sent raw after a compressed one "
              "would still declare o=z (nothing resets it)", stmt="compress: o=ZLIB under {t==DIRECT, not _compressed, level} only")
        ck.ob("R6", pl[0], norm(pl[0].value) == "compress(self.payload, self.level)", "the payload must be zlib-compressed at the requested level", stmt="compress: payload = compress(payload, level)")
    pi = m.get(KT, "Transmission.__post_init__")
    # (either polarity / guard-clause form: decided on the literal condition sets of the call and of the reset)
    cc_ = [c for c in body_walk(pi) if isinstance(c, ast.Call) and norm(c) == "self.compress()"]
    rs_ = [st for t, st in stores_in(ast.Module(body=pi.body, type_ignores=[])) if norm(t) == "self.control.o" and norm(getattr(st, "value", None)) == "None"]
    ok = len(cc_) == 1 and len(rs_) == 1 and conds(cc_[0]) == {"self.level"} and conds(rs_[0]) == {"not self.level"} and any(norm(s) == "self._compressed = False" for s in pi.body)
    ck.ob("R6", pi, ok, "__post_init__ must compress when level is set and otherwise reset control.o to None (the ControlData may come from a previous strip)", stmt="__post_init__: compress or reset o")
    for rel, q, fn in m.functions():
        for c in body_walk(fn):
            if isinstance(c, ast.Call) and call_name(c) == "ControlData":
                ck.ob("R6", enclosing_stmt(c), not any(k.arg in ("t", "o", "a", "C") for k in c.keywords), f"{q}: ControlData is built with transmission-medium/compression/cursor keys overridden", stmt=f"{q}: ControlData keeps t/o/a/C defaults")

    from rules.c02 import rule_pixel_pipeline
    rule_pixel_pipeline(ck, m, "R2")

    from tiv.sem import econds as _ec
    saves = [c for c in body_walk(ir) if isinstance(c, ast.Call) and isinstance(c.func, ast.Attribute) and c.func.attr == "save" and c.args and norm(c.args[0]) == "compressed_image"
             and not any(isinstance(a_, ast.For) for a_ in _anc(c)) and not any(k.arg == "save_all" for k in c.keywords)]
    ck.expect(len(saves) >= 1, "iterm2 renderer: the whole-image `img.save(compressed_image, ...)` not found")
    for c in saves:
        cds = _ec(ir, c)
        lines_neg = any(x.startswith("not ") and x.endswith("== LINES") for x in cds)
        other_method = [x for x in cds if ("== WHOLE" in x or "== ANIM" in x) and not x.startswith("not ")]
        ck.ob("R4", enclosing_stmt(c), lines_neg and not other_method, f"the image is encoded into the buffer whose length is advertised under {sorted(cds)[:4]}: it must be for every method but LINES "
              "(ANIM falls back to the WHOLE output for a still image or a single frame; an un-encoded buffer gives size=0 and an empty payload)", stmt="iterm2: whole image encoded iff not LINES")


def rule_chunk_protocol(ck, m, rid):
    # ---- R1 ----------------------------------------------------------------------------
    gc = m.get(KT, "Transmission.get_chunks")
    szd = dict(zip([a.arg for a in gc.args.args][-len(gc.args.defaults):], gc.args.defaults)) if gc.args.defaults else {}
    sz = szd.get("size")
    ok = isinstance(sz, ast.Constant) and isinstance(sz.value, int) and 0 < sz.value <= 4096 and sz.value % 4 == 0
    ck.ob(rid, gc, ok, f"default chunk size must be a positive int literal <= 4096 and a multiple of 4 (base64 quanta); found `{norm(sz) if sz is not None else None}`", stmt="get_chunks: default size <= 4096, multiple of 4")
    n_calls = 0
    for rel, q, fn in m.functions():
        for c in body_walk(fn):
            if isinstance(c, ast.Call) and (call_name(c) or "").split(".")[-1] == "get_chunks":
                n_calls += 1
                ck.ob(rid, enclosing_stmt(c), not c.args and not c.keywords, f"{q}: get_chunks is called with another chunk size `{short(c, 50)}`", stmt=f"{q}: get_chunks() with the default size")
    ck.expect(n_calls >= 2, f"expected >= 2 call sites of get_chunks, found {n_calls}")
    # the chunks of one transmission are contiguous on the wire: a loop over get_chunks() emits the chunk and nothing else (another
    # graphics command between an m=1 chunk and its continuation breaks the chunked transmission)
    for rel, q, fn in m.functions():
        for lp in body_walk(fn):
            if isinstance(lp, ast.For) and isinstance(lp.iter, ast.Call) and (call_name(lp.iter) or "").split(".")[-1] == "get_chunks" and isinstance(lp.target, ast.Name):
                v_ = lp.target.id
                others = [c for st_ in lp.body for c in walk_local(st_) if isinstance(c, ast.Call) and isinstance(c.func, (ast.Attribute, ast.Name))
                          and (norm(c.func).endswith(("write", "print")) or norm(c.func) in ("print",)) and [norm(a_) for a_ in c.args] != [v_]]
                ck.ob(rid, lp, not others and not lp.orelse, f"{q}: the loop over get_chunks() also writes `{short(others[0], 50) if others else ''}`: the chunks of one transmission must follow each other directly "
                      "(a command between an m=1 chunk and its continuation aborts the chunked transmission)", stmt=f"{q}: chunks of a transmission are contiguous")
    # the m-flag protocol itself: decided by exploring the finite abstract state space of the generator (tiv.protocol) whatever the shape
    # of its loop; the idiom rules below are the fallback for generators outside the interpreted fragment (e.g. index slicing)
    from tiv.protocol import Explorer, Undecidable
    ex = Explorer(gc)
    try:
        viol = ex.run()
        model_checked = True
    except Undecidable as e_:
        viol, model_checked = [], False
        ck.extra.setdefault("notes", []).append(f"get_chunks: abstract exploration not applicable ({e_}); idiom rules used")
    if model_checked:
        ck.ob(rid, gc, ex.n_yields >= 2, f"get_chunks: the abstract exploration met {ex.n_yields} yields (expected the first command and the continuation commands)", stmt="get_chunks: yields explored")
        for msg_, node_ in viol:
            ck.ob(rid, enclosing_stmt(node_) if node_ is not None and not isinstance(node_, ast.FunctionDef) else gc, False, f"get_chunks: {msg_}", stmt="get_chunks: m-flag protocol (abstract exploration)")
        if not viol:
            ck.ob(rid, gc, True, f"get_chunks: {ex.n_states} abstract steps, {len(ex.seen)} loop-head states", stmt="get_chunks: m-flag protocol (abstract exploration)")
    ys = _yields(gc)
    loops = [n for n in body_walk(gc) if isinstance(n, ast.While)]
    r1 = find_stmts("$$a = payload.read(size)", body_walk(gc))
    reads = []
    for s1, b1 in r1:
        blk = getattr(s1._p, "body", [])
        i1 = next((k for k, x in enumerate(blk) if x is s1), None)
        if i1 is not None and i1 + 1 < len(blk):
            b2 = match_stmt("$$b = payload.read(size)", blk[i1 + 1])
            if b2 is not None and norm(b2["b"]) != norm(b1["a"]):
                reads.append((s1, {"a": b1["a"], "b": b2["b"]}))
                break
    recognised = len(ys) == 3 and len(loops) == 1 and len(reads) == 1 and isinstance(loops[0].test, ast.Name)
    alt = False
    if not recognised:
        alt = _alt_chunk_idioms(ck, gc, ys, rid)
    ck.expect(recognised or alt or model_checked, "get_chunks: neither the abstract exploration, the one-chunk look-ahead idiom nor a recognised alternative (index slicing / length-derived flag) applies - cannot decide the m-flag protocol")
    if recognised and not model_checked:
        cur, ahead = norm(reads[0][1]["a"]), norm(reads[0][1]["b"])
        ck.ob(rid, loops[0], norm(loops[0].test) == ahead, f"the loop must run while the look-ahead chunk `{ahead}` is non-empty; found `while {norm(loops[0].test)}`", stmt="get_chunks: while <look-ahead>")
        first, inloop, last = None, None, None
        for y in ys:
            if any(a is loops[0] for a in _anc(y)):
                inloop = y
            elif y.lineno < loops[0].lineno:
                first = y
            else:
                last = y
        ck.expect(first is not None and inloop is not None and last is not None, "get_chunks: yields before/inside/after the loop not found")
        if first is not None and inloop is not None and last is not None:
            f1, c1 = _mflag(first)
            ck.ob(rid, enclosing_stmt(first), f1 is not None and f1[0] == "bool" and f1[1] == ahead and f1[2] and c1 == cur,
                  f"the first chunk must carry the control data and m=bool({ahead}) with payload `{cur}`; found flag {f1}, payload {c1}", stmt="get_chunks: first yield = control data, m=bool(look-ahead)")
            f2, c2 = _mflag(inloop)
            ck.ob(rid, enclosing_stmt(inloop), f2 == ("const", "1") and c2 == cur, f"every chunk yielded inside the loop is followed by another one and must carry the literal m=1 with payload `{cur}`; found {f2}, {c2}", stmt="get_chunks: in-loop yield m=1")
            f3, c3 = _mflag(last)
            gl = [norm(t) for t, b in guards(last) if b]
            ck.ob(rid, enclosing_stmt(last), f3 == ("const", "0") and c3 == cur and gl == [cur], f"the final chunk must carry m=0 and be emitted only if a chunk is pending (`if {cur}`); found {f3}, guards {gl}", stmt="get_chunks: final yield m=0 under `if chunk`")
            shifts = []
            for s1, _ in find_stmts(f"{cur} = {ahead}", body_walk(gc)):
                blk = getattr(s1._p, "body", [])
                i1 = next((k for k, x in enumerate(blk) if x is s1), None)
                if i1 is not None and i1 + 1 < len(blk) and match_stmt(f"{ahead} = payload.read(size)", blk[i1 + 1]) is not None:
                    shifts.append((s1, {}))
            inl = [s_ for s_, _ in shifts if any(a is loops[0] for a in _anc(s_))]
            pre = [s_ for s_, _ in shifts if s_.lineno < loops[0].lineno and s_.lineno > first.lineno]
            ck.ob(rid, loops[0], len(inl) == 1 and len(pre) == 1 and inl[0].lineno > inloop.lineno, "the window must shift (chunk, look-ahead = look-ahead, read) once after the first yield and once per loop iteration after its yield", stmt="get_chunks: window shifts")
    gch = m.get(KT, "Transmission.get_chunked")
    ck.ob(rid, gch, any(norm(r.value) == "''.join(self.get_chunks())" for r in body_walk(gch) if isinstance(r, ast.Return)), "get_chunked must join get_chunks() unchanged", stmt="get_chunked joins get_chunks()")
    enc = m.get(KT, "Transmission.encode")
    ck.ob(rid, enc, any(norm(r.value) == "standard_b64encode(self.payload)" for r in body_walk(enc) if isinstance(r, ast.Return)), "payload must be standard base64", stmt="encode: standard_b64encode(self.payload)")
    fold = Folder(m.tree("_ctlseqs.py"))
    ck.ob(rid, None, fold.env.get("KITTY_TRANSMISSION") == "\x1b_G%s;%s\x1b\\", f"KITTY_TRANSMISSION must be APC G <control> ; <payload> ST; folded {fold.env.get('KITTY_TRANSMISSION')!r}", stmt="KITTY_TRANSMISSION framing", construct="_ctlseqs.py::<module>")



def _flag_exprs(y):
    """FormattedValue expressions used for `m=` in a yielded transmission."""
    out = []
    for j in ast.walk(y.value):
        if isinstance(j, ast.JoinedStr):
            prev = ""
            for v in j.values:
                if isinstance(v, ast.Constant):
                    prev = str(v.value)
                elif isinstance(v, ast.FormattedValue):
                    if prev.endswith("m="):
                        out.append(v.value)
                    prev = ""
    return out


def _alt_chunk_idioms(ck, gc, ys, rid="R1") -> bool:
    """Alternative implementations of the chunk generator that can still be decided.
    (a) a continuation flag derived from the LENGTH of the current chunk is wrong whatever the shape of the loop:
        a full-size last chunk cannot be told from a non-last one (payload of exactly k*size characters);
    (b) index slicing: `for start in range(size, length, size)` with flags that are comparisons between the position
        after the chunk and the payload length: m must be 1 iff position_after < length (strictly)."""
    from tiv.affine import poly, show, _add
    decided = False
    for y in ys:
        for fe in _flag_exprs(y):
            lens = [c for c in ast.walk(fe) if isinstance(c, ast.Call) and call_name(c) == "len"]
            chunkish = [c for c in lens if c.args and isinstance(c.args[0], ast.Name) and "chunk" in c.args[0].id]
            if chunkish and any("size" in norm(x) for x in ast.walk(fe) if isinstance(x, ast.Name)):
                decided = True
                ck.ob(rid, enclosing_stmt(y), False,
                      f"the continuation flag `m={{{norm(fe)}}}` is derived from the length of the current chunk: when the payload is an exact multiple of the chunk size the last "
                      "chunk is full-size and gets m=1, so the transmission is never terminated", stmt="get_chunks: m flag must not depend on len(chunk)")
    loop = next((n for n in body_walk(gc) if isinstance(n, ast.For) and isinstance(n.iter, ast.Call) and call_name(n.iter) == "range" and len(n.iter.args) == 3), None)
    if loop is not None and [norm(a) for a in loop.iter.args][0] == "size" and norm(loop.iter.args[2]) == "size":
        length = norm(loop.iter.args[1])
        start = norm(loop.target)
        subst = {}
        for st_ in loop.body:
            if isinstance(st_, ast.Assign) and isinstance(st_.targets[0], ast.Name):
                subst[st_.targets[0].id] = st_.value
        for y in ys:
            inl = any(a is loop for a in _anc(y))
            pos_after = f"{start} + size" if inl else "size"
            for fe in _flag_exprs(y):
                if not (isinstance(fe, ast.Compare) and len(fe.ops) == 1):
                    continue
                a, b, op = fe.left, fe.comparators[0], fe.ops[0]
                try:
                    pa, pb = poly(a, subst), poly(b, subst)
                except Exception:
                    continue
                if isinstance(op, (ast.Lt, ast.LtE)):
                    P, strict = _add(pa, pb, -1), isinstance(op, ast.Lt)
                elif isinstance(op, (ast.Gt, ast.GtE)):
                    P, strict = _add(pb, pa, -1), isinstance(op, ast.Gt)
                else:
                    continue
                want = _add(poly(parse(pos_after)), poly(parse(length)), -1)
                if P == want:
                    decided = True
                    ck.ob(rid, enclosing_stmt(y), strict,
                          f"m={{{norm(fe)}}} is 1 when the chunk ends exactly at the end of the payload ({pos_after} == {length}): for a payload of exactly k*size characters the last chunk "
                          "carries m=1 and the transmission is never terminated", stmt=f"get_chunks[{'loop' if inl else 'first'}]: m = (position after chunk < length), strictly")
    return decided


def _anc(n):
    p = getattr(n, "_p", None)
    while p is not None:
        yield p
        p = getattr(p, "_p", None)


MUTANTS = [
    M("chunk-4095", KT, "Transmission.get_chunks", "size: int = 4096", "size: int = 4095", {"R1"}),
    M("m-from-chunk", KT, "Transmission.get_chunks", "m={bool(next_chunk):d}", "m={bool(chunk):d}", {"R1"}),
    M("swap-m-flags", KT, "Transmission.get_chunks", 'yield KITTY_TRANSMISSION % ("m=1", chunk)', 'yield KITTY_TRANSMISSION % ("m=0", chunk)', {"R1"}),
    M("final-unguarded", KT, "Transmission.get_chunks", "            if chunk:  # false if there was never a next chunk\n                yield", "            if True:\n                yield", {"R1"}),
    M("c-is-height", KT, "KittyImage._render_image", "ControlData(f=format, s=width, c=r_width, z=z_index)", "ControlData(f=format, s=width, c=r_height, z=z_index)", {"R3"}),
    M("lines-v-height", KT, "KittyImage._render_image", "vars(control_data).update(v=cell_height, r=1)", "vars(control_data).update(v=height, r=1)", {"R3"}),
    M("bytes-per-line", KT, "KittyImage._render_image", "bytes_per_line = width * cell_height * (format // 8)", "bytes_per_line = width * cell_height * (format // 4)", {"R3"}),
    M("delete-truncate", IT, "ITerm2Image._render_image", "                    compressed_image.truncate()\n", "", {"R4"}),
    M("tell-before-seek", IT, "ITerm2Image._render_image",
      "        with compressed_image:\n            compressed_image.seek(0, 2)\n            control_data = \"\".join(", "        with compressed_image:\n            compressed_image.seek(0)\n            control_data = \"\".join(", {"R4"}),
    M("format-table", KT, "f", "    RGBA = 32", "    RGBA = 24", {"R2"}),
    M("gate-drops-animated", IT, "ITerm2Image._render_image", "            and not self._is_animated\n", "", {"R5"}),
    M("gate-text-mode", IT, "ITerm2Image._render_image", "                \"rb\",\n            )\n            frame_img = None", "                \"r\",\n            )\n            frame_img = None", {"R5"}),
    M("stale-zlib-flag", KT, "Transmission.compress",
      "            self.payload = compress(self.payload, self.level)\n            self.control.o = o.ZLIB\n",
      "            data = compress(self.payload, self.level)\n            if len(data) < len(self.payload):\n                self.payload = data\n                self.control.o = o.ZLIB\n", {"R6"}),
    M("iterm2-height-key", IT, "ITerm2Image._render_image", 'f";width={r_width};height=1;preserveAspectRatio=0;inline=1"', 'f";width={r_width};height={r_height};preserveAspectRatio=0;inline=1"', {"R3"}),
    M("slicing-off-by-one", KT, "Transmission.get_chunks", '        with self.get_payload() as payload:\n            chunk, next_chunk = payload.read(size), payload.read(size)\n            yield (\n                KITTY_TRANSMISSION\n                % (f"{self.get_control_data()},m={bool(next_chunk):d}", chunk)\n            )\n\n            chunk, next_chunk = next_chunk, payload.read(size)\n            while next_chunk:\n                yield KITTY_TRANSMISSION % ("m=1", chunk)\n                chunk, next_chunk = next_chunk, payload.read(size)\n\n            if chunk:  # false if there was never a next chunk\n                yield KITTY_TRANSMISSION % ("m=0", chunk)\n', '        payload = self.encode().decode("ascii")\n        length = len(payload)\n        yield (\n            KITTY_TRANSMISSION\n            % (f"{self.get_control_data()},m={length > size:d}", payload[:size])\n        )\n        for start in range(size, length, size):\n            end = start + size\n            yield KITTY_TRANSMISSION % (f"m={end <= length:d}", payload[start:end])\n', {"R1"}),
    M("delete-between-chunks", KT, "KittyImage._render_image", "                    blend or buffer.write(KITTY_DELETE_CURSOR)\n                    for chunk in trans.get_chunks():\n                        buffer.write(chunk)\n",
      "                    for chunk in trans.get_chunks():\n                        blend or buffer.write(KITTY_DELETE_CURSOR)\n                        buffer.write(chunk)\n", {"R1"}),
    M("twin-slicing-correct", KT, "Transmission.get_chunks", '        with self.get_payload() as payload:\n            chunk, next_chunk = payload.read(size), payload.read(size)\n            yield (\n                KITTY_TRANSMISSION\n                % (f"{self.get_control_data()},m={bool(next_chunk):d}", chunk)\n            )\n\n            chunk, next_chunk = next_chunk, payload.read(size)\n            while next_chunk:\n                yield KITTY_TRANSMISSION % ("m=1", chunk)\n                chunk, next_chunk = next_chunk, payload.read(size)\n\n            if chunk:  # false if there was never a next chunk\n                yield KITTY_TRANSMISSION % ("m=0", chunk)\n', '        payload = self.encode().decode("ascii")\n        length = len(payload)\n        yield (\n            KITTY_TRANSMISSION\n            % (f"{self.get_control_data()},m={length > size:d}", payload[:size])\n        )\n        for start in range(size, length, size):\n            end = start + size\n            yield KITTY_TRANSMISSION % (f"m={end < length:d}", payload[start:end])\n', twin=True),
    M("twin-rename-chunk", KT, "Transmission.get_chunks", "next_chunk", "ahead", twin=True, count=0),
]
