"""C04 - automatic sizing always fits the frame, fills it and preserves aspect ratio: structural clauses
(DESIGN.md 4, C04). The fit/fill/aspect inequalities with float rounding over five quantities need a relational numeric
domain with rounding (or a solver - another technique family) and are NOT decided."""
from __future__ import annotations

import ast

from tiv.astutil import ancestors, conds, body_walk, call_name, dotted, enclosing_stmt, flatten_boolop, guards, kw, names_loaded, norm, rename, short, stores_in, walk_local
from tiv.match import find_stmts, match_expr, match_stmt
from tiv.mutate import M
from tiv.sem import expand, trace, same_bool

RULES = {
    "MEMO": "memo safety (shared, rules/common.py): a memoised function in this property's files (or called from them) is a function of its "
            "arguments only (no terminal/ambient/receiver state outside the key) and no caller mutates its result in place",
    "R1": "positivity clamp: every return of BaseImage._valid_size is a 2-tuple whose elements are `E or 1` (or a caller-given dimension "
          "validated > 0 by set_size)",
    "R2": "unit conversions are inverse pairs and siblings agree: in every concrete _pixels_cols/_pixels_lines the pixels branch divides by the unit "
          "the other branch multiplies by, cols uses axis 0 and lines axis 1 of the same cell-size source, and _get_render_size multiplies "
          "rendered_size by the same pair; one rounding per derived dimension: a helper whose result a caller scales and rounds returns the unrounded value",
    "R3": "a dynamic size is re-evaluated on every access and restored after rendering: rendered_size/width/height call _valid_size directly for a "
          "Size member; no result of _valid_size is stored anywhere but into `_size` (by set_size / UrwidImage.render); `_size` has no other writer; "
          "_renderer restores a dynamic size in finally; shared with C09.R5: a frame cached by ImageIterator is keyed by and re-validated against hash(image.rendered_size); every non-raising path of the size setter / set_size stores `_size` (must-pass-through)",
    "R4": "mode dispatch is exhaustive: _valid_size refers to every member of Size (FIT being the fall-through)",
    "R5": "sibling agreement inside _valid_size: AUTO's fits-the-frame test compares exactly the pixel width/height that ORIGINAL returns; the two FIT "
          "branches are mirror images under width<->height (with * and / of the pixel ratio exchanged)",
}
CM, BL, UW = "image/common.py", "image/block.py", "widget/_urwid.py"


def _unify(a, b, mp) -> bool:
    """Structural equality of a and b up to a renaming of b's names (recorded in mp: name in b -> name in a) and the exchange
    `* self._pixel_ratio` <-> `/ self._pixel_ratio`."""
    if isinstance(a, ast.Name) and isinstance(b, ast.Name):
        if b.id in mp:
            return mp[b.id] == a.id
        mp[b.id] = a.id
        return True
    if type(a) is not type(b):
        return False
    if isinstance(a, (ast.BinOp, ast.AugAssign)):
        ra, rb = (a.right, b.right) if isinstance(a, ast.BinOp) else (a.value, b.value)
        ratio = norm(ra) == "self._pixel_ratio" == norm(rb)
        ops_ok = type(a.op) is type(b.op) if not ratio else {type(a.op), type(b.op)} == {ast.Mult, ast.Div}
        if not ops_ok:
            return False
        if isinstance(a, ast.BinOp):
            return _unify(a.left, b.left, mp) and _unify(a.right, b.right, mp)
        return _unify(a.target, b.target, mp) and _unify(a.value, b.value, mp)
    for f in a._fields:
        if f in ("ctx", "type_comment", "kind"):
            continue
        x, y = getattr(a, f, None), getattr(b, f, None)
        if isinstance(x, list):
            if not isinstance(y, list) or len(x) != len(y) or not all(_unify(p, q, mp) if isinstance(p, ast.AST) else p == q for p, q in zip(x, y)):
                return False
        elif isinstance(x, ast.AST):
            if not isinstance(y, ast.AST) or not _unify(x, y, mp):
                return False
        elif x != y:
            return False
    return True


def run(ck, m):
    from rules.common import rule_memo_safety
    rule_memo_safety(ck, m, "MEMO", "C04")          # first: a memoised helper also hides the code it wraps from the rules below
    vs = m.get(CM, "BaseImage._valid_size")
    # ---- R1 ----------------------------------------------------------------------------
    rets = [r for r in body_walk(vs) if isinstance(r, ast.Return)]
    ck.expect(len(rets) >= 4, f"_valid_size: expected >= 4 returns, found {len(rets)}")
    for r in rets:
        ok = isinstance(r.value, ast.Tuple) and len(r.value.elts) == 2
        elems_ok = ok and all(isinstance(e, ast.BoolOp) and isinstance(e.op, ast.Or) and len(e.values) == 2 and norm(e.values[1]) == "1" for e in r.value.elts)
        ck.ob("R1", r, elems_ok, f"`{short(r, 70)}`: every returned dimension must be clamped with `or 1` (a size of 0 cells would make rendering fail / emit CSI 0 sequences)", stmt=f"_valid_size: {short(r, 90)}")
    ss = m.get(CM, "BaseImage.set_size")
    # each of width and height is rejected when it is an int <= 0: directly, or through a loop variable ranging over both
    covered = set()
    import re as _re
    for r_ in body_walk(ss):
        if not isinstance(r_, ast.Raise):
            continue
        L = conds(r_)          # the literal conditions under which this raise runs (enclosing tests, guard clauses, conjunctions split)
        for lit in L:
            mo = _re.fullmatch(r"(\w+) (<= 0|< 1)", lit) or _re.fullmatch(r"not (\w+) > 0", lit)
            if not mo or f"isinstance({mo.group(1)}, int)" not in L:
                continue
            v_ = mo.group(1)
            if v_ in ("width", "height"):
                covered.add(v_)
                continue
            loop = next((a_ for a_ in ancestors(r_) if isinstance(a_, ast.For) and any(isinstance(t_, ast.Name) and t_.id == v_ for t_ in ast.walk(a_.target))), None)
            if loop is not None:
                covered |= {n_ for n_ in names_loaded(expand(ss, loop.iter, use=loop)) if n_ in ("width", "height")}
    ck.ob("R1", ss, covered == {"width", "height"}, f"set_size must reject non-positive integer dimensions (both width and height; found for {sorted(covered)})", stmt="set_size: rejects dimensions <= 0")

    # ---- R2 ----------------------------------------------------------------------------
    # one rounding per derived dimension: where a helper's result is scaled (* or / by the pixel ratio ...) and then rounded, the helper returns the
    # *unrounded* value - rounding twice adds the two errors (up to one pixel each) and the derived dimension can be a whole cell off
    ROUNDERS = {"round", "int", "ceil", "floor", "math.ceil", "math.floor"}
    n_scaled = 0
    by_name4 = {}
    for rel_, q_, fn_ in m.functions():
        by_name4.setdefault(fn_.name, []).append((rel_, q_, fn_))
    for rel_, q_, fn_ in m.functions():
        if rel_ not in (CM, BL):
            continue
        for c in body_walk(fn_):
            if not (isinstance(c, ast.Call) and (call_name(c) or "") in ROUNDERS and c.args and isinstance(c.args[0], ast.BinOp) and isinstance(c.args[0].op, (ast.Mult, ast.Div))):
                continue
            ops_, stack_ = [], [c.args[0]]
            while stack_:
                e_ = stack_.pop()
                if isinstance(e_, ast.BinOp) and isinstance(e_.op, (ast.Mult, ast.Div)):
                    stack_ += [e_.left, e_.right]
                else:
                    ops_.append(e_)
            for o_ in ops_:
                if isinstance(o_, ast.Name):
                    o_ = trace(fn_, o_, use=c)
                if isinstance(o_, ast.Call) and isinstance(o_.func, ast.Attribute) and norm(o_.func.value) in ("self", "cls"):
                    for rel2, q2, f2 in by_name4.get(o_.func.attr, []):
                        n_scaled += 1
                        for r_ in body_walk(f2):
                            if isinstance(r_, ast.Return) and r_.value is not None:
                                tv_ = trace(f2, r_.value, use=r_)
                                rounded = (isinstance(tv_, ast.Call) and (call_name(tv_) or "") in ROUNDERS) or (isinstance(tv_, ast.BinOp) and isinstance(tv_.op, ast.FloorDiv))
                                ck.ob("R2", r_, not rounded, f"{q2} returns a rounded value (`{short(tv_, 50)}`) that {q_} scales and rounds again (`{short(c, 60)}`): the two rounding errors add up and the derived "
                                      "dimension can differ from the exact proportional one by more than one unit", stmt=f"{q2}: unrounded where {q_} scales and rounds its result")
    ck.expect(n_scaled >= 1, f"scaled-then-rounded helper results found: {n_scaled}")
    units = {}
    for rel, cname in ((BL, "BlockImage"), (CM, "GraphicsImage")):
        for meth, par, axis in (("_pixels_cols", "cols", 0), ("_pixels_lines", "lines", 1)):
            fn = m.get(rel, f"{cname}.{meth}")
            r = next((s for s in fn.body if isinstance(s, ast.Return)), None)
            rv = trace(fn, r.value) if r is not None else None
            ck.need(rv is not None and isinstance(rv, ast.IfExp) and norm(rv.test) in ("pixels is not None", "pixels is None"), f"{cname}.{meth}: `X if pixels is not None else Y` not recognised")
            body, other = (rv.body, rv.orelse) if norm(rv.test) == "pixels is not None" else (rv.orelse, rv.body)
            # multiplier
            if isinstance(other, ast.Name) and other.id == par:
                mul_u = "1"
            else:
                mm = match_expr(f"{par} * $u", other) or match_expr(f"$u * {par}", other)
                mul_u = norm(mm["u"]) if mm else None
            # divisor
            div_u = None
            if isinstance(body, ast.Name) and body.id == "pixels":
                div_u = "1"
            else:
                for pat in ("ceil(pixels / $u)", "ceil(pixels // $u)", "pixels // $u", "round(pixels / $u)"):
                    mm = match_expr(pat, body)
                    if mm:
                        div_u = norm(mm["u"])
            ck.expect(mul_u is not None and div_u is not None, f"{cname}.{meth}: conversion forms not recognised (`{norm(body)[:50]}` / `{norm(other)[:50]}`)")
            if mul_u is None or div_u is None:
                continue
            ck.ob("R2", r, mul_u == div_u,
                  f"{cname}.{meth}: pixels are divided by `{div_u}` but {par} are multiplied by `{mul_u}`: the two directions of the conversion must use the same unit", stmt=f"{cname}.{meth}: inverse pair")
            units[(cname, meth)] = mul_u
            if cname == "GraphicsImage":
                ck.ob("R2", r, mul_u == f"(get_cell_size() or (1, 2))[{axis}]", f"{cname}.{meth} must use axis {axis} of the cell size (fallback (1, 2)); found `{mul_u}`", stmt=f"{cname}.{meth}: axis {axis} of the cell size")
        grs = m.get(rel, f"{cname}._get_render_size")
        r = next((s for s in grs.body if isinstance(s, ast.Return)), None)
        rv = trace(grs, r.value) if r is not None else None
        pair = None
        if rv is not None:
            mm = match_expr("tuple(map(mul, self.rendered_size, $p))", rv)
            if mm is not None:
                p_ = mm["p"]
                pair = [norm(e) for e in p_.elts] if isinstance(p_, ast.Tuple) and len(p_.elts) == 2 else [f"({norm(p_)})[0]", f"({norm(p_)})[1]"]
            elif isinstance(rv, ast.Tuple) and len(rv.elts) == 2:
                m0 = match_expr("self.rendered_size[0] * $u", rv.elts[0]) or match_expr("$u * self.rendered_size[0]", rv.elts[0]) or match_expr("self.rendered_width * $u", rv.elts[0])
                m1 = match_expr("self.rendered_size[1] * $u", rv.elts[1]) or match_expr("$u * self.rendered_size[1]", rv.elts[1]) or match_expr("self.rendered_height * $u", rv.elts[1])
                one = {"u": ast.Constant(value=1)}          # an axis returned as it is: multiplied by 1
                if m0 is None and norm(rv.elts[0]) in ("self.rendered_size[0]", "self.rendered_width"):
                    m0 = one
                if m1 is None and norm(rv.elts[1]) in ("self.rendered_size[1]", "self.rendered_height"):
                    m1 = one
                if m0 is not None and m1 is not None:
                    pair = [norm(m0["u"]), norm(m1["u"])]
        ck.expect(pair is not None, f"{cname}._get_render_size: neither `tuple(map(mul, self.rendered_size, <pair>))` nor `(cols * u0, lines * u1)`")
        if pair is None or (cname, "_pixels_cols") not in units or (cname, "_pixels_lines") not in units:
            continue
        want_pair = [units[(cname, "_pixels_cols")], units[(cname, "_pixels_lines")]]
        ck.ob("R2", r, pair == want_pair, f"{cname}._get_render_size multiplies by `{pair}`, which is not the unit pair of its _pixels_cols/_pixels_lines {want_pair}",
              stmt=f"{cname}._get_render_size: same units as the conversions")

    # ---- R3 ----------------------------------------------------------------------------
    base = m.get(CM, "BaseImage")
    for prop, args, idx in (("rendered_size", "self._size, None", ""), ("rendered_width", "self._size, None", "[0]"), ("rendered_height", "None, self._size", "[1]")):
        a = next((s for s in base.body if isinstance(s, ast.Assign) and norm(s.targets[0]) == prop), None)
        ck.need(a is not None and isinstance(a.value, ast.Call) and a.value.args and isinstance(a.value.args[0], ast.Lambda), f"BaseImage.{prop} property not recognised")
        want = f"(self._valid_size({args}) if isinstance(self._size, Size) else self._size){idx}" if idx else f"self._valid_size({args}) if isinstance(self._size, Size) else self._size"
        ck.ob("R3", a, norm(a.value.args[0].body) == want, f"{prop} must evaluate `_valid_size` on every access for a dynamic size (and return a fixed size unchanged); found `{short(a.value.args[0].body, 90)}`",
              stmt=f"BaseImage.{prop}: re-evaluates a dynamic size")
    n_store = 0
    for rel in m.files:

        for n in m.walk(rel):
            if isinstance(n, (ast.Assign, ast.AnnAssign, ast.AugAssign)) and getattr(n, "value", None) is not None and any(isinstance(c, ast.Call) and (call_name(c) or "").endswith("_valid_size") for c in ast.walk(n.value)):
                tg = n.targets[0] if isinstance(n, ast.Assign) else n.target
                if isinstance(tg, (ast.Attribute, ast.Subscript)):
                    n_store += 1
                    ok = isinstance(tg, ast.Attribute) and tg.attr == "_size" and getattr(n, "_q", "") in ("BaseImage.set_size",)
                    ck.ob("R3", n, ok, f"`{short(n, 70)}` keeps a computed size: a dynamic size would stop following the terminal size and cell ratio", stmt=f"{rel}::{getattr(n, '_q', '')}: {short(n, 70)}")
    ck.expect(n_store >= 1, "no store of a _valid_size result found (set_size expected)")
    writers = set()
    for rel, _q, t, st in m.stores():

        if True:
            if isinstance(t, ast.Attribute) and t.attr == "_size":
                writers.add(f"{rel}::{getattr(st, '_q', '')}")
    allowed = {f"{CM}::BaseImage.size#2", f"{CM}::BaseImage.size", f"{CM}::BaseImage.set_size", f"{UW}::UrwidImage.render"}
    ck.ob("R3", base, writers <= allowed, f"`_size` is written in {sorted(writers - allowed)}; only the size setter, set_size and (documented) UrwidImage.render may", stmt="writers of _size")
    # a size that is accepted is stored: every non-raising path through the size setter / set_size writes `_size` (directly or through set_size) -
    # an "unchanged, nothing to do" shortcut compares with the *rendered* size and silently keeps a dynamic size dynamic
    from tiv.cfg import CFG as _CFG4, fmt_path as _fmt4
    for q4 in ("BaseImage.size", "BaseImage.set_size"):
        f4 = m.find(CM, q4)
        ck.expect(f4 is not None, f"{q4} not found")
        if f4 is None:
            continue
        g4 = _CFG4(f4)
        def _writes(n_):
            if n_.ast is None or n_.kind != "stmt" or isinstance(n_.ast, (ast.If, ast.While, ast.For, ast.Try, ast.With)):
                return False
            return any(isinstance(t_, ast.Attribute) and t_.attr == "_size" for t_, _s in stores_in(n_.ast)) or any(
                isinstance(c_, ast.Call) and isinstance(c_.func, ast.Attribute) and c_.func.attr == "set_size" for c_ in ast.walk(n_.ast))
        p4 = g4.search([g4.entry], lambda n_: n_ is g4.exit_return, avoid=_writes, edge_ok=lambda a_, lab, d_: not lab.startswith(("e:", "p:")), from_succ=False)
        ck.ob("R3", f4, p4 is None, f"{q4}: a size can be accepted (normal return) without being stored ({_fmt4(p4) if p4 else ''}): the previous size - possibly a dynamic one - stays in effect although the caller "
              "fixed the size", stmt=f"{q4}: every accepted size is stored")
    from rules.common import rule_renderer_restores_size
    rule_renderer_restores_size(ck, m, "R3")
    reach = [fn for rel, q, fn in m.functions() if fn.name in ("_valid_size", "_render_image", "_get_render_data", "_get_render_size", "_pixels_cols", "_pixels_lines", "_width_height_px", "_get_minimal_render_size")]
    bad = [f"{fn.name}: {short(st, 40)}" for fn in reach for t, st in stores_in(ast.Module(body=fn.body, type_ignores=[])) if isinstance(t, ast.Attribute) and t.attr in ("_size", "size")]
    ck.ob("R3", vs, not bad, f"size computation / rendering functions write the size: {bad}", stmt="_valid_size, renderers and conversions never write the size")

    # ---- R4 ----------------------------------------------------------------------------
    sz = m.get(CM, "Size")
    members = [norm(s.targets[0]) for s in sz.body if isinstance(s, ast.Assign)]
    refs = {n.attr for n in body_walk(vs) if isinstance(n, ast.Attribute) and norm(n.value) == "Size"}
    # (FIT is the fall-through: it needs no mention)
    ck.ob("R4", vs, set(members) - {"FIT"} <= refs <= set(members) and len(members) == 4, f"Size members {members} vs members handled by _valid_size {sorted(refs)}: a mode without a branch silently behaves like FIT", stmt="_valid_size handles every Size member")

    # ---- R5 ----------------------------------------------------------------------------
    auto = next((s for s in body_walk(vs) if isinstance(s, ast.If) and norm(s.test) == "Size.AUTO in (width, height)"), None)
    ori = next((s for s in body_walk(vs) if isinstance(s, ast.If) and norm(s.test) == "Size.ORIGINAL in (width, height)"), None)
    ck.need(auto is not None and ori is not None, "_valid_size: AUTO / ORIGINAL branches not found")
    KEEP = ("frame_width", "frame_height")
    oret = next((x for x in walk_local(ori) if isinstance(x, ast.Return) and isinstance(x.value, ast.Tuple) and len(x.value.elts) == 2), None)
    ck.expect(oret is not None, "_valid_size: ORIGINAL return not recognised")
    if oret is None:
        return
    ow = match_expr("self._pixels_cols(pixels=$w) or 1", trace(vs, oret.value.elts[0], keep=KEEP))
    oh = match_expr("self._pixels_lines(pixels=$h) or 1", trace(vs, oret.value.elts[1], keep=KEEP))
    ck.expect(ow is not None and oh is not None, "_valid_size: ORIGINAL return not recognised")
    cond = next((n.test for n in walk_local(auto) if isinstance(n, ast.IfExp)), None)
    ck.expect(cond is not None, "_valid_size: AUTO decision not recognised")
    if cond is None or ow is None or oh is None:
        return
    dis = {norm(trace(vs, v, keep=KEEP)) for v in flatten_boolop(cond, ast.Or)}
    want = {f"{norm(ow['w'])} > frame_width", f"{norm(oh['h'])} > frame_height"}
    ck.ob("R5", auto, dis == want, f"AUTO must fall back to FIT exactly when the size ORIGINAL would produce exceeds the frame: expected {sorted(want)}; found {sorted(dis)}", stmt="_valid_size: AUTO test == ORIGINAL's pixel size vs frame")
    ie = next((n for n in walk_local(auto) if isinstance(n, ast.IfExp)), None)
    ck.ob("R5", auto, ie is not None and norm(ie.body) == "Size.FIT" and norm(ie.orelse) == "Size.ORIGINAL", "AUTO: FIT when it does not fit, else ORIGINAL", stmt="_valid_size: AUTO -> FIT / ORIGINAL")
    fit = next((s for s in body_walk(vs) if isinstance(s, ast.If) and s.orelse and len(s.body) >= 3 and len(s.body) == len(s.orelse) and "_pixel_ratio" in norm(s.body[0]) and "_pixel_ratio" in norm(s.orelse[0])), None)
    ck.need(fit is not None and fit.orelse, "_valid_size: FIT branches not found")
    mp = {}
    mirror = len(fit.body) == len(fit.orelse) and all(_unify(x, y, mp) for x, y in zip(fit.body, fit.orelse))
    inv = all(mp.get(v, k) == k for k, v in mp.items())        # the renaming is an involution (width <-> height)
    ck.ob("R5", fit, mirror and inv and mp.get("frame_width") == "frame_height",
          "the two FIT branches (width- vs height-constrained) are not mirror images under width<->height (same statements with the roles of the axes exchanged and the pixel ratio inverted)"
          + (f"; renaming found: {mp}" if mirror else ""), stmt="_valid_size: FIT branches mirror each other")
    ck.ob("R5", fit, any(match_expr("min($v, frame_height)", n) is not None for s_ in fit.body for n in ast.walk(s_)), "the adjusted dimension must be clamped to its own frame dimension", stmt="_valid_size: clamp to the matching frame dimension")
    fr = same_bool(vs, fit.test, "frame_height / self._original_size[1] > frame_width / self._original_size[0]")
    ck.ob("R5", vs, bool(fr), "the constraining axis is decided from frame/original ratios per axis", stmt="_valid_size: ratios per axis")

    from rules.c05 import rule_frame_normalisation
    rule_frame_normalisation(ck, m, "R1")

    # float -> cell/pixel conversions in _valid_size go through round() only (int()/floor()/// truncate: ori * (frame / ori) is not exact in floating point)
    conv = sorted({(call_name(c) or "") for c in body_walk(vs) if isinstance(c, ast.Call) and (call_name(c) or "") in ("int", "floor", "ceil", "trunc", "math.floor", "math.ceil", "math.trunc", "round")})
    ck.ob("R5", vs, conv == ["round"], f"_valid_size converts computed (float) dimensions with {conv}; only round() keeps a dimension that is mathematically equal to the frame's from coming out one cell short",
          stmt="_valid_size: float dimensions converted with round() only")
    # ---- shared with C09.R5: a frame cached by ImageIterator follows a dynamic size (keyed by hash(image.rendered_size), re-validated)
    from tiv.report import borrow
    import rules.c09 as c09
    borrow(ck, c09, m, "R3", lambda c: c.endswith("ImageIterator._animate"), rids={"R5"}, min_kept=4)


MUTANTS = [
    M("drop-or-1", CM, "BaseImage._valid_size", "        return (width or 1, height or 1)", "        return (width, height or 1)", {"R1"}),
    M("wrong-axis", CM, "GraphicsImage._pixels_cols", "else cols * (get_cell_size() or (1, 2))[0]", "else cols * (get_cell_size() or (1, 2))[1]", {"R2"}),
    M("block-lines-3", BL, "BlockImage._pixels_lines", "else lines * 2", "else lines * 3", {"R2"}),
    M("drop-restore", CM, "BaseImage._renderer", "            if isinstance(_size, Size):\n                self.size = _size\n", "            pass\n", {"R3"}),
    M("fifth-member", CM, "Size", "    ORIGINAL = Hidden()\n", "    ORIGINAL = Hidden()\n    FIT_TO_HEIGHT = Hidden()\n", {"R4"}),
    M("memoise-rendered-size", CM, "BaseImage", "    rendered_size = property(\n        lambda self: (\n            self._valid_size(self._size, None)\n            if isinstance(self._size, Size)\n            else self._size\n        ),",
      "    rendered_size = property(\n        lambda self: (\n            self._get_rendered_size()\n            if isinstance(self._size, Size)\n            else self._size\n        ),", {"R3"}),
    M("auto-divides", CM, "BaseImage._valid_size", "or round(ori_height * self._pixel_ratio) > frame_height", "or round(ori_height / self._pixel_ratio) > frame_height", {"R5"}),
    M("clamp-wrong-dim", CM, "BaseImage._valid_size", "height_px = min(_height_px, frame_height)", "height_px = min(_height_px, frame_width)", {"R5"}),
    M("size-setter-shortcut", CM, "BaseImage.size", "            self.set_size(*size)\n", "            if size != self.rendered_size:\n                self.set_size(*size)\n", {"R3"}),
    M("helper-rounds-too", CM, "BaseImage._width_height_px", "        return (\n", "        return round(\n", {"R2"}),
    M("twin-rename-local", CM, "BaseImage._valid_size", "smaller_ratio", "min_ratio", twin=True, count=0),
]
