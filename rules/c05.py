"""C05 - padding and alignment place the render exactly, inside exactly the padded size: structural clauses
(DESIGN.md 4, C05). The composed string on a terminal model is not decided."""
from __future__ import annotations

import ast

from tiv.astutil import body_walk, call_name, dotted, enclosing_stmt, guards, norm, short, stores_in, walk_local
from tiv.cfg import CFG, fmt_path
from tiv.mutate import M
from tiv.sem import trace, expand, same, cx
from tiv import emit, affine
from tiv.match import b2s, find_exprs, find_stmts, match_expr, match_stmt
from tiv.affine import NotPoly, diff, equal, parse

RULES = {
    "MEMO": "memo safety (shared, rules/common.py): a memoised function in this property's files (or called from them) is a function of its "
            "arguments only (no terminal/ambient/receiver state outside the key) and no caller mutates its result in place",
    "R1": "relative paddings never reach a computing method: every receiver of get_padded_size/pad/to_exact/_get_exact_dimensions_ in the "
          "renderable/iterator modules is a sanitised padding - resolved by `p.resolve(ts) if isinstance(p, AlignedPadding) and p.relative else p` "
          "(or the equivalent `if`), obtained as the second result of _init_render_, or a field all of whose stores are sanitised",
    "R2": "every computing method of AlignedPadding checks `relative` first (get_padded_size, _get_exact_dimensions_ raise before reading "
          "width/height); Padding.get_padded_size/pad/to_exact obtain the four margins from _get_exact_dimensions_ only",
    "R3": "one definition of 'relative': AlignedPadding.resolve, BaseImage._check_formatting and _valid_size's frame normalise a non-positive "
          "dimension d to max(t + d, 1); AlignedPadding.relative is `not width > 0 < height`; resolve() rebuilds the padding with every other "
          "field (alignments, fill) preserved",
    "R4": "alignment table: _ALIGN_RATIOS has one row per HAlign/VAlign member (0, 1/2, 1 for members 0, 1, 2); left = pad*n//d, right = pad-left "
          "and the same shape for top/bottom (the remainder goes to the far side, sizes add up); the minimum of an axis is compared with the same axis of the render size",
    "R6": "the size advertised for a padded frame is the size pad() produces: the iterator computes its padded size with the stored (resolved) "
          "padding from the size frames are rendered at, and pads after the cache so no frame is padded twice (shared with C08.R6 / C09.R2)",
    "R5": "one source of truth: render(), draw() and the iterator pad iff the padded size (from the same padding and the frame's own size) differs from the render size and pass the unpadded output and size to pad(); the symbolic output shapes of Padding.pad and of the old-API _format_render have, in every case of fill x alignment x which margins are zero, left+right margins = width - cols and top+bottom = height - lines (centre: near = n//2), full-width padding lines, and right-padding / newline / left-padding inside every line break; sizes are never ordered lexicographically (`(w, h) <= (cols, lines)`): per-axis comparisons only",
}
RN, IT, PD, CM = "renderable/_renderable.py", "render/_iterator.py", "padding.py", "image/common.py"
SINKS = {"get_padded_size", "pad", "to_exact", "_get_exact_dimensions_"}


def _is_sanitiser_expr(v, name=None):
    """`X.resolve(...) if isinstance(X, AlignedPadding) and X.relative else X`"""
    if not isinstance(v, ast.IfExp):
        return False
    x = norm(v.orelse)
    if name is not None and x != name:
        return False
    t = norm(v.test)
    return isinstance(v.body, ast.Call) and norm(v.body.func) == f"{x}.resolve" and f"isinstance({x}, AlignedPadding)" in t and f"{x}.relative" in t and " or " not in t


def _is_sanitiser_if(st, name):
    if not isinstance(st, ast.If) or st.orelse:
        return False
    t = norm(st.test)
    if not (f"isinstance({name}, AlignedPadding)" in t and f"{name}.relative" in t and " or " not in t):
        return False
    return len(st.body) == 1 and isinstance(st.body[0], ast.Assign) and norm(st.body[0].targets[0]) == name and norm(st.body[0].value).startswith(f"{name}.resolve(")


def _from_init_render(st, name):
    """`<x>, name = self._init_render_(...)` (padding is the second result)."""
    if not isinstance(st, ast.Assign) or not isinstance(st.value, ast.Call) or not (call_name(st.value) or "").endswith("_init_render_"):
        return False
    t = st.targets[0]
    return isinstance(t, ast.Tuple) and len(t.elts) == 2 and norm(t.elts[1]) == name


def _mentions(items, what) -> bool:
    return any(what in repr(x) for x in items)


def _szp(p_, zero):
    """Re-normalise a count polynomial (monomials are source texts) under `zero` facts and size-attribute canonicalisation."""
    from tiv import affine as _a
    if not p_:
        return {}
    return _a.poly(_szc(ast.parse(_a.show(p_), mode="eval").body), zero)


def _szc(e):
    """`X.width`/`X.columns` -> X[0], `X.height`/`X.lines` -> X[1] for size-like objects (named tuples)."""
    class T(ast.NodeTransformer):
        def visit_Attribute(self, n):
            self.generic_visit(n)
            if n.attr in ("width", "columns") and "size" in norm(n.value):
                return ast.Subscript(value=n.value, slice=ast.Constant(value=0), ctx=ast.Load())
            if n.attr in ("height", "lines") and "size" in norm(n.value):
                return ast.Subscript(value=n.value, slice=ast.Constant(value=1), ctx=ast.Load())
            return n
    from tiv.astutil import clone
    return T().visit(clone(e))


def rule_frame_normalisation(ck, m, rid):
    """_valid_size resolves each frame dimension independently: d if d > 0 else max(terminal d + d, 1) (shared with C04)."""
    vs = m.get(CM, "BaseImage._valid_size")
    norms = [n for n in ast.walk(vs) if isinstance(n, ast.IfExp) and any(isinstance(c, ast.Call) and call_name(c) == "max" for c in ast.walk(n))]
    okv = False
    for n in norms:
        b_ = match_expr("$d if $d > 0 else max($t + $d, 1)", n) or match_expr("max($t + $d, 1) if $d <= 0 else $d", n)
        if b_ is not None:
            # the pair (d, t) must come from zip(frame_size, get_terminal_size())
            par = n._p
            while par is not None and not isinstance(par, (ast.Lambda, ast.GeneratorExp, ast.ListComp, ast.FunctionDef)):
                par = par._p
            src = norm(par._p) if isinstance(par, ast.Lambda) else norm(par)
            okv = "frame_size" in src and "get_terminal_size()" in src
    ck.ob(rid, vs, okv, "_valid_size: frame dimensions must be normalised with max(t + d, 1) over (frame_size, get_terminal_size())", stmt="_valid_size: frame normalisation")


SIZE_NAMES = ("size", "render_size", "rendered_size", "padded_size", "terminal_size", "frame_size", "_size", "_padded_size", "_original_size", "original_size")


def rule_sizes_compared_per_axis(ck, m, rid, rels):
    """An ordering comparison (<, <=, >, >=) between size pairs is lexicographic in Python - `(w, h) <= (cols, lines)` ignores the height
    whenever w < cols. Sizes must be compared per axis. (Tuples of constants - version numbers - are ordered lexicographically on purpose.)"""
    def sizeish(e):
        if isinstance(e, ast.Tuple) and len(e.elts) >= 2:
            return not all(isinstance(x, ast.Constant) for x in e.elts)
        nm = e.attr if isinstance(e, ast.Attribute) else getattr(e, "id", None)
        return nm in SIZE_NAMES
    n_seen = 0
    for rel in rels:
        for q, fn in m.file(rel).defs.items():
            if not isinstance(fn, ast.FunctionDef):
                continue
            for n in body_walk(fn):
                if isinstance(n, ast.Compare) and any(isinstance(o, (ast.Lt, ast.LtE, ast.Gt, ast.GtE)) for o in n.ops):
                    n_seen += 1
                    ops = [n.left] + list(n.comparators)
                    bad = [norm(o) for o in ops if sizeish(o) or sizeish(trace(fn, o, use=n))]
                    # (a version tuple compared with constants is fine)
                    if bad and any(isinstance(o, ast.Tuple) and all(isinstance(x, ast.Constant) for x in o.elts) for o in ops):
                        bad = []
                    # compared with a number: the operand is a scalar that merely has a size-like name (tuple vs int does not even compare)
                    if bad and any(isinstance(o, ast.Constant) and isinstance(o.value, (int, float)) for o in ops):
                        bad = []
                    ck.ob(rid, enclosing_stmt(n), not bad, f"{q}: `{short(n, 60)}` orders size pairs lexicographically (the second dimension is only looked at when the first ones are equal): "
                          "sizes must be compared per axis", stmt=f"{q}: no lexicographic comparison of sizes: {short(n, 50)}")
    ck.expect(n_seen >= 10, f"ordering comparisons scanned: {n_seen}")


def rule_format_render(ck, m, rid):
    """Shape invariants of the old-API padding (shared with C17.R3: the urwid canvas re-derives the same split)."""
    fr = m.get(CM, "BaseImage._format_render")
    COLS, LINES_ = "self.rendered_size[0]", "self.rendered_size[1]"
    sums = emit.summaries(fr)
    ck.expect(len(sums) >= 1, f"_format_render: no return summarised")
    rp = find_exprs("render.replace('\\n', $f)", body_walk(fr))
    ck.expect(len(rp) == 1, "_format_render: `render.replace('\\n', ...)` not recognised")
    n_cases = 0
    # every return (an early `return render` for the unpadded case may be separate) is examined in each of its cases
    for ret, facts0, term in (sums if len(rp) == 1 else []):
        rep_term = emit.Builder(fr).expr(rp[0][1]["f"])
        cs = emit.cases(term, facts0, limit=8)
        ck.expect(cs is not None, "_format_render: too many free conditions")
        sp = lambda a_: isinstance(a_, emit.Lit) and a_.text == " "

        def P(src):
            return affine.poly(ast.parse(src, mode="eval").body)
        for f, t in cs or []:
            wide, tall = f.get(f"width > {COLS}"), f.get(f"height > {LINES_}")
            if wide is None or tall is None or not (wide or tall):
                continue
            its = t.items if isinstance(t, emit.Seq) else [t]
            k = next((i for i, x in enumerate(its) if isinstance(x, emit.Sym) and x.text.startswith("render")), None)
            ck.expect(k is not None, f"_format_render: the render text is not a top-level fragment of the output shape `{repr(t)[:120]}`")
            if k is None:
                continue
            n_cases += 1
            tag = ", ".join(f"{a_}={b_}" for a_, b_ in sorted(f.items()))
            pre, post = its[:k], its[k + 1:]
            has_nl = lambda x: any(emit.is_nl(a_) for a_ in emit.atoms(x))
            top, left = emit.Seq([x for x in pre if has_nl(x)]), emit.Seq([x for x in pre if not has_nl(x)])
            bottom, right = emit.Seq([x for x in post if has_nl(x)]), emit.Seq([x for x in post if not has_nl(x)])
            nl_, nr_ = emit.count(left, sp), emit.count(right, sp)
            nt_, nb_ = emit.count(top, emit.is_nl), emit.count(bottom, emit.is_nl)
            ck.expect(None not in (nl_, nr_, nt_, nb_), f"_format_render: padding amounts not determined in case [{tag}]")
            if None in (nl_, nr_, nt_, nb_):
                continue
            if wide:
                n = P(f"width - {COLS}")
                ok = affine._add(nl_, nr_) == n
                if f.get("h_align == '<'"):
                    ok = ok and not nl_
                elif f.get("h_align == '>'"):
                    ok = ok and not nr_
                else:
                    ok = ok and nl_ == P(f"(width - {COLS}) // 2")
                ck.ob(rid, ret, ok, f"_format_render [{tag}]: left + right padding must be width - cols (left aligned: all right; right aligned: all left; centred: left = n//2, right = n - left); "
                      f"found left={affine.show(nl_)}, right={affine.show(nr_)}", stmt=f"_format_render: horizontal split [{tag}]")
                rt_ = emit.specialise(rep_term, f)
                rits = rt_.items if isinstance(rt_, emit.Seq) else [rt_]
                kk = next((i for i, x in enumerate(rits) if emit.is_nl(x)), None)
                okr = kk is not None and sum(1 for x in rits if emit.is_nl(x)) == 1 and repr(emit.Seq(rits[:kk])) == repr(right) and repr(emit.Seq(rits[kk + 1:])) == repr(left)
                ck.ob(rid, ret, okr, f"_format_render [{tag}]: every line gets the right padding before and the left padding after its newline; found `{repr(rt_)[:100]}`", stmt=f"_format_render: per-line padding [{tag}]")
            else:
                ck.ob(rid, ret, not nl_ and not nr_, f"_format_render [{tag}]: no horizontal padding when the width is not larger", stmt=f"_format_render: no horizontal padding [{tag}]")
            if tall:
                n = P(f"height - {LINES_}")
                ok = affine._add(nt_, nb_) == n
                if f.get("v_align == '^'"):
                    ok = ok and not nt_
                elif f.get("v_align == '_'"):
                    ok = ok and not nb_
                else:
                    ok = ok and nt_ == P(f"(height - {LINES_}) // 2")
                st_, sb_ = emit.count(top, sp), emit.count(bottom, sp)
                ok = ok and st_ == affine._mul(nt_, P("width")) and sb_ == affine._mul(nb_, P("width"))
                ck.ob(rid, ret, ok, f"_format_render [{tag}]: top + bottom padding lines must be height - lines, each `width` spaces wide (top aligned: all below; bottom: all above; middle: top = n//2); "
                      f"found top={affine.show(nt_)}, bottom={affine.show(nb_)}", stmt=f"_format_render: vertical split [{tag}]")
            else:
                ck.ob(rid, ret, not nt_ and not nb_, f"_format_render [{tag}]: no vertical padding when the height is not larger", stmt=f"_format_render: no vertical padding [{tag}]")
    ck.expect(n_cases >= 12, f"_format_render: expected >= 12 padded cases, found {n_cases}")
    rule_sizes_compared_per_axis(ck, m, rid, (CM,))


def run(ck, m):
    from rules.common import rule_memo_safety
    rule_memo_safety(ck, m, "MEMO", "C05")          # first: a memoised helper also hides the code it wraps from the rules below
    # summary of _init_render_: its second result is sanitised
    ir = m.variants(RN, "Renderable._init_render_")[-1]
    rets = [r for r in body_walk(ir) if isinstance(r, ast.Return)]
    ok_sum = len(rets) == 1 and isinstance(rets[0].value, ast.Tuple) and len(rets[0].value.elts) == 2 and norm(rets[0].value.elts[1]) == "padding"
    san = [s for s in body_walk(ir) if _is_sanitiser_if(s, "padding")]
    other = [st for t, st in stores_in(ast.Module(body=ir.body, type_ignores=[])) if isinstance(t, ast.Name) and t.id == "padding" and not any(st in s.body for s in san)]
    ck.ob("R1", ir, ok_sum and len(san) == 1 and not other and san[0].lineno < rets[0].lineno,
          "summary: _init_render_ must return its (resolved) `padding` as second result, resolved by the single sanitising `if`, with no other rebinding", stmt="_init_render_: second result is the sanitised padding")
    n_sinks = 0
    for rel, q, fn in m.functions():
        if rel not in (RN, IT):
            continue
        if True:
            for c in body_walk(fn):
                if not (isinstance(c, ast.Call) and isinstance(c.func, ast.Attribute) and c.func.attr in SINKS):
                    continue
                recv = c.func.value
                rsrc = norm(recv)
                if rsrc in ("self", "super()") or rel == PD:
                    continue
                n_sinks += 1
                st = enclosing_stmt(c)
                if isinstance(recv, ast.Name):
                    name = recv.id
                    params = {a.arg for a in fn.args.args + fn.args.kwonlyargs}
                    g = CFG(fn)
                    nodes = g.nodes_of(st) or g.nodes_of(c)
                    ck.need(nodes, f"{q}: CFG node for sink {short(c)} not found")

                    def clean(n, name=name):
                        if n.ast is None:
                            return False
                        a = n.ast
                        if n.kind == "stmt" and isinstance(a, ast.Assign):
                            if _from_init_render(a, name):
                                return True
                            if norm(a.targets[0]) == name and _is_sanitiser_expr(a.value):
                                return True
                            if norm(a.targets[0]) == name and norm(a.value).startswith(f"{name}.resolve(") and any(
                                    _is_sanitiser_if(s, name) and a in s.body for s in body_walk(fn)):
                                return True
                        if n.kind == "test" and any(_is_sanitiser_if(s, name) and s.test is a for s in body_walk(fn)):
                            return True  # both outcomes of the sanitising test are clean (resolved, or not relative)
                        return False
                    protected_param = name in params and fn.name.startswith("_") and fn.name.endswith("_") and fn.name not in ("_init_render_",)
                    ok = all(g.dominated_by(n, clean, edge_ok=lambda s, lab, d: not lab.startswith(("e:", "p:"))) for n in nodes)
                    if not ok and protected_param:
                        # extension method: every in-package call site must pass a sanitised value
                        sites = []
                        for rel2, q2, f2 in m.functions():
                            for c2 in body_walk(f2):
                                if isinstance(c2, ast.Call) and (call_name(c2) or "").split(".")[-1] == fn.name and (call_name(c2) or "") != f"super().{fn.name}":
                                    idx = [a.arg for a in fn.args.args].index(name) - 1
                                    arg = c2.args[idx] if idx < len(c2.args) else None
                                    g2 = CFG(f2)
                                    an = norm(arg) if arg is not None else None
                                    n2 = g2.nodes_of(enclosing_stmt(c2))
                                    ok2 = isinstance(arg, ast.Name) and all(g2.dominated_by(x, lambda n, an=an: n.kind == "stmt" and isinstance(n.ast, ast.Assign) and _from_init_render(n.ast, an),
                                                                                            edge_ok=lambda s, lab, d: not lab.startswith(("e:", "p:"))) for x in n2)
                                    sites.append((q2, ok2))
                        ok = bool(sites) and all(o for _, o in sites)
                        ck.ob("R1", st, ok, f"{q}: `{rsrc}` is a parameter of an extension method; call sites {sites} must all pass a sanitised padding", stmt=f"{q}: {short(c, 70)} (via call sites)")
                    else:
                        ck.ob("R1", st, ok,
                              f"{q}: `{rsrc}.{c.func.attr}(...)` may receive a terminal-relative padding (no resolving step dominates this use): AlignedPadding raises "
                              f"RelativePaddingDimensionError here", stmt=f"{q}: {short(c, 70)}")
                else:
                    # a field: all stores to it in the module must be sanitised
                    attr = rsrc.split(".")[-1]
                    stores = []
                    for _r, _q, t, s2 in m.stores(rel):
                        if isinstance(t, ast.Attribute) and t.attr == attr:
                            stores.append((t, s2))
                    def store_ok(t, s2):
                        if isinstance(s2, ast.Assign) and _is_sanitiser_expr(s2.value):
                            return True
                        if isinstance(s2, ast.Assign) and isinstance(s2.targets[0], ast.Tuple) and isinstance(s2.value, ast.Call) and (call_name(s2.value) or "").endswith("_init_render_") \
                                and len(s2.targets[0].elts) == 2 and s2.targets[0].elts[1] is t:
                            return True
                        return False
                    bad = [short(s2, 60) for t, s2 in stores if not store_ok(t, s2)]
                    ck.ob("R1", st, bool(stores) and not bad, f"{q}: the receiver `{rsrc}` can hold an unresolved padding: unsanitised stores {bad}", stmt=f"{q}: {short(c, 70)} (field {attr})")
    ck.expect(n_sinks >= 10, f"expected >= 10 padding sinks in the renderable/iterator modules, found {n_sinks}")

    # ---- R2 ----------------------------------------------------------------------------
    for meth in ("get_padded_size", "_get_exact_dimensions_"):
        f = m.get(PD, f"AlignedPadding.{meth}")
        b = [s for s in f.body if not (isinstance(s, ast.Expr) and isinstance(s.value, ast.Constant))]
        ok = isinstance(b[0], ast.If) and norm(b[0].test) == "self.relative" and isinstance(b[0].body[0], ast.Raise) and "RelativePaddingDimensionError" in norm(b[0].body[0])
        ck.ob("R2", f, ok, f"AlignedPadding.{meth} must raise RelativePaddingDimensionError under `self.relative` before computing", stmt=f"AlignedPadding.{meth}: relative guard first")
    for meth in ("get_padded_size", "pad", "to_exact"):
        f = m.get(PD, f"Padding.{meth}")
        cs = [c for c in body_walk(f) if isinstance(c, ast.Call) and norm(c.func) == "self._get_exact_dimensions_"]
        ck.ob("R2", f, len(cs) == 1 and norm(cs[0].args[0]) == "render_size", f"Padding.{meth} must obtain the margins from self._get_exact_dimensions_(render_size)", stmt=f"Padding.{meth}: margins from _get_exact_dimensions_")
    gp = m.get(PD, "Padding.get_padded_size")
    rt = [r for r in body_walk(gp) if isinstance(r, ast.Return) and isinstance(r.value, ast.Call) and len(r.value.args) == 2]
    ck.expect(len(rt) == 1, "Padding.get_padded_size: `return <Size>(w, h)` not recognised")
    if len(rt) == 1:
        D = "self._get_exact_dimensions_(render_size)"
        try:
            okw = equal(_szc(trace(gp, rt[0].value.args[0])), parse(f"{D}[0] + render_size[0] + {D}[2]"))
            okh = equal(_szc(trace(gp, rt[0].value.args[1])), parse(f"{D}[1] + render_size[1] + {D}[3]"))
        except NotPoly:
            okw = okh = False
        ck.ob("R2", rt[0], okw and okh, f"padded size must be (left+width+right, top+height+bottom); found `{short(rt[0].value, 70)}`", stmt="Padding.get_padded_size formula")
    ag = m.get(PD, "AlignedPadding.get_padded_size")
    rt = [r for r in body_walk(ag) if isinstance(r, ast.Return) and isinstance(r.value, ast.Call) and len(r.value.args) == 2]
    ok = len(rt) == 1 and all(match_expr(pat, _szc(trace(ag, a))) is not None or match_expr(pat2, _szc(trace(ag, a))) is not None for a, pat, pat2 in (
        (rt[0].value.args[0], "max(self.width, render_size[0])", "max(render_size[0], self.width)"), (rt[0].value.args[1], "max(self.height, render_size[1])", "max(render_size[1], self.height)")))
    ck.ob("R2", rt[0] if rt else ag, ok, "AlignedPadding.get_padded_size must be the per-axis max of minimum and render size", stmt="AlignedPadding.get_padded_size formula")

    # ---- R3 ----------------------------------------------------------------------------
    rv = m.get(PD, "AlignedPadding.resolve")
    ret = [r for r in body_walk(rv) if isinstance(r, ast.Return) and isinstance(r.value, ast.Call) and norm(r.value.func) == "type(self)"]
    ck.need(len(ret) == 1, "AlignedPadding.resolve: `return type(self)(...)` not found")
    rcall = ret[0].value
    ck.expect(len(rcall.args) >= 2 and not isinstance(rcall.args[0], ast.Starred) and not isinstance(rcall.args[1], ast.Starred), "AlignedPadding.resolve: width/height arguments of the rebuilt padding not recognised")
    if len(rcall.args) >= 2 and not isinstance(rcall.args[0], ast.Starred) and not isinstance(rcall.args[1], ast.Starred):
        for i, (d, alt) in enumerate((("width", "self.width"), ("height", "self.height"))):
            got = trace(rv, rcall.args[i])
            oks = False
            for dsrc in (f"astuple(self)[{i}]", alt):
                want = f"{dsrc} if {dsrc} > 0 else max(terminal_size[{i}] + {dsrc}, 1)"
                oks = oks or cx(_szc(got)) == cx(ast.parse(want, mode="eval").body)
            ck.ob("R3", ret[0], oks, f"resolve: `{d}` must become max(terminal {d} + {d}, 1) when <= 0 and stay otherwise; found `{norm(got)[:120]}`", stmt=f"resolve: {d}")
    cfm = m.get(CM, "BaseImage._check_formatting")
    rts = [r for r in body_walk(cfm) if isinstance(r, ast.Return) and isinstance(r.value, ast.Tuple) and len(r.value.elts) == 4]
    ck.expect(len(rts) == 1, "_check_formatting: `return h_align, width, v_align, height` not recognised")
    if len(rts) == 1:
        for d, t, i in (("width", "columns", 1), ("height", "lines", 3)):
            got = trace(cfm, rts[0].value.elts[i])
            want = f"{d}__0 if {d}__0 > 0 else max(get_terminal_size().{t} + {d}__0, 1)"
            ck.ob("R3", rts[0], cx(got) == cx(ast.parse(want, mode="eval").body), f"_check_formatting: `{d}` must become max(terminal_size.{t} + {d}, 1) when <= 0; found `{norm(got)[:110]}`", stmt=f"_check_formatting: {d}")
    rule_frame_normalisation(ck, m, "R3")
    ai = m.get(PD, "AlignedPadding.__init__")
    ck.ob("R3", ai, "_setattr('relative', not width > 0 < height)" in norm(ai), "AlignedPadding.relative must be `not width > 0 < height`", stmt="AlignedPadding.relative definition")
    # resolve() preserves the other fields
    params = [a.arg for a in ai.args.args][1:]
    call = rcall
    passed = set()
    star_ok = False
    for i, a in enumerate(call.args):
        if isinstance(a, ast.Starred):
            # *rest from `width, height, *rest, _ = astuple(self)`: everything between (width, height) and the trailing `relative`
            if norm(trace(rv, a.value)) == "astuple(self)[2:-1]" and i == 2:
                star_ok = True
        elif i < len(params):
            passed.add(params[i])
            if isinstance(a, ast.Attribute) and norm(a.value) == "self":
                passed.add(a.attr)
    for k in call.keywords:
        passed.add(k.arg)
    missing = [p for p in params if p not in passed] if not star_ok else []
    ck.ob("R3", ret[0], not missing, f"resolve() rebuilds the padding without {missing}: a resolved padding silently loses them (e.g. a non-default fill)", stmt="resolve: all other fields preserved")
    cls = m.get(PD, "AlignedPadding")
    slots = next((s for s in cls.body if isinstance(s, ast.Assign) and norm(s.targets[0]) == "__slots__"), None)
    fields = [s.target.id for s in cls.body if isinstance(s, ast.AnnAssign) and isinstance(s.target, ast.Name)]
    ck.ob("R3", cls, fields == ["width", "height", "h_align", "v_align", "fill", "relative"], f"AlignedPadding field order {fields} no longer matches what resolve()/_get_exact_dimensions_ unpack from astuple()", stmt="AlignedPadding: dataclass field order")

    # ---- R4 ----------------------------------------------------------------------------
    tab = next((s for s in m.tree(PD).body if isinstance(s, ast.Assign) and norm(s.targets[0]) == "_ALIGN_RATIOS"), None)
    ck.need(tab is not None, "_ALIGN_RATIOS not found")
    rows = ast.literal_eval(tab.value)
    for en in ("HAlign", "VAlign"):
        c = m.get(PD, en)
        mem = [s for s in c.body if isinstance(s, ast.Assign)]
        vals = []
        cur = None
        for s in mem:
            if isinstance(s.value, ast.Constant):
                cur = s.value.value
            elif isinstance(s.value, ast.Call) and call_name(s.value) == "auto":
                cur = (cur + 1) if cur is not None else 1
            vals.append(cur)
        ck.ob("R4", c, vals == [0, 1, 2] and len(rows) == 3, f"{en} members {vals} must index the 3 rows of _ALIGN_RATIOS", stmt=f"{en}: members 0,1,2 index the table")
    from fractions import Fraction
    ok = [Fraction(*r) for r in rows] == [Fraction(0), Fraction(1, 2), Fraction(1)]
    ck.ob("R4", tab, ok, f"_ALIGN_RATIOS {rows} must be 0, 1/2, 1 for near/centre/far alignment", stmt="_ALIGN_RATIOS rows")
    ge = m.get(PD, "AlignedPadding._get_exact_dimensions_")
    rets = [r for r in body_walk(ge) if isinstance(r, ast.Return) and isinstance(r.value, ast.Tuple) and len(r.value.elts) == 4]
    ck.expect(len(rets) == 1, "_get_exact_dimensions_: `return left, top, right, bottom` not recognised")
    if len(rets) == 1:
        comp = [trace(ge, e_) for e_ in rets[0].value.elts]
        A = "astuple(self)[:4]"
        for axis, mi, ri, ali, near_i, far_i in (("horizontal", 0, 0, 2, 0, 2), ("vertical", 1, 1, 3, 1, 3)):
            mn, rs, al = f"{A}[{mi}]", f"render_size[{ri}]", f"{A}[{ali}]"
            near, far = comp[near_i], comp[far_i]
            # (the dataclass fields may be read through astuple(self) or by name; the test may be written in either polarity)
            MIN_ = {mn, "self.width" if mi == 0 else "self.height"}
            ALN_ = {al, "self.h_align" if mi == 0 else "self.v_align"}
            def _amount(e_):
                """{'N': amount} when e_ is `amount if <minimum> > <render size of this axis> else 0` in any spelling; 'AXIS' when it tests the other axis"""
                if not (isinstance(e_, ast.IfExp) and isinstance(e_.test, ast.Compare) and len(e_.test.ops) == 1):
                    return None
                l_, r_, op_ = norm(e_.test.left), norm(e_.test.comparators[0]), type(e_.test.ops[0])
                zero_b, zero_o = (isinstance(e_.body, ast.Constant) and e_.body.value == 0), (isinstance(e_.orelse, ast.Constant) and e_.orelse.value == 0)
                other_rs = f"render_size[{1 - ri}]"
                if {l_, r_} & MIN_ and other_rs in (l_, r_):
                    return "AXIS"
                pos = (l_ in MIN_ and r_ == rs and op_ is ast.Gt) or (l_ == rs and r_ in MIN_ and op_ is ast.Lt)
                neg = (l_ in MIN_ and r_ == rs and op_ is ast.LtE) or (l_ == rs and r_ in MIN_ and op_ is ast.GtE)
                if pos and zero_o:
                    return {"N": e_.body}
                if neg and zero_b:
                    return {"N": e_.orelse}
                return None
            bn, bf = _amount(near), _amount(far)
            if bn == "AXIS" or bf == "AXIS":
                ck.ob("R4", rets[0], False, f"{axis}: the margin is decided by comparing the minimum {'width' if mi == 0 else 'height'} with the render's {'height' if mi == 0 else 'width'} "
                      f"(`{norm((near if bn == 'AXIS' else far).test)[:70]}`): for a non-square render the padding is computed against the wrong axis", stmt=f"_get_exact_dimensions_[{axis}]: minimum compared with the same axis of the render size")
                continue
            bf = {"F": bf["N"]} if isinstance(bf, dict) else None
            ck.expect(bn is not None and bf is not None, f"_get_exact_dimensions_[{axis}]: margins are not `<amount> if <minimum> > <render size> else 0` (near `{norm(near)[:90]}`)")
            if bn is None or bf is None:
                continue
            N, F = bn["N"], bf["F"]
            bb = match_expr("$pad * $n // $d", N)
            ck.ob("R4", rets[0], bb is not None and any(norm(bb["n"]) == f"_ALIGN_RATIOS[{a_}][0]" and norm(bb["d"]) == f"_ALIGN_RATIOS[{a_}][1]" for a_ in ALN_),
                  f"{axis}: near margin must be pad * n // d with (n, d) = _ALIGN_RATIOS[<{'h' if mi == 0 else 'v'}_align>]; found `{norm(N)[:110]}`", stmt=f"_get_exact_dimensions_[{axis}]: near = pad*n//d, ratio row from alignment")
            if bb is None:
                continue
            try:
                okp = any(equal(bb["pad"], parse(f"{m_} - {rs}")) for m_ in MIN_)
            except NotPoly:
                okp = False
            ck.ob("R4", rets[0], okp, f"{axis}: the amount to distribute must be <minimum> - <render size>; found `{norm(bb['pad'])[:80]}`", stmt=f"_get_exact_dimensions_[{axis}]: amount")
            try:
                okf = equal(F, ast.BinOp(left=bb["pad"], op=ast.Sub(), right=N))
                dtxt = diff(F, ast.BinOp(left=bb["pad"], op=ast.Sub(), right=N))
            except NotPoly:
                okf, dtxt = False, "?"
            ck.ob("R4", rets[0], okf, f"{axis}: far margin must be pad - near so that the margins add up to the amount; found `{norm(F)[:90]}` (differs by {dtxt})", stmt=f"_get_exact_dimensions_[{axis}]: far = pad - near")

    # ---- R5 ----------------------------------------------------------------------------
    for q in ("Renderable.render", "Renderable.draw"):
        f = m.get(RN, q)
        pads = [c for c in body_walk(f) if isinstance(c, ast.Call) and isinstance(c.func, ast.Attribute) and c.func.attr == "pad" and len(c.args) == 2]
        ck.expect(len(pads) == 1, f"{q}: the single `<padding>.pad(output, size)` call not recognised")
        if len(pads) != 1:
            continue
        c = pads[0]
        P_, a0, a1 = norm(trace(f, c.func.value)), trace(f, c.args[0]), trace(f, c.args[1])
        b0 = match_expr("$F.render_output", a0)
        ck.ob("R5", enclosing_stmt(c), b0 is not None and norm(a1) == f"{norm(b0['F'])}.render_size", f"{q}: pad() must receive the unpadded output and the unpadded size of the same frame; found ({norm(a0)[:60]}, {norm(a1)[:60]})",
              stmt=f"{q}: pad(frame.render_output, frame.render_size)")
        if b0 is None:
            continue
        F_ = norm(b0["F"])
        want = cx(ast.parse(f"{F_}.render_size == {P_}.get_padded_size({F_}.render_size)", mode="eval").body)
        gs = [(t, b_) for t, b_ in guards(c) if "render_size" in norm(trace(f, t)) or "padded" in norm(t)]
        ck.ob("R5", enclosing_stmt(c), len(gs) == 1 and gs[0][1] is False and cx(trace(f, gs[0][0])) == want,
              f"{q}: the frame is padded iff its padded size (from the same padding and the frame's own size) differs from its render size; found condition(s) {[(norm(trace(f, t))[:90], b_) for t, b_ in gs]}",
              stmt=f"{q}: pads iff sizes differ, padded size computed from the frame")
    rule_format_render(ck, m, "R5")
    rule_sizes_compared_per_axis(ck, m, "R5", (PD, RN, IT))
    pp = m.get(PD, "Padding.pad")
    sums = emit.summaries(pp)
    rp = find_exprs("render.replace('\\n', $f)", body_walk(pp))
    ck.expect(len(sums) >= 1 and len(rp) == 1, "Padding.pad: returns / `render.replace('\\n', ...)` not recognised")
    n_cases = 0
    if len(sums) >= 1 and len(rp) == 1:
        rep_term = emit.Builder(pp).expr(rp[0][1]["f"])
        D = "self._get_exact_dimensions_(render_size)"
        allcases = []
        for ret_, facts0, term in sums:
            cs = emit.cases(term, facts0, limit=6)
            ck.expect(cs is not None, "Padding.pad: too many free conditions")
            allcases += [(ret_, f, t) for f, t in cs or []]
        for ret, f, t in allcases:
            its = t.items if isinstance(t, emit.Seq) else [t]
            k = next((i for i, x in enumerate(its) if isinstance(x, emit.Sym) and x.text.startswith("render")), None)
            if len(its) == 1 and k == 0:
                # returned unchanged: only legitimate when all four margins are zero
                ck.ob("R5", ret, all(f.get(f"{D}[{i}]") is False for i in range(4)), f"Padding.pad returns the render unpadded although a margin may be non-zero (case {f})", stmt="Padding.pad: unpadded only when all margins are 0")
                continue
            ck.expect(k is not None, f"Padding.pad: the render text is not a top-level fragment of `{repr(t)[:120]}`")
            if k is None:
                continue
            n_cases += 1
            zero = {f"{D}[{i}]": ast.Constant(value=0) for i in range(4) if f.get(f"{D}[{i}]") is False}

            def P(src):
                return affine.poly(_szc(ast.parse(src, mode="eval").body), zero)

            def Pz(p_):   # re-normalise a count polynomial under the zero facts
                return affine.poly(ast.parse(affine.show(p_) or "0", mode="eval").body, zero) if p_ else {}
            tag = ", ".join(f"{a_.replace(D, 'D')}={b_}" for a_, b_ in sorted(f.items()))
            pre, post = its[:k], its[k + 1:]
            has_nl = lambda x: any(emit.is_nl(a_) for a_ in emit.atoms(x))
            top, left = emit.Seq([x for x in pre if has_nl(x)]), emit.Seq([x for x in pre if not has_nl(x)])
            bottom, right = emit.Seq([x for x in post if has_nl(x)]), emit.Seq([x for x in post if not has_nl(x)])
            fill = f.get("self.fill")
            ck.expect(fill is not None, f"Padding.pad: `self.fill` is not a condition of the output shape [{tag}]")
            if fill is None:
                continue
            W = f"{D}[0] + render_size[0] + {D}[2]"
            nt_, nb_ = emit.count(top, emit.is_nl), emit.count(bottom, emit.is_nl)
            if fill:
                isf = lambda a_: isinstance(a_, emit.Sym) and a_.text == "self.fill"
                cnt = [emit.count(x, isf) for x in (left, right, top, bottom)]
                ck.expect(None not in cnt and nt_ is not None and nb_ is not None, f"Padding.pad: fill counts not determined [{tag}]")
                if None in cnt or nt_ is None or nb_ is None:
                    continue
                cl, cr, ct, cb = [_szp(c_, zero) for c_ in cnt]
                ok = cl == P(f"{D}[0]") and cr == P(f"{D}[2]") and _szp(nt_, zero) == P(f"{D}[1]") and _szp(nb_, zero) == P(f"{D}[3]") and ct == P(f"({D}[1]) * ({W})") and cb == P(f"({D}[3]) * ({W})")
                ck.ob("R5", ret, ok, f"Padding.pad [{tag}]: with a fill string the output must have `left` fills before and `right` fills after every line, `top` lines above and `bottom` lines below, "
                      f"each left+width+right fills wide; found left={affine.show(cl)}, right={affine.show(cr)}, top lines={affine.show(nt_)}, bottom lines={affine.show(nb_)}", stmt=f"Padding.pad: margins with fill [{tag}]")
            else:
                def cuf(seg):
                    return [a_.text for a_ in emit.atoms(seg) if isinstance(a_, emit.Sym) and a_.text.startswith("cursor_forward(")]

                def arg_is(txt, want):
                    try:
                        return affine.poly(_szc(ast.parse(txt, mode="eval").body.args[0]), zero) == P(want)
                    except Exception:
                        return False
                okl = (len(cuf(left)) == 1 and arg_is(cuf(left)[0], f"{D}[0]")) or (not cuf(left) and f.get(f"{D}[0]") is False)
                okr_ = (len(cuf(right)) == 1 and arg_is(cuf(right)[0], f"{D}[2]")) or (not cuf(right) and f.get(f"{D}[2]") is False)
                ct = emit.count(top, lambda a_: isinstance(a_, emit.Sym) and a_.text.startswith("cursor_forward(") and arg_is(a_.text, W))
                cb = emit.count(bottom, lambda a_: isinstance(a_, emit.Sym) and a_.text.startswith("cursor_forward(") and arg_is(a_.text, W))
                ck.expect(None not in (ct, cb, nt_, nb_), f"Padding.pad: line counts not determined [{tag}]")
                if None in (ct, cb, nt_, nb_):
                    continue
                ok = okl and okr_ and _szp(nt_, zero) == P(f"{D}[1]") and _szp(nb_, zero) == P(f"{D}[3]") and _szp(ct, zero) == P(f"{D}[1]") and _szp(cb, zero) == P(f"{D}[3]")
                ck.ob("R5", ret, ok, f"Padding.pad [{tag}]: without fill the margins are cursor movements: CUF left before and CUF right after every line, `top`/`bottom` lines each CUF (left+width+right); "
                      f"found left={cuf(left)}, right={cuf(right)}, top lines={affine.show(nt_)}, bottom lines={affine.show(nb_)}", stmt=f"Padding.pad: margins without fill [{tag}]")
            if emit.truth(ast.parse(f"{D}[0] or {D}[2]", mode="eval").body, f):
                hz = next((x for x in its[k:k + 1]), None)
                ck.ob("R5", ret, isinstance(hz, emit.Sym) and hz.text.startswith(("render.replace(", "render__0.replace(")), f"Padding.pad [{tag}]: with a horizontal margin every line (not only the first/last) must be padded", stmt=f"Padding.pad: inner lines padded [{tag}]")
                rt_ = emit.specialise(rep_term, f)
                rits = rt_.items if isinstance(rt_, emit.Seq) else [rt_]
                kk = next((i for i, x in enumerate(rits) if emit.is_nl(x)), None)
                okp = kk is not None and sum(1 for x in rits if emit.is_nl(x)) == 1 and repr(emit.Seq(rits[:kk])) == repr(right) and repr(emit.Seq(rits[kk + 1:])) == repr(left)
                ck.ob("R5", ret, okp, f"Padding.pad [{tag}]: per-line right/left padding around each newline; found `{repr(rt_)[:100]}`", stmt=f"Padding.pad: per-line padding [{tag}]")
    ck.expect(n_cases >= 4, f"Padding.pad: expected >= 4 padded cases, found {n_cases}")

    from rules.c08 import rule_padded_size_maintained
    from rules.c09 import rule_padding_after_cache
    rule_padded_size_maintained(ck, m, "R6")
    rule_padding_after_cache(ck, m, "R6")



MUTANTS = [
    M("revert-fix-set-padding", IT, "RenderIterator.set_padding", "self._padding.get_padded_size(self._renderable_data.size)", "padding.get_padded_size(self._renderable_data.size)", {"R1"}),
    M("unsanitised-field-store", IT, "RenderIterator._from_render_data_",
      "        new._padding = (\n            padding.resolve(get_terminal_size())\n            if isinstance(padding, AlignedPadding) and padding.relative\n            else padding\n        )", "        new._padding = padding", {"R1"}),
    M("raw-param-at-sink", RN, "Renderable.render", "frame, padding = self._init_render_(self._render_, render_args, padding)", "frame, _ = self._init_render_(self._render_, render_args, padding)", {"R1"}),
    M("drop-relative-guard", PD, "AlignedPadding._get_exact_dimensions_", "        if self.relative:\n            raise RelativePaddingDimensionError(\"Relative minimum render dimension(s)\")\n", "", {"R2"}),
    M("clamp-zero", PD, "AlignedPadding.resolve", "width = max(terminal_width + width, 1)", "width = max(terminal_width + width, 0)", {"R3"}),
    M("resolve-loses-fill-2", PD, "AlignedPadding.resolve", "        return type(self)(width, height, *args)", "        return type(self)(width, height, self.h_align, self.v_align)", {"R3"}),
    M("swap-table-rows", PD, None, "_ALIGN_RATIOS = ((0, 1), (1, 2), (1, 1))", "_ALIGN_RATIOS = ((0, 1), (1, 1), (1, 2))", {"R4"}),
    M("right-off-by-one", PD, "AlignedPadding._get_exact_dimensions_", "right = padding_width - left", "right = padding_width - left - 1", {"R4"}),
    M("pad-with-padded-size", RN, "Renderable.render", "padding.pad(frame.render_output, frame.render_size)", "padding.pad(frame.render_output, padded_size)", {"R5"}),
    M("pad-left-uses-right", PD, "Padding.pad", "left_padding = fill * left", "left_padding = fill * right", {"R5"}),
    M("pad-top-uses-bottom", PD, "Padding.pad", "top_padding = f\"{cursor_forward(width)}\\n\" * top if top else \"\"", "top_padding = f\"{cursor_forward(width)}\\n\" * bottom if top else \"\"", {"R5"}),
    M("pad-line-width", PD, "Padding.pad", "width = left + render_size.width + right", "width = left + render_size.width", {"R5"}),
    M("pad-inner-lines-swapped", PD, "Padding.pad", "f\"{right_padding}\\n{left_padding}\"", "f\"{left_padding}\\n{right_padding}\"", {"R5"}),
    M("format-render-centre-right", CM, "BaseImage._format_render", "right = \" \" * (width - cols - len(left))", "right = \" \" * ((width - cols) // 2)", {"R5"}),
    M("format-render-top-bottom", CM, "BaseImage._format_render", "bottom = height - lines - top", "bottom = height - lines", {"R5"}),
    M("lexicographic-size-check", RN, "Renderable._init_render_#4", "if not allow_scroll and height > terminal_height:", "if not allow_scroll and (width, height) > (terminal_width, terminal_height):", {"R5"}),
    M("lexicographic-padded-size", RN, "Renderable._init_render_#4", "                if width > terminal_width:\n", "                if padding and padding.get_padded_size(render_size) > terminal_size:\n", {"R5"}),
    M("twin-far-regrouped", PD, "AlignedPadding._get_exact_dimensions_", "right = padding_width - left", "right = -left + padding_width", twin=True),
    M("twin-rename-locals", PD, "AlignedPadding._get_exact_dimensions_", "numerator", "num", twin=True, count=0),
    M("twin-resolve-explicit", PD, "AlignedPadding.resolve", "        return type(self)(width, height, *args)", "        return type(self)(width, height, self.h_align, self.v_align, self.fill)", twin=True),
]
