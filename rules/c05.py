"""C05 - padding and alignment place the render exactly, inside exactly the padded size: structural clauses
(DESIGN.md 4, C05). The composed string on a terminal model is not decided."""
from __future__ import annotations

import ast

from tiv.astutil import body_walk, call_name, dotted, enclosing_stmt, guards, norm, short, stores_in, walk_local
from tiv.cfg import CFG, fmt_path
from tiv.mutate import M
from tiv.match import b2s, find_exprs, find_stmts, match_expr, match_stmt
from tiv.affine import NotPoly, diff, equal, parse

RULES = {
    "R1": "relative paddings never reach a computing method: every receiver of get_padded_size/pad/to_exact/_get_exact_dimensions_ in the "
          "renderable/iterator modules is a sanitised padding - resolved by `p.resolve(ts) if isinstance(p, AlignedPadding) and p.relative else p` "
          "(or the equivalent `if`), obtained as the second result of _init_render_, or a field all of whose stores are sanitised",
    "R2": "every computing method of AlignedPadding checks `relative` first (get_padded_size, _get_exact_dimensions_ raise before reading "
          "width/height); Padding.get_padded_size/pad/to_exact obtain the four margins from _get_exact_dimensions_ only",
    "R3": "one definition of 'relative': AlignedPadding.resolve, BaseImage._check_formatting and _valid_size's frame normalise a non-positive "
          "dimension d to max(t + d, 1); AlignedPadding.relative is `not width > 0 < height`; resolve() rebuilds the padding with every other "
          "field (alignments, fill) preserved",
    "R4": "alignment table: _ALIGN_RATIOS has one row per HAlign/VAlign member (0, 1/2, 1 for members 0, 1, 2); left = pad*n//d, right = pad-left "
          "and the same shape for top/bottom (the remainder goes to the far side, sizes add up)",
    "R6": "the size advertised for a padded frame is the size pad() produces: the iterator computes its padded size with the stored (resolved) "
          "padding from the size frames are rendered at, and pads after the cache so no frame is padded twice (shared with C08.R6 / C09.R2)",
    "R5": "one source of truth: render(), draw() and the iterator pad iff the padded size differs from the render size and pass the unpadded "
          "output and size to pad(); the old-API _format_render splits a centred remainder the same way (left = n//2, right = n-left)",
}
RN, IT, PD, CM = "renderable/_renderable.py", "render/_iterator.py", "padding.py", "image/common.py"
SINKS = {"get_padded_size", "pad", "to_exact", "_get_exact_dimensions_"}


def _is_sanitiser_expr(v, name=None):
    """`X.resolve(...) if isinstance(X, AlignedPadding) and X.relative else X`"""
    if not isinstance(v, ast.IfExp):
        return False
    x = norm(v.orelse)
    if name is not None and x != name:
        return False
    t = norm(v.test)
    return isinstance(v.body, ast.Call) and norm(v.body.func) == f"{x}.resolve" and f"isinstance({x}, AlignedPadding)" in t and f"{x}.relative" in t and " or " not in t


def _is_sanitiser_if(st, name):
    if not isinstance(st, ast.If) or st.orelse:
        return False
    t = norm(st.test)
    if not (f"isinstance({name}, AlignedPadding)" in t and f"{name}.relative" in t and " or " not in t):
        return False
    return len(st.body) == 1 and isinstance(st.body[0], ast.Assign) and norm(st.body[0].targets[0]) == name and norm(st.body[0].value).startswith(f"{name}.resolve(")


def _from_init_render(st, name):
    """`<x>, name = self._init_render_(...)` (padding is the second result)."""
    if not isinstance(st, ast.Assign) or not isinstance(st.value, ast.Call) or not (call_name(st.value) or "").endswith("_init_render_"):
        return False
    t = st.targets[0]
    return isinstance(t, ast.Tuple) and len(t.elts) == 2 and norm(t.elts[1]) == name


def run(ck, m):
    # summary of _init_render_: its second result is sanitised
    ir = m.variants(RN, "Renderable._init_render_")[-1]
    rets = [r for r in body_walk(ir) if isinstance(r, ast.Return)]
    ok_sum = len(rets) == 1 and isinstance(rets[0].value, ast.Tuple) and len(rets[0].value.elts) == 2 and norm(rets[0].value.elts[1]) == "padding"
    san = [s for s in body_walk(ir) if _is_sanitiser_if(s, "padding")]
    other = [st for t, st in stores_in(ast.Module(body=ir.body, type_ignores=[])) if isinstance(t, ast.Name) and t.id == "padding" and not any(st in s.body for s in san)]
    ck.ob("R1", ir, ok_sum and len(san) == 1 and not other and san[0].lineno < rets[0].lineno,
          "summary: _init_render_ must return its (resolved) `padding` as second result, resolved by the single sanitising `if`, with no other rebinding", stmt="_init_render_: second result is the sanitised padding")
    n_sinks = 0
    for rel in (RN, IT):
        for q, fn in m.file(rel).defs.items():
            if not isinstance(fn, ast.FunctionDef):
                continue
            for c in body_walk(fn):
                if not (isinstance(c, ast.Call) and isinstance(c.func, ast.Attribute) and c.func.attr in SINKS):
                    continue
                recv = c.func.value
                rsrc = norm(recv)
                if rsrc in ("self", "super()") or rel == PD:
                    continue
                n_sinks += 1
                st = enclosing_stmt(c)
                if isinstance(recv, ast.Name):
                    name = recv.id
                    params = {a.arg for a in fn.args.args + fn.args.kwonlyargs}
                    g = CFG(fn)
                    nodes = g.nodes_of(st) or g.nodes_of(c)
                    ck.need(nodes, f"{q}: CFG node for sink {short(c)} not found")

                    def clean(n, name=name):
                        if n.ast is None:
                            return False
                        a = n.ast
                        if n.kind == "stmt" and isinstance(a, ast.Assign):
                            if _from_init_render(a, name):
                                return True
                            if norm(a.targets[0]) == name and _is_sanitiser_expr(a.value):
                                return True
                            if norm(a.targets[0]) == name and norm(a.value).startswith(f"{name}.resolve(") and any(
                                    _is_sanitiser_if(s, name) and a in s.body for s in body_walk(fn)):
                                return True
                        if n.kind == "test" and any(_is_sanitiser_if(s, name) and s.test is a for s in body_walk(fn)):
                            return True  # both outcomes of the sanitising test are clean (resolved, or not relative)
                        return False
                    protected_param = name in params and fn.name.startswith("_") and fn.name.endswith("_") and fn.name not in ("_init_render_",)
                    ok = all(g.dominated_by(n, clean, edge_ok=lambda s, lab, d: not lab.startswith(("e:", "p:"))) for n in nodes)
                    if not ok and protected_param:
                        # extension method: every in-package call site must pass a sanitised value
                        sites = []
                        for rel2, q2, f2 in m.functions():
                            for c2 in body_walk(f2):
                                if isinstance(c2, ast.Call) and (call_name(c2) or "").split(".")[-1] == fn.name and (call_name(c2) or "") != f"super().{fn.name}":
                                    idx = [a.arg for a in fn.args.args].index(name) - 1
                                    arg = c2.args[idx] if idx < len(c2.args) else None
                                    g2 = CFG(f2)
                                    an = norm(arg) if arg is not None else None
                                    n2 = g2.nodes_of(enclosing_stmt(c2))
                                    ok2 = isinstance(arg, ast.Name) and all(g2.dominated_by(x, lambda n, an=an: n.kind == "stmt" and isinstance(n.ast, ast.Assign) and _from_init_render(n.ast, an),
                                                                                            edge_ok=lambda s, lab, d: not lab.startswith(("e:", "p:"))) for x in n2)
                                    sites.append((q2, ok2))
                        ok = bool(sites) and all(o for _, o in sites)
                        ck.ob("R1", st, ok, f"{q}: `{rsrc}` is a parameter of an extension method; call sites {sites} must all pass a sanitised padding", stmt=f"{q}: {short(c, 70)} (via call sites)")
                    else:
                        ck.ob("R1", st, ok,
                              f"{q}: `{rsrc}.{c.func.attr}(...)` may receive a terminal-relative padding (no resolving step dominates this use): AlignedPadding raises "
                              f"RelativePaddingDimensionError here", stmt=f"{q}: {short(c, 70)}")
                else:
                    # a field: all stores to it in the module must be sanitised
                    attr = rsrc.split(".")[-1]
                    stores = []
                    for _r, _q, t, s2 in m.stores(rel):
                        if isinstance(t, ast.Attribute) and t.attr == attr:
                            stores.append((t, s2))
                    def store_ok(t, s2):
                        if isinstance(s2, ast.Assign) and _is_sanitiser_expr(s2.value):
                            return True
                        if isinstance(s2, ast.Assign) and isinstance(s2.targets[0], ast.Tuple) and isinstance(s2.value, ast.Call) and (call_name(s2.value) or "").endswith("_init_render_") \
                                and len(s2.targets[0].elts) == 2 and s2.targets[0].elts[1] is t:
                            return True
                        return False
                    bad = [short(s2, 60) for t, s2 in stores if not store_ok(t, s2)]
                    ck.ob("R1", st, bool(stores) and not bad, f"{q}: the receiver `{rsrc}` can hold an unresolved padding: unsanitised stores {bad}", stmt=f"{q}: {short(c, 70)} (field {attr})")
    ck.expect(n_sinks >= 10, f"expected >= 10 padding sinks in the renderable/iterator modules, found {n_sinks}")

    # ---- R2 ----------------------------------------------------------------------------
    for meth in ("get_padded_size", "_get_exact_dimensions_"):
        f = m.get(PD, f"AlignedPadding.{meth}")
        b = [s for s in f.body if not (isinstance(s, ast.Expr) and isinstance(s.value, ast.Constant))]
        ok = isinstance(b[0], ast.If) and norm(b[0].test) == "self.relative" and isinstance(b[0].body[0], ast.Raise) and "RelativePaddingDimensionError" in norm(b[0].body[0])
        ck.ob("R2", f, ok, f"AlignedPadding.{meth} must raise RelativePaddingDimensionError under `self.relative` before computing", stmt=f"AlignedPadding.{meth}: relative guard first")
    for meth in ("get_padded_size", "pad", "to_exact"):
        f = m.get(PD, f"Padding.{meth}")
        cs = [c for c in body_walk(f) if isinstance(c, ast.Call) and norm(c.func) == "self._get_exact_dimensions_"]
        ck.ob("R2", f, len(cs) == 1 and norm(cs[0].args[0]) == "render_size", f"Padding.{meth} must obtain the margins from self._get_exact_dimensions_(render_size)", stmt=f"Padding.{meth}: margins from _get_exact_dimensions_")
    gp = m.get(PD, "Padding.get_padded_size")
    un = find_stmts("$$l, $$t, $$r, $$b = self._get_exact_dimensions_(render_size)", body_walk(gp))
    uw = find_stmts("$$w, $$h = render_size", body_walk(gp))
    rt = [r for r in body_walk(gp) if isinstance(r, ast.Return) and isinstance(r.value, ast.Call) and len(r.value.args) == 2]
    ck.expect(len(un) == 1 and len(uw) == 1 and len(rt) == 1, "Padding.get_padded_size: margins/size unpacking or return not recognised")
    if len(un) == 1 and len(uw) == 1 and len(rt) == 1:
        b = {**b2s(un[0][1]), **b2s(uw[0][1])}
        try:
            okw = equal(rt[0].value.args[0], parse(f"{b['l']} + {b['w']} + {b['r']}"))
            okh = equal(rt[0].value.args[1], parse(f"{b['t']} + {b['h']} + {b['b']}"))
        except NotPoly:
            okw = okh = False
        ck.ob("R2", rt[0], okw and okh, f"padded size must be (left+width+right, top+height+bottom); found `{short(rt[0].value, 70)}`", stmt="Padding.get_padded_size formula")
    ag = m.get(PD, "AlignedPadding.get_padded_size")
    rt = [r for r in body_walk(ag) if isinstance(r, ast.Return) and isinstance(r.value, ast.Call) and len(r.value.args) == 2]
    ok = len(rt) == 1 and all(match_expr(pat, a) is not None or match_expr(pat2, a) is not None for a, pat, pat2 in (
        (rt[0].value.args[0], "max(self.width, render_size[0])", "max(render_size[0], self.width)"), (rt[0].value.args[1], "max(self.height, render_size[1])", "max(render_size[1], self.height)")))
    ck.ob("R2", rt[0] if rt else ag, ok, "AlignedPadding.get_padded_size must be the per-axis max of minimum and render size", stmt="AlignedPadding.get_padded_size formula")

    # ---- R3 ----------------------------------------------------------------------------
    rv = m.get(PD, "AlignedPadding.resolve")
    n3 = 0
    for s in body_walk(rv):
        if isinstance(s, ast.If) and isinstance(s.test, ast.Compare) and len(s.body) == 1 and isinstance(s.body[0], ast.Assign):
            d = norm(s.test.left)
            if d in ("width", "height"):
                n3 += 1
                t = "terminal_" + d
                ck.ob("R3", s, norm(s.test) == f"{d} <= 0" and norm(s.body[0]) == f"{d} = max({t} + {d}, 1)", f"resolve: `{d}` must become max({t} + {d}, 1) when <= 0; found `{short(s, 80)}`", stmt=f"resolve: {d}")
    ck.expect(n3 == 2, "AlignedPadding.resolve: the two normalising ifs not recognised")
    cfm = m.get(CM, "BaseImage._check_formatting")
    for d, t in (("width", "terminal_size.columns"), ("height", "terminal_size.lines")):
        a = next((s for s in cfm.body if isinstance(s, ast.Assign) and norm(s.targets[0]) == d and isinstance(s.value, ast.IfExp)), None)
        ck.ob("R3", a or cfm, a is not None and norm(a.value) == f"{d} if {d} > 0 else max({t} + {d}, 1)", f"_check_formatting: `{d}` must become max({t} + {d}, 1) when <= 0", stmt=f"_check_formatting: {d}")
    vs = m.get(CM, "BaseImage._valid_size")
    lam = next((n for n in body_walk(vs) if isinstance(n, ast.Lambda) and len(n.args.args) == 2), None)
    ck.ob("R3", lam or vs, lam is not None and norm(lam.body) == "frame_dim if frame_dim > 0 else max(terminal_dim + frame_dim, 1)", "_valid_size: frame dimensions must be normalised with max(t + d, 1)", stmt="_valid_size: frame normalisation")
    ai = m.get(PD, "AlignedPadding.__init__")
    ck.ob("R3", ai, "_setattr('relative', not width > 0 < height)" in norm(ai), "AlignedPadding.relative must be `not width > 0 < height`", stmt="AlignedPadding.relative definition")
    # resolve() preserves the other fields
    params = [a.arg for a in ai.args.args][1:]
    ret = [r for r in body_walk(rv) if isinstance(r, ast.Return) and isinstance(r.value, ast.Call) and norm(r.value.func) == "type(self)"]
    ck.need(len(ret) == 1, "AlignedPadding.resolve: `return type(self)(...)` not found")
    call = ret[0].value
    passed = set()
    star_ok = False
    for i, a in enumerate(call.args):
        if isinstance(a, ast.Starred):
            # *args from `width, height, *args, _ = astuple(self)`
            src = next((st for t, st in stores_in(ast.Module(body=rv.body, type_ignores=[])) if isinstance(t, ast.Name) and t.id == norm(a.value)), None)
            if src is not None and norm(src.value) == "astuple(self)" and isinstance(src.targets[0], ast.Tuple):
                names = [norm(e) for e in src.targets[0].elts]
                if names[:2] == ["width", "height"] and names[2].startswith("*") and len(names) == 4:
                    star_ok = True  # everything between (width, height) and the trailing `relative`
        elif i < len(params):
            passed.add(params[i])
            if isinstance(a, ast.Attribute) and norm(a.value) == "self":
                passed.add(a.attr)
    for k in call.keywords:
        passed.add(k.arg)
    missing = [p for p in params if p not in passed] if not star_ok else []
    ck.ob("R3", ret[0], not missing, f"resolve() rebuilds the padding without {missing}: a resolved padding silently loses them (e.g. a non-default fill)", stmt="resolve: all other fields preserved")
    cls = m.get(PD, "AlignedPadding")
    slots = next((s for s in cls.body if isinstance(s, ast.Assign) and norm(s.targets[0]) == "__slots__"), None)
    fields = [s.target.id for s in cls.body if isinstance(s, ast.AnnAssign) and isinstance(s.target, ast.Name)]
    ck.ob("R3", cls, fields == ["width", "height", "h_align", "v_align", "fill", "relative"], f"AlignedPadding field order {fields} no longer matches what resolve()/_get_exact_dimensions_ unpack from astuple()", stmt="AlignedPadding: dataclass field order")

    # ---- R4 ----------------------------------------------------------------------------
    tab = next((s for s in m.tree(PD).body if isinstance(s, ast.Assign) and norm(s.targets[0]) == "_ALIGN_RATIOS"), None)
    ck.need(tab is not None, "_ALIGN_RATIOS not found")
    rows = ast.literal_eval(tab.value)
    for en in ("HAlign", "VAlign"):
        c = m.get(PD, en)
        mem = [s for s in c.body if isinstance(s, ast.Assign)]
        vals = []
        cur = None
        for s in mem:
            if isinstance(s.value, ast.Constant):
                cur = s.value.value
            elif isinstance(s.value, ast.Call) and call_name(s.value) == "auto":
                cur = (cur + 1) if cur is not None else 1
            vals.append(cur)
        ck.ob("R4", c, vals == [0, 1, 2] and len(rows) == 3, f"{en} members {vals} must index the 3 rows of _ALIGN_RATIOS", stmt=f"{en}: members 0,1,2 index the table")
    from fractions import Fraction
    ok = [Fraction(*r) for r in rows] == [Fraction(0), Fraction(1, 2), Fraction(1)]
    ck.ob("R4", tab, ok, f"_ALIGN_RATIOS {rows} must be 0, 1/2, 1 for near/centre/far alignment", stmt="_ALIGN_RATIOS rows")
    ge = m.get(PD, "AlignedPadding._get_exact_dimensions_")
    un = find_stmts("$$w, $$h, $$ha, $$va = astuple(self)[:4]", body_walk(ge))
    ur = find_stmts("$$rw, $$rh = render_size", body_walk(ge))
    ck.expect(len(un) == 1 and len(ur) == 1, "_get_exact_dimensions_: unpacking of (width, height, h_align, v_align) / render_size not recognised")
    rets = [r for r in body_walk(ge) if isinstance(r, ast.Return) and isinstance(r.value, ast.Tuple) and len(r.value.elts) == 4]
    ck.expect(len(rets) == 1, "_get_exact_dimensions_: `return left, top, right, bottom` not recognised")
    if len(un) == 1 and len(ur) == 1 and len(rets) == 1:
        nb = {**b2s(un[0][1]), **b2s(ur[0][1])}
        out = [norm(e) for e in rets[0].value.elts]
        for axis, mn, rs, al, near_i, far_i in (("horizontal", nb["w"], nb["rw"], nb["ha"], 0, 2), ("vertical", nb["h"], nb["rh"], nb["va"], 1, 3)):
            iff = next((st for st in ge.body if isinstance(st, ast.If) and match_expr(f"{mn} > {rs}", st.test) is not None), None)
            ck.expect(iff is not None, f"_get_exact_dimensions_: `if {mn} > {rs}:` ({axis}) not recognised")
            if iff is None:
                continue
            pads = find_stmts("$$pad = $a - $b", iff.body)
            tb = find_stmts(f"$$n, $$d = _ALIGN_RATIOS[{al}]", iff.body)
            ck.ob("R4", iff, len(tb) == 1, f"{axis}: the ratio must be looked up as _ALIGN_RATIOS[{al}]", stmt=f"_get_exact_dimensions_[{axis}]: ratio row from {al}")
            ck.ob("R4", iff, len(pads) >= 1 and norm(pads[0][1]["a"]) == mn and norm(pads[0][1]["b"]) == rs, f"{axis}: the amount to distribute must be {mn} - {rs}", stmt=f"_get_exact_dimensions_[{axis}]: amount")
            if len(tb) != 1 or not pads:
                continue
            pad, n_, d_ = norm(pads[0][1]["pad"]), norm(tb[0][1]["n"]), norm(tb[0][1]["d"])
            near, far = out[near_i], out[far_i]
            an = next((st for st in iff.body if isinstance(st, ast.Assign) and norm(st.targets[0]) == near), None)
            af = next((st for st in iff.body if isinstance(st, ast.Assign) and norm(st.targets[0]) == far), None)
            ck.expect(an is not None and af is not None, f"_get_exact_dimensions_[{axis}]: assignments of {near}/{far} not found")
            if an is None or af is None:
                continue
            ck.ob("R4", an, match_expr(f"{pad} * {n_} // {d_}", an.value) is not None, f"{axis}: near margin `{near}` must be {pad}*{n_}//{d_}; found `{norm(an.value)}`", stmt=f"_get_exact_dimensions_[{axis}]: near = pad*n//d")
            try:
                okf = equal(af.value, parse(f"{pad} - {near}"))
                dtxt = diff(af.value, parse(f"{pad} - {near}"))
            except NotPoly:
                okf, dtxt = False, "?"
            ck.ob("R4", af, okf, f"{axis}: far margin `{far}` must be {pad} - {near} so that the margins add up to the amount; found `{norm(af.value)}` (differs by {dtxt})", stmt=f"_get_exact_dimensions_[{axis}]: far = pad - near")
            els = iff.orelse
            ck.ob("R4", iff, len(els) == 1 and match_stmt(f"{near} = {far} = 0", els[0]) is not None or (len(els) == 1 and match_stmt(f"{far} = {near} = 0", els[0]) is not None),
                  f"{axis}: no padding when the minimum is not larger than the render size", stmt=f"_get_exact_dimensions_[{axis}]: else zero")

    # ---- R5 ----------------------------------------------------------------------------
    for q, sizev in (("Renderable.render", "frame.render_size"), ("Renderable.draw", "frame.render_size")):
        f = m.get(RN, q)
        pads = [c for c in body_walk(f) if isinstance(c, ast.Call) and norm(c.func) == "padding.pad"]
        ck.ob("R5", f, len(pads) == 1 and [norm(a) for a in pads[0].args] == ["frame.render_output", "frame.render_size"], f"{q}: pad() must receive the unpadded output and the unpadded size", stmt=f"{q}: pad(frame.render_output, frame.render_size)")
        ie = next((n for n in body_walk(f) if isinstance(n, ast.IfExp) and "padded_size" in norm(n.test)), None)
        ck.ob("R5", ie or f, ie is not None and norm(ie.test) == "frame.render_size == padded_size" and (norm(ie.body) in ("frame", "frame.render_output")), f"{q}: pad iff the padded size differs from the render size", stmt=f"{q}: pads iff sizes differ")
        ps = next((s for s in body_walk(f) if isinstance(s, ast.Assign) and norm(s.targets[0]) == "padded_size"), None)
        ck.ob("R5", ps or f, ps is not None and norm(ps.value) == "padding.get_padded_size(frame.render_size)", f"{q}: padded size from the same padding and the frame's size", stmt=f"{q}: padded_size computed from the frame")
    fr = m.get(CM, "BaseImage._format_render")
    sz = find_stmts("$$c, $$l = self.rendered_size", body_walk(fr))
    ck.expect(len(sz) == 1, "_format_render: `cols, lines = self.rendered_size` not recognised")
    if len(sz) == 1:
        cols, lines = norm(sz[0][1]["c"]), norm(sz[0][1]["l"])
        hif = next((st for st in fr.body if isinstance(st, ast.If) and match_expr(f"width > {cols}", st.test) is not None), None)
        vif = next((st for st in fr.body if isinstance(st, ast.If) and match_expr(f"height > {lines}", st.test) is not None), None)
        ck.expect(hif is not None and vif is not None, "_format_render: `if width > cols` / `if height > lines` not recognised")
        if hif is not None and vif is not None:
            def centre_branch(iff):
                cur = iff.body[0]
                while isinstance(cur, ast.If) and cur.orelse:
                    nxt = cur.orelse
                    if len(nxt) == 1 and isinstance(nxt[0], ast.If):
                        cur = nxt[0]
                    else:
                        return nxt
                return None
            hc, vc = centre_branch(hif), centre_branch(vif)
            ck.expect(hc is not None and vc is not None, "_format_render: centre branches not recognised")
            if hc is not None:
                l_ = find_stmts("$$l = ' ' * $e", hc)
                lw = next((b_ for st, b_ in l_ if norm(b_["l"]) == "left"), None)
                rw = next((b_ for st, b_ in l_ if norm(b_["l"]) == "right"), None)
                ok = lw is not None and rw is not None
                if ok:
                    try:
                        ok = equal(lw["e"], parse(f"(width - {cols}) // 2")) and equal(rw["e"], parse(f"width - {cols} - len(left)"))
                    except NotPoly:
                        ok = False
                ck.ob("R5", hif, ok, "_format_render: a centred horizontal remainder must be split left = n//2, right = n - left (the odd column goes right)", stmt="_format_render: horizontal centre split")
            if vc is not None:
                tb_ = {norm(st.targets[0]): st.value for st in vc if isinstance(st, ast.Assign)}
                ok = "top" in tb_ and "bottom" in tb_
                if ok:
                    try:
                        ok = equal(tb_["top"], parse(f"(height - {lines}) // 2")) and equal(tb_["bottom"], parse(f"height - {lines} - top"))
                    except NotPoly:
                        ok = False
                ck.ob("R5", vif, ok, "_format_render: a centred vertical remainder must be split top = n//2, bottom = n - top", stmt="_format_render: vertical centre split")
            rp = find_exprs("render.replace('\\n', $f)", body_walk(fr))
            ck.ob("R5", hif, len(rp) == 1 and isinstance(rp[0][1]["f"], ast.JoinedStr) and norm(rp[0][1]["f"]) == "f'{right}\\n{left}'",
                  "_format_render: every line gets the right padding before and the left padding after its newline", stmt="_format_render: per-line padding")
    pp = m.get(PD, "Padding.pad")
    rp = find_exprs("render.replace('\\n', $f)", body_walk(pp))
    ck.ob("R5", pp, len(rp) == 1 and norm(rp[0][1]["f"]) == "f'{right_padding}\\n{left_padding}'", "Padding.pad: per-line right/left padding around each newline", stmt="Padding.pad: per-line padding")

    from rules.c08 import rule_padded_size_maintained
    from rules.c09 import rule_padding_after_cache
    rule_padded_size_maintained(ck, m, "R6")
    rule_padding_after_cache(ck, m, "R6")


MUTANTS = [
    M("revert-fix-set-padding", IT, "RenderIterator.set_padding", "self._padding.get_padded_size(self._renderable_data.size)", "padding.get_padded_size(self._renderable_data.size)", {"R1"}),
    M("unsanitised-field-store", IT, "RenderIterator._from_render_data_",
      "        new._padding = (\n            padding.resolve(get_terminal_size())\n            if isinstance(padding, AlignedPadding) and padding.relative\n            else padding\n        )", "        new._padding = padding", {"R1"}),
    M("raw-param-at-sink", RN, "Renderable.render", "frame, padding = self._init_render_(self._render_, render_args, padding)", "frame, _ = self._init_render_(self._render_, render_args, padding)", {"R1"}),
    M("drop-relative-guard", PD, "AlignedPadding._get_exact_dimensions_", "        if self.relative:\n            raise RelativePaddingDimensionError(\"Relative minimum render dimension(s)\")\n", "", {"R2"}),
    M("clamp-zero", PD, "AlignedPadding.resolve", "width = max(terminal_width + width, 1)", "width = max(terminal_width + width, 0)", {"R3"}),
    M("resolve-loses-fill-2", PD, "AlignedPadding.resolve", "        return type(self)(width, height, *args)", "        return type(self)(width, height, self.h_align, self.v_align)", {"R3"}),
    M("swap-table-rows", PD, None, "_ALIGN_RATIOS = ((0, 1), (1, 2), (1, 1))", "_ALIGN_RATIOS = ((0, 1), (1, 1), (1, 2))", {"R4"}),
    M("right-off-by-one", PD, "AlignedPadding._get_exact_dimensions_", "right = padding_width - left", "right = padding_width - left - 1", {"R4"}),
    M("pad-with-padded-size", RN, "Renderable.render", "padding.pad(frame.render_output, frame.render_size)", "padding.pad(frame.render_output, padded_size)", {"R5"}),
    M("twin-far-regrouped", PD, "AlignedPadding._get_exact_dimensions_", "right = padding_width - left", "right = -left + padding_width", twin=True),
    M("twin-rename-locals", PD, "AlignedPadding._get_exact_dimensions_", "numerator", "num", twin=True, count=0),
    M("twin-resolve-explicit", PD, "AlignedPadding.resolve", "        return type(self)(width, height, *args)", "        return type(self)(width, height, self.h_align, self.v_align, self.fill)", twin=True),
]
