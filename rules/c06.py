"""C06 - draw() leaves the picture in place and the cursor on the line below it: the cursor bookkeeping
(DESIGN.md 4, C06). What a terminal does with the bytes (scrolling, margins) is not decided; the bookkeeping is
arithmetic over the symbols the code itself names and is decided as an affine computation."""
from __future__ import annotations

import ast

from tiv.affine import NotPoly, _add, equal, parse, poly, show
from tiv.astutil import body_walk, call_name, dotted, enclosing_stmt, flatten_boolop, guards, kw, norm, short, stores_in, try_context, walk_local
from tiv.effects import is_output_call, names_in, output_aliases
from tiv.match import find_stmts, match_expr
from tiv.mutate import M
from tiv.sem import trace, expand, same, same_bool, cx
from tiv.srcmodel import AnalysisError

RULES = {
    "MEMO": "memo safety (shared, rules/common.py): a memoised function in this property's files (or called from them) is a function of its "
            "arguments only (no terminal/ambient/receiver state outside the key) and no caller mutates its result in place",
    "R1": "operand sign at draw time: every raw cursor template applied in the animation drivers has an operand proven >= 1 (or is guarded); the new "
          "API only uses the guarded helpers cursor_up/down/forward",
    "R2": "cursor-row balance: with the cursor row tracked as a polynomial over traced symbols (render height, padding margins, max(pad height, rendered height)): (a) every iteration of the frame loop has net row displacement 0 (every frame over the same cells); (b) after the first frame the cursor returns to the top line of the render region; (c) on normal completion the cursor ends on the last line of the (padded) region, so that draw()'s final newline leaves it on the line immediately below; the iterator's cache holds unpadded frames; the writes of the frame loop of _animate_ are unconditional (no frame is skipped)",
    "R3": "validate before writing: the size errors are raised before the first output effect; the width is checked unconditionally, the height unless "
          "scrolling is allowed (and always for animations); decided on a finite domain: the traced raise condition of _init_render_ equals `check_size and (w > tw or (not allow_scroll and h > th))` over sizes {1,2,3}^4 and all flags, tuples ordered lexicographically",
    "R4": "final state: Renderable.draw's clean-up writes exactly one newline, then SHOW_CURSOR under the hide condition, then flushes; the old API's "
          "clean-up resets attributes and shows the cursor; the newline and the flush are unconditional",
    "R5": "per-frame clearing is decided consistently: KittyImage._clear_frame clears explicitly exactly for the versions for which _display_animated does not "
          "use blend=False (complementary version predicates); animation frames are always drawn on the z-index `_clear_frame` deletes (unconditional `kwargs['z_index'] = <that value>`); decided by evaluation over kitty versions: _clear_frame returns true exactly when it cleared, and exactly one of {explicit clear, blend=False} applies per version",
}
RN, CM, IT, KT = "renderable/_renderable.py", "image/common.py", "image/iterm2.py", "image/kitty.py"


class Unk(Exception):
    pass


def _row_delta(e, env, frame_lines):
    """Row displacement (polynomial) of writing expression e. env: local name -> defining expression."""
    if isinstance(e, ast.Constant) and isinstance(e.value, str):
        if any(c in e.value for c in "\x1b\x0b\x0c"):
            raise Unk(f"literal {e.value!r}")
        n = e.value.count("\n")
        return {(): n} if n else {}
    if isinstance(e, ast.JoinedStr):
        tot = {}
        for v in e.values:
            tot = _add(tot, _row_delta(v.value if isinstance(v, ast.FormattedValue) else v, env, frame_lines))
        return tot
    if isinstance(e, (ast.Name, ast.Attribute)) and (dotted(e) or "").split(".")[-1] in ("SGR_DEFAULT", "SHOW_CURSOR", "HIDE_CURSOR", "KITTY_DELETE_CURSOR"):
        return {}
    if isinstance(e, ast.Name):
        if e.id in env:
            return _row_delta(env[e.id], env, frame_lines)
        if e.id in frame_lines:
            return frame_lines[e.id]
        raise Unk(f"name {e.id}")
    if isinstance(e, ast.Call):
        cn = call_name(e) or ""
        if cn == "cursor_up":
            return _add({}, poly(e.args[0]), -1)
        if cn == "cursor_down":
            return poly(e.args[0])
        if cn in ("cursor_forward", "cursor_backward"):
            return {}
        if cn == "next" or cn.endswith("_format_render"):
            if "next" in frame_lines:
                return frame_lines["next"]
        if isinstance(e.func, ast.Attribute) and e.func.attr == "replace" and norm(e.args[0]) == "'\\n'":
            # x.replace("\n", y): same number of newlines iff y has exactly one newline
            d = _row_delta(e.args[1], env, frame_lines)
            if d != {(): 1}:
                raise Unk(f"replace of newline by something with row delta {show(d)}")
            return _row_delta(e.func.value, env, frame_lines)
        raise Unk(f"call {norm(e)[:40]}")
    if isinstance(e, ast.Attribute) and e.attr == "render_output":
        b = norm(e.value)
        if b in frame_lines:
            return frame_lines[b]
        raise Unk(f"frame {b}")
    if isinstance(e, ast.BinOp) and isinstance(e.op, ast.Mod):
        t = (dotted(e.left) or "").split(".")[-1]
        if t == "CURSOR_UP":
            return _add({}, poly(e.right), -1)
        if t == "CURSOR_DOWN":
            return poly(e.right)
        if t in ("CURSOR_FORWARD", "CURSOR_BACKWARD", "ERASE_CHARS"):
            return {}
        raise Unk(f"template {t}")
    if isinstance(e, ast.BinOp) and isinstance(e.op, ast.Add):
        return _add(_row_delta(e.left, env, frame_lines), _row_delta(e.right, env, frame_lines))
    if isinstance(e, ast.BinOp) and isinstance(e.op, ast.Mult):
        # "<fragment>" * n
        for a, b in ((e.left, e.right), (e.right, e.left)):
            try:
                d = _row_delta(a, env, frame_lines)
            except Unk:
                continue
            from tiv.affine import _mul
            return _mul(d, poly(b))
        raise Unk(f"product {norm(e)[:40]}")
    if isinstance(e, ast.IfExp):
        a, b = _row_delta(e.body, env, frame_lines), _row_delta(e.orelse, env, frame_lines)
        # `T % (x - 1) if x > 1 else ""`: both branches have the same displacement when x == 1 in the else branch
        if a == b:
            return a
        if b == {} and isinstance(e.test, ast.Compare) and match_expr("$x > 1", e.test) is not None:
            x = match_expr("$x > 1", e.test)["x"]
            if a == _add({}, poly(parse(f"{norm(x)} - 1")), -1) or a == poly(parse(f"{norm(x)} - 1")):
                return a  # at x == 1 the guarded operand is 0 anyway
        raise Unk(f"conditional {norm(e)[:50]}")
    if isinstance(e, (ast.Name, ast.Attribute)) and (dotted(e) or "").split(".")[-1] in ("SGR_DEFAULT", "SHOW_CURSOR", "HIDE_CURSOR"):
        return {}
    if isinstance(e, ast.Attribute):
        nm = e.attr
        if nm in ("SGR_DEFAULT", "SHOW_CURSOR", "HIDE_CURSOR"):
            return {}
    raise Unk(norm(e)[:50])


def _hw(e):
    """size canonicalisation (render sizes are named tuples): `<...>.size[1]` -> `<...>.size.height`."""
    class T(ast.NodeTransformer):
        def visit_Subscript(self, n):
            self.generic_visit(n)
            if isinstance(n.slice, ast.Constant) and n.slice.value in (0, 1) and norm(n.value).endswith(".size"):
                return ast.Attribute(value=n.value, attr=("width", "height")[n.slice.value], ctx=ast.Load())
            return n
    from tiv.astutil import clone
    return T().visit(clone(e))


def _hwt(e):
    """terminal size canonicalisation: `get_terminal_size().lines` -> `get_terminal_size()[1]`, `.columns` -> `[0]`."""
    class T(ast.NodeTransformer):
        def visit_Attribute(self, n):
            self.generic_visit(n)
            if n.attr in ("lines", "columns") and norm(n.value) == "get_terminal_size()":
                return ast.Subscript(value=n.value, slice=ast.Constant(value=1 if n.attr == "lines" else 0), ctx=ast.Load())
            return n

        def visit_Subscript(self, n):
            self.generic_visit(n)
            # `self.rendered_size[1]` is `self.rendered_height` ([0]: rendered_width) - the properties are defined that way
            if norm(n.value) == "self.rendered_size" and isinstance(n.slice, ast.Constant) and n.slice.value in (0, 1):
                return ast.Attribute(value=ast.Name(id="self", ctx=ast.Load()), attr="rendered_height" if n.slice.value == 1 else "rendered_width", ctx=ast.Load())
            return n
    from tiv.astutil import clone
    return T().visit(clone(e))


def _print_delta(c, env, frame_lines, aliases):
    """Row displacement of an output call (print adds its `end`, default newline)."""
    cn = call_name(c) or ""
    tot = {}
    for a in c.args:
        tot = _add(tot, _row_delta(a, env, frame_lines))
    if cn == "print":
        end = kw(c, "end")
        sep = kw(c, "sep")
        if end is None:
            tot = _add(tot, {(): 1})
        else:
            tot = _add(tot, _row_delta(end, env, frame_lines))
        if sep is not None and len(c.args) > 1:
            from tiv.affine import _mul
            tot = _add(tot, _mul(_row_delta(sep, env, frame_lines), {(): len(c.args) - 1}))
    return tot


def _local_env(fn):
    env = {}
    for t, st in stores_in(ast.Module(body=fn.body, type_ignores=[])):
        if isinstance(t, ast.Name) and isinstance(st, ast.Assign) and len(st.targets) == 1:
            env.setdefault(t.id, []).append(st.value)
    return {k: v[0] for k, v in env.items() if len(v) == 1}


def run(ck, m):
    from rules.common import rule_memo_safety
    rule_memo_safety(ck, m, "MEMO", "C06")          # first: a memoised helper also hides the code it wraps from the rules below
    from rules.c01 import raw_applications, rule_operand_sign
    # ---- R1 ----------------------------------------------------------------------------
    n1 = rule_operand_sign(ck, m, "R1", only=lambda rel, q: q.endswith("_display_animated"))
    ck.expect(sum(1 for rel, q, fn, n in raw_applications(m) if q.endswith("_display_animated")) >= 4, "raw templates in the animation drivers not found")
    an = m.get(RN, "Renderable._animate_")
    dr = m.get(RN, "Renderable.draw")
    raw_new = [n for fn in (an, dr) for n in body_walk(fn) if isinstance(n, ast.BinOp) and isinstance(n.op, ast.Mod) and (dotted(n.left) or "").startswith("CURSOR_")]
    ck.ob("R1", an, not raw_new, f"the new API must use the guarded helpers; raw templates found: {[short(n, 40) for n in raw_new]}", stmt="Renderable.draw/_animate_: guarded cursor helpers only")

    # ---- R2 (new API) ------------------------------------------------------------------
    # Symbols are *traced* expressions (tiv.sem.trace): the render size is `render_data[Renderable].size`, the margins are the
    # components of `padding._get_exact_dimensions_(<render size>)`; local names and helper strings play no role.
    al = output_aliases(an) | {"write"}
    itv = [norm(t) for t, st in stores_in(ast.Module(body=an.body, type_ignores=[])) if isinstance(st, ast.Assign) and isinstance(st.value, ast.Call) and (call_name(st.value) or "").endswith("_from_render_data_")]
    ck.need(len(itv) == 1, "_animate_: `<iterator> = RenderIterator._from_render_data_(...)` not found")
    ITV = itv[0]
    RS = "render_data[Renderable].size"
    D = f"padding._get_exact_dimensions_({RS})"
    PH = poly(parse(f"{D}[1] + {RS}.height + {D}[3]"))           # lines of the padded first frame
    H = poly(parse(f"{RS}.height"))
    env = {}
    sp = next((s for s in body_walk(an) if isinstance(s, ast.Expr) and norm(s.value) == f"{ITV}.set_padding(NO_PADDING)"), None)
    ck.ob("R2", sp or an, sp is not None, "after the first (padded) frame the iterator must be switched to NO_PADDING: later frames are drawn inside the padding already on screen", stmt="_animate_: set_padding(NO_PADDING) after the first frame")
    writes = [c for c in body_walk(an) if isinstance(c, ast.Call) and is_output_call(c, al) and (call_name(c) or "") != "flush"]
    loop = next((n for n in body_walk(an) if isinstance(n, ast.For) and norm(n.iter) == ITV), None)
    ck.need(loop is not None and sp is not None, "_animate_: frame loop / set_padding not found")
    frame_vars = {norm(loop.target)} | {norm(t) for t, st in stores_in(ast.Module(body=an.body, type_ignores=[])) if isinstance(st, ast.Assign) and norm(st.value) == f"next({ITV})"}
    try:
        deltas = []
        for c in writes:
            padded = c.lineno < sp.lineno
            fl = {fv: _add(PH if padded else H, {(): -1}) for fv in frame_vars}
            c2 = ast.Call(func=c.func, args=[_hw(trace(an, a_, keep=tuple(frame_vars))) for a_ in c.args], keywords=c.keywords)
            deltas.append((c, _print_delta(c2, env, fl, al)))
    except (Unk, NotPoly) as e:
        raise AnalysisError(f"C06.R2: a write in _animate_ is not in the cursor-row transfer table: {e}") from None
    # every frame of the loop is drawn: after `_clear_frame_()` has (possibly) erased the previous frame, skipping the write of a frame - e.g. because it
    # equals the one drawn before - leaves the region blank; the writes inside the frame loop have no condition of their own
    from tiv.astutil import conds as _conds6
    for c, _d in deltas:
        if any(a is loop for a in _anc(c)):
            own6 = sorted(_conds6(c) - _conds6(loop))
            ck.ob("R2", enclosing_stmt(c), not own6, f"`{short(c, 50)}` in the frame loop runs only under {own6}: a frame that is not written is not on the screen (the previous one may just have been cleared), "
                  "and the cursor bookkeeping of the iteration no longer adds up", stmt=f"_animate_: frame-loop write unconditional: {short(c, 40)}")
    first = [d for c, d in deltas if c.lineno < sp.lineno]
    inloop = [d for c, d in deltas if any(a is loop for a in _anc(c))]
    final = [(c, d) for c, d in deltas if any(part == "finalbody" for _, part in try_context(c))]
    ck.expect(len(first) == 2 and len(inloop) == 2 and len(final) == 1, f"_animate_: expected 2 writes for the first frame, 2 per loop iteration and 1 final; found {len(first)}, {len(inloop)}, {len(final)}")
    if len(first) == 2 and len(inloop) == 2 and len(final) == 1:
        tot_loop = _add(inloop[0], inloop[1])
        ck.ob("R2", loop, tot_loop == {}, f"one iteration of the frame loop displaces the cursor by {show(tot_loop)} rows: successive frames are not drawn over the same cells", stmt="_animate_: loop iteration row-neutral")
        ck.ob("R2", loop, inloop[0] == _add(H, {(): -1}), f"a frame of `height` lines moves the cursor height-1 rows; computed {show(inloop[0])}", stmt="_animate_: frame write displacement")
        after_first = _add(first[0], first[1])
        ck.ob("R2", enclosing_stmt(writes[1]), after_first == poly(parse(f"{D}[1]")),
              f"after the first (padded) frame the cursor must return to the top line of the render region (row pad_top); it is at row {show(after_first)}: later frames are shifted by {show(_add(after_first, poly(parse(D + '[1]')), -1))} rows",
              stmt="_animate_: after first frame cursor at top of the render region")
        end = _add(after_first, final[0][1])
        want = _add(PH, {(): -1})
        ck.ob("R2", enclosing_stmt(final[0][0]), end == want,
              f"on normal completion the cursor must be on the last line of the padded region (row {show(want)}) before draw() writes its newline; it is at row {show(end)}", stmt="_animate_: final cursor_down reaches the last line of the padded region")
        g = [t for t, b in guards(final[0][0]) if b]
        okg = len(g) == 1 and isinstance(g[0], ast.Name)
        if okg:
            # the flag: False before the first frame, True right after the first frame's writes (before the loop), never otherwise
            fs = [st for t, st in stores_in(ast.Module(body=an.body, type_ignores=[])) if isinstance(t, ast.Name) and t.id == g[0].id]
            vals = sorted((norm(st.value), st.lineno) for st in fs if isinstance(st, ast.Assign))
            first_w = [c for c in writes if c.lineno < sp.lineno]
            okg = len(fs) == 2 and [v for v, _ in vals] == ["False", "True"] and vals[0][1] < min(c.lineno for c in first_w) and max(c.lineno for c in first_w) < vals[1][1] < loop.lineno
        ck.ob("R2", enclosing_stmt(final[0][0]), okg, "the final move must happen only if the first frame was written (a flag that is False until the first frame's writes completed)", stmt="_animate_: final move iff first frame written")
    # still path + final newline in draw
    fw = [c for c in body_walk(dr) if isinstance(c, ast.Call) and norm(c.func) == "output.write" and any(part == "finalbody" for _, part in try_context(c))]
    ck.ob("R2", dr, len([c for c in fw if norm(c.args[0]) == "'\\n'"]) == 1, "draw() must write exactly one newline in its clean-up (cursor to the line below the region)", stmt="draw: exactly one final newline")

    # ---- R2 (old API) ------------------------------------------------------------------
    da = m.get(CM, "BaseImage._display_animated")
    LT = "max(fmt[-1], self.rendered_height)"
    L = poly(parse(LT))
    oloop = next((n for n in body_walk(da) if isinstance(n, ast.For)), None)
    ck.need(oloop is not None, "_display_animated: frame loop not found")
    ofv = (norm(oloop.target),)
    fl = {ofv[0]: _add(L, {(): -1}), "next": _add(L, {(): -1})}
    pw = [c for c in body_walk(da) if isinstance(c, ast.Call) and call_name(c) == "print"]

    def traced_call(fn, c, keep=()):
        return ast.Call(func=c.func, args=[trace(fn, a_, keep=keep) for a_ in c.args], keywords=[ast.keyword(arg=k.arg, value=trace(fn, k.value, keep=keep)) for k in c.keywords])
    try:
        od = [(c, _print_delta(traced_call(da, c, ofv), {}, fl, set())) for c in pw]
    except (Unk, NotPoly) as e:
        raise AnalysisError(f"C06.R2: a write in _display_animated is not in the cursor-row transfer table: {e}") from None
    o_first = [d for c, d in od if c.lineno < oloop.lineno]
    o_in = [d for c, d in od if any(a is oloop for a in _anc(c))]
    o_fin = [(c, d) for c, d in od if any(part == "finalbody" for _, part in try_context(c))]
    ck.expect(len(o_first) == 1 and len(o_in) == 1 and len(o_fin) == 1, "_display_animated: first/loop/final prints not recognised")
    cuu = [n for n in body_walk(da) if isinstance(n, ast.BinOp) and isinstance(n.op, ast.Mod) and (dotted(n.left) or "").split(".")[-1] in ("CURSOR_UP", "CURSOR_DOWN")]
    ck.ob("R2", da, bool(cuu) and all(LT in norm(trace(da, n.right)) for n in cuu), "the animation occupies max(padding height, rendered height) lines: every vertical cursor move must be computed from it", stmt="_display_animated: lines = max(fmt[-1], rendered_height)")
    if len(o_first) == 1 and len(o_in) == 1 and len(o_fin) == 1:
        ck.ob("R2", oloop, o_in[0] == {}, f"one iteration of the old-API frame loop displaces the cursor by {show(o_in[0])} rows", stmt="_display_animated: loop iteration row-neutral")
        rnd = m.get(CM, "BaseImage.draw.render")
        fin_p = [c for c in body_walk(rnd) if isinstance(c, ast.Call) and call_name(c) == "print" and any(part == "finalbody" for _, part in try_context(c))]
        ck.expect(len(fin_p) == 1, "BaseImage.draw.render: clean-up print not found")
        try:
            fd = _print_delta(traced_call(rnd, fin_p[0]), {}, {}, set()) if fin_p else {}
        except (Unk, NotPoly) as e:
            raise AnalysisError(f"C06.R2: draw()'s clean-up write is not in the cursor-row transfer table: {e}") from None
        end = _add(_add(o_first[0], o_fin[0][1]), fd)
        ck.ob("R2", enclosing_stmt(o_fin[0][0]), end == L,
              f"on normal completion the cursor must end on the line immediately below the animation (row lines); the clean-up `{short(o_fin[0][0], 40)}` plus draw()'s final newline leave it at row {show(end)}, "
              f"i.e. {show(_add(end, L, -1))} rows too low whenever there is room below", stmt="_display_animated: final position = line below the animation")
    # wezterm pre-erase is row-neutral
    ia = m.get(IT, "ITerm2Image._display_animated")
    pi = [c for c in body_walk(ia) if isinstance(c, ast.Call) and call_name(c) == "print"]
    ck.expect(len(pi) == 1, "ITerm2Image._display_animated: pre-erase print not found")
    if pi:
        tc_ = traced_call(ia, pi[0])
        try:
            # self._format_render(<L-line erase block>, *fmt): padded to `lines` lines
            d = _print_delta(tc_, {}, {"next": _add(L, {(): -1})}, set())
        except (Unk, NotPoly) as e:
            raise AnalysisError(f"C06.R2: ITerm2Image._display_animated pre-erase not in the transfer table: {e}") from None
        ck.ob("R2", enclosing_stmt(pi[0]), d == {}, f"the wezterm pre-erase must bring the cursor back to the first line; net displacement {show(d)}", stmt="ITerm2Image._display_animated: pre-erase row-neutral")
        fr_ = next((n for a_ in tc_.args for n in ast.walk(a_) if isinstance(n, ast.Call) and (call_name(n) or "").endswith("_format_render") and n.args), None)
        okb = False
        if fr_ is not None:
            try:
                okb = _row_delta(fr_.args[0], {}, {}) == _add(L, {(): -1})
            except (Unk, NotPoly):
                okb = False
        ck.ob("R2", ia, okb, "the pre-erase block must have lines-1 newlines (lines lines)", stmt="ITerm2Image._display_animated: erase block has lines-1 newlines")

    # ---- R3 ----------------------------------------------------------------------------
    ir = m.variants(RN, "Renderable._init_render_")[-1]
    rr = [r for r in body_walk(ir) if isinstance(r, ast.Raise) and r.exc is not None and "RenderSizeOutofRangeError" in norm(r.exc)]
    rcall = next((c for c in body_walk(ir) if isinstance(c, ast.Call) and norm(c.func) == "renderer"), None)
    ck.expect(len(rr) >= 1 and rcall is not None, "_init_render_: size errors / renderer call not found")
    def conj(r):
        out = []
        for t, b in guards(r):
            for v in (flatten_boolop(t, ast.And) if b else [ast.UnaryOp(op=ast.Not(), operand=t)]):
                out.append(norm(v))
        return out
    # decided on a finite domain (sizes in {1, 2, 3} per axis, every free flag in {T, F}): the traced condition under which a size error is raised
    # must be `check_size and (w > tw or (not allow_scroll and h > th))`. Tuples are ordered as Python orders them (lexicographically).
    from tiv.absdom import EvUnk as _EvUnk3, ev as _aev3
    from tiv.sem import tconds as _tconds3
    import itertools as _it3
    trees = [[ast.parse(c_, mode="eval").body for c_ in sorted(_tconds3(ir, r))] for r in rr]
    cands, flags = set(), set()
    def _scalar3(o):
        """an operand that is a number by its form (an axis picked out of a size, arithmetic), as opposed to a whole size"""
        if isinstance(o, ast.IfExp):
            return _scalar3(o.body) and _scalar3(o.orelse)
        if isinstance(o, ast.Subscript):
            return isinstance(o.slice, ast.Constant) and isinstance(o.slice.value, int)
        if isinstance(o, ast.Call):
            return isinstance(o.func, ast.Name) and o.func.id in ("min", "max", "len", "int", "abs", "round")
        return isinstance(o, (ast.BinOp, ast.Constant, ast.Name, ast.UnaryOp))
    for x in (n_ for cj in trees for t_ in cj for n_ in ast.walk(t_)):
        if isinstance(x, ast.Subscript) and isinstance(x.slice, ast.Constant) and isinstance(x.slice.value, int):
            cands.add(norm(x.value))
        elif isinstance(x, ast.Compare) and any(isinstance(o, (ast.Lt, ast.LtE, ast.Gt, ast.GtE)) for o in x.ops):
            cands.update(norm(o) for o in [x.left] + x.comparators if isinstance(o, (ast.Call, ast.IfExp, ast.Attribute)) and not _scalar3(o))
    def _outside(t_):
        yield t_
        if norm(t_) not in cands:
            for ch_ in ast.iter_child_nodes(t_):
                yield from _outside(ch_)
    def _boolpos(x):
        if norm(x) in cands:
            return
        if isinstance(x, ast.BoolOp):
            for v_ in x.values:
                yield from _boolpos(v_)
        elif isinstance(x, ast.UnaryOp) and isinstance(x.op, ast.Not):
            yield from _boolpos(x.operand)
        elif isinstance(x, ast.IfExp):
            for v_ in (x.test, x.body, x.orelse):
                yield from _boolpos(v_)
        elif isinstance(x, (ast.Name, ast.Attribute, ast.Call)):
            yield x
    for cj in trees:
        for t_ in cj:
            for x in list(_boolpos(t_)) + [y_ for n_ in _outside(t_) if isinstance(n_, ast.IfExp) for y_ in _boolpos(n_.test)]:
                flags.add(norm(x))
    term_c = {c_ for c_ in cands if c_.startswith("get_terminal_size(") and c_.endswith(")") and c_.count("(") == 1}
    size_c = cands - term_c
    ck.expect(bool(term_c) and bool(size_c) and len(flags) <= 7, f"_init_render_: the size comparison is not in a recognised form (sizes {sorted(size_c)}, terminal {sorted(term_c)}, flags {sorted(flags)})")
    verdict3 = None
    if term_c and size_c and len(flags) <= 7:
        fl = sorted(flags | {"check_size", "allow_scroll"})
        try:
            for w_, h_, tw_, th_ in _it3.product((1, 2, 3), repeat=4):
                for bits in _it3.product((True, False), repeat=len(fl)):
                    env_ = dict(zip(fl, bits))
                    env_.update({c_: (w_, h_) for c_ in size_c})
                    env_.update({c_: (tw_, th_) for c_ in term_c})
                    got = any(all(bool(_aev3(t_, env_)) for t_ in cj) for cj in trees)
                    want = env_["check_size"] and (w_ > tw_ or (not env_["allow_scroll"] and h_ > th_))
                    if got != want:
                        verdict3 = f"a {w_}x{h_} render on a {tw_}x{th_} terminal with check_size={env_['check_size']}, allow_scroll={env_['allow_scroll']} is {'rejected' if got else 'accepted'}"
                        raise StopIteration
            verdict3 = ""
        except StopIteration:
            pass
        except _EvUnk3 as ex_:
            ck.expect(False, f"_init_render_: the size comparison cannot be evaluated ({ex_})")
    if verdict3 is not None:
        ck.ob("R3", ir, verdict3 == "", f"_init_render_ must raise RenderSizeOutofRangeError exactly when the size is checked and the (padded) render is wider than the terminal, or taller unless scrolling "
              f"is allowed; {verdict3}", stmt="_init_render_: width always, height unless allow_scroll (decided on a finite domain)")
    ck.ob("R3", ir, all(r.lineno < rcall.lineno for r in rr), "size errors must be raised before the renderer runs", stmt="_init_render_: validation before rendering")
    ic = next((c for c in body_walk(dr) if isinstance(c, ast.Call) and (call_name(c) or "").endswith("_init_render_")), None)
    outs = [c for c in body_walk(dr) if isinstance(c, ast.Call) and norm(c.func) in ("output.write", "output.flush")]
    ck.ob("R3", dr, ic is not None and all(ic.lineno < c.lineno for c in outs), "draw() must validate the size (_init_render_) before its first write", stmt="draw: _init_render_ before any output")
    if ic is not None:
        ck.ob("R3", enclosing_stmt(ic), norm(kw(ic, "check_size")) == "animation or check_size" and norm(kw(ic, "allow_scroll")) == "not animation and allow_scroll",
              "animations are always size-checked and may never scroll", stmt="draw: check_size=animation or check_size, allow_scroll=not animation and allow_scroll")
    rn = m.get(CM, "BaseImage._renderer")
    rrs = [r for r in body_walk(rn) if isinstance(r, ast.Raise) and "InvalidSizeError" in norm(r.exc)]
    rc2 = next((c for c in body_walk(rn) if isinstance(c, ast.Call) and norm(c.func) == "renderer"), None)
    ck.ob("R3", rn, len(rrs) == 2 and rc2 is not None and all(r.lineno < rc2.lineno for r in rrs), "_renderer must raise InvalidSizeError before calling the renderer", stmt="_renderer: validation before rendering")
    canonical = "map(mul, self.rendered_size, (1, not scroll))" in norm(rn) and "map(gt," in norm(rn)
    explicit = None
    if not canonical and rrs:
        t0 = next((t for t, b_ in guards(rrs[0]) if b_ and "scroll" in norm(trace(rn, t))), None)
        if t0 is not None:
            tt = trace(rn, t0)
            # decided on a finite domain: sizes in {1, 2, 3} per axis, scroll in {T, F}; spec: too wide, or too tall unless scrolling
            from tiv.absdom import EvUnk as _EvUnk, ev as _aev
            import itertools as _it
            try:
                explicit = True
                for rw, rh, tw, th, sc in _it.product((1, 2, 3), (1, 2, 3), (1, 2, 3), (1, 2, 3), (True, False)):
                    env_ = {"self.rendered_size[0]": rw, "self.rendered_size[1]": rh, "self.rendered_width": rw, "self.rendered_height": rh, "get_terminal_size()[0]": tw,
                            "get_terminal_size()[1]": th, "get_terminal_size().columns": tw, "get_terminal_size().lines": th, "scroll": sc}
                    if bool(_aev(tt, env_)) != (rw > tw or (not sc and rh > th)):
                        explicit = False
                        break
            except _EvUnk:
                explicit = None
    ck.expect(canonical or explicit is not None, "_renderer: the size comparison is not in a recognised form")
    if canonical or explicit is not None:
        ck.ob("R3", rn, canonical or bool(explicit), "_renderer: both axes are compared with the terminal size, the height waived by *scroll*", stmt="_renderer: width always, height unless scroll")
    ck.ob("R3", rn, any(isinstance(s, ast.If) and same_bool(None, _hwt(trace(rn, s.test)), "animated and self.rendered_height > get_terminal_size()[1]") for s in body_walk(rn)), "_renderer: animations must fit vertically", stmt="_renderer: animation height check")
    od_ = m.get(CM, "BaseImage.draw")
    rcall3 = next((c for c in body_walk(od_) if isinstance(c, ast.Call) and norm(c.func) == "self._renderer"), None)
    rs3 = [r for r in od_.body if isinstance(r, ast.If) and any(isinstance(x, ast.Raise) for x in r.body)]
    ck.ob("R3", od_, rcall3 is not None and all(r.lineno < rcall3.lineno for r in body_walk(od_) if isinstance(r, ast.Raise) and not any(a is m.get(CM, "BaseImage.draw.render") for a in _anc(r))),
          "BaseImage.draw must validate its arguments before rendering/writing", stmt="BaseImage.draw: validation before _renderer")
    ck.ob("R3", od_, any(norm(s.test) == "pad_width > terminal_width" for s in rs3) and any(norm(s.test) == "animation and pad_height > terminal_height" for s in rs3),
          "BaseImage.draw: padding width always, padding height for animations", stmt="BaseImage.draw: padding range checks")

    # ---- R4 ----------------------------------------------------------------------------
    fin = next((t for t in body_walk(dr) if isinstance(t, ast.Try) and t.finalbody and any("'\\n'" in norm(s) for s in walk_local(ast.Module(body=t.finalbody, type_ignores=[])) if isinstance(s, ast.Expr))), None)
    ck.need(fin is not None, "Renderable.draw: clean-up not found")
    seq = [norm(s) for s in walk_local(ast.Module(body=fin.finalbody, type_ignores=[])) if isinstance(s, ast.Expr) and norm(s).startswith("output.")]
    ck.ob("R4", fin, seq[:3] == ["output.write('\\n')", "output.write(SHOW_CURSOR)", "output.flush()"], f"clean-up order must be newline, SHOW_CURSOR, flush; found {seq[:3]}", stmt="Renderable.draw: newline, show, flush")
    # the final newline and the flush happen on every draw (only the SHOW_CURSOR depends on whether the cursor was hidden): a pipe or a
    # block-buffered stream otherwise still holds the newline when draw() returns
    from tiv.astutil import conds as _conds2
    base_c = _conds2(fin)
    for want_ in ("output.write('\\n')", "output.flush()"):
        cs_ = [c for s_ in fin.finalbody for c in walk_local(s_) if isinstance(c, ast.Call) and norm(c) == want_]
        extra_ = sorted(_conds2(cs_[0]) - base_c) if cs_ else ["<missing>"]
        ck.ob("R4", enclosing_stmt(cs_[0]) if cs_ else fin, not extra_, f"`{want_}` in draw()'s clean-up must be unconditional; it runs only under {extra_}", stmt=f"Renderable.draw: {want_} unconditional in the clean-up")

    # ---- R5 ----------------------------------------------------------------------------
    cf = m.get(KT, "KittyImage._clear_frame")
    kd = m.get(KT, "KittyImage._display_animated")
    def vcmp(fn):
        out = []
        for n in body_walk(fn):
            if isinstance(n, ast.Compare) and len(n.ops) == 1 and "_KITTY_VERSION" in norm(n.left) and isinstance(n.comparators[0], ast.Tuple):
                out.append((type(n.ops[0]).__name__, tuple(e.value for e in n.comparators[0].elts), n))
        return out
    # decided by evaluation over kitty versions (tuples ordered as Python orders them; None = not kitty): (1) _clear_frame returns true exactly when it
    # has issued the clear, (2) for every kitty version exactly one of {explicit clear, blend=False} applies
    from tiv.sem import tconds as _tc5
    from tiv.absdom import EvUnk as _EvU5, ev as _ev5
    clr0 = next((c for c in body_walk(cf) if isinstance(c, ast.Call) and norm(c.func).endswith(".clear")), None)
    rets5 = [r for r in body_walk(cf) if isinstance(r, ast.Return) and r.value is not None]
    bl5 = [st for t, st in stores_in(ast.Module(body=kd.body, type_ignores=[])) if isinstance(t, ast.Subscript) and isinstance(t.slice, ast.Constant) and t.slice.value == "blend" and norm(st.value) == "False"]
    if not bl5:
        # `kwargs.update(blend=False)` / `<overrides>.update(blend=False)`: the same store, spelled as a call
        bl5 = [enclosing_stmt(c_) for c_ in body_walk(kd) if isinstance(c_, ast.Call) and isinstance(c_.func, ast.Attribute) and c_.func.attr == "update"
               and any(k_.arg == "blend" and norm(k_.value) == "False" for k_ in c_.keywords)]
    ck.expect(clr0 is not None and bool(rets5) and len(bl5) == 1, "kitty: clear call / returns of _clear_frame / the blend=False store of _display_animated not recognised")
    if clr0 is not None and rets5 and len(bl5) == 1:
        P5 = lambda src: ast.parse(src, mode="eval").body
        cc5 = [P5(c_) for c_ in _tc5(cf, clr0)]
        rr5 = [([P5(c_) for c_ in _tc5(cf, r)], trace(cf, r.value, use=r)) for r in rets5]
        bb5 = [P5(c_) for c_ in _tc5(kd, bl5[0])]
        bad5 = None

        def _all5(conjs, env):
            """conjunction of an unordered set of conjuncts: false as soon as one is false (an unevaluable one - `None <= (0, 25, 0)` - then does not matter)"""
            unk = None
            for c_ in conjs:
                try:
                    if not _ev5(c_, env):
                        return False
                except _EvU5 as ex__:
                    unk = ex__
            if unk is not None:
                raise unk
            return True
        try:
            for v5 in (None, (0, 19, 3), (0, 20, 0), (0, 24, 9), (0, 25, 0), (0, 25, 1), (0, 26, 0), (1, 0, 0)):
                env5 = {k_: v5 for k_ in ("cls._KITTY_VERSION", "self._KITTY_VERSION", "__class__._KITTY_VERSION", "type(self)._KITTY_VERSION")}
                cleared = _all5(cc5, env5)
                returned = any(_all5(cs_, env5) and bool(_ev5(v_, env5)) for cs_, v_ in rr5)
                if cleared != returned:
                    bad5 = f"for kitty version {v5} _clear_frame {'clears' if cleared else 'does not clear'} but returns {returned}"
                    break
                if v5 is not None:
                    blend_off = _all5(bb5, env5)
                    if cleared == blend_off:
                        bad5 = f"kitty {'.'.join(map(str, v5))} gets {'both the explicit clear and blend=False' if cleared else 'neither the explicit clear nor blend=False'}"
                        break
        except _EvU5 as ex_:
            bad5 = None
            ck.expect(False, f"kitty: the version predicates cannot be evaluated ({ex_})")
        else:
            ck.ob("R5", enclosing_stmt(clr0), bad5 is None, f"per-frame clearing is inconsistent: {bad5}: the predicates of _clear_frame and _display_animated must be complementary over kitty versions "
                  "(otherwise some version gets neither and frames pile up on the same cells) and _clear_frame must report what it did", stmt="kitty: clear-frame / blend=False predicates complementary")

    # ... and the explicit clear deletes exactly the z-index every animation frame is drawn on: _display_animated forces that z-index
    # unconditionally (a caller-supplied one would never be cleared)
    clr = next((c for c in body_walk(cf) if isinstance(c, ast.Call) and norm(c.func).endswith(".clear") and kw(c, "z_index") is not None), None)
    zst = [st for t, st in stores_in(ast.Module(body=kd.body, type_ignores=[])) if isinstance(t, ast.Subscript) and norm(t) == "kwargs['z_index']"]
    if not zst:
        # the forced value may also reach the super() call through a dict merged over the caller's keywords: `**{**kwargs, **overrides}`
        # with `overrides = {"z_index": <value>, ...}` (later entries win); it is then treated like the plain store
        sup_ = next((c for c in body_walk(kd) if isinstance(c, ast.Call) and norm(c.func) == "super()._display_animated"), None)

        def provider(e, depth=0):
            """(value node, statement) that finally provides key 'z_index' in mapping expression e, or None."""
            if depth > 4:
                return None
            if isinstance(e, ast.Name):
                defs = [st_ for t_, st_ in stores_in(ast.Module(body=kd.body, type_ignores=[])) if isinstance(t_, ast.Name) and t_.id == e.id and isinstance(st_, (ast.Assign, ast.AnnAssign))]
                if len(defs) == 1 and not _conds(defs[0]):
                    r_ = provider(defs[0].value, depth + 1)
                    return (r_[0], defs[0]) if r_ else None
                return None
            if isinstance(e, ast.Dict):
                found = None
                for k_, v_ in zip(e.keys, e.values):
                    if k_ is None:
                        found = provider(v_, depth + 1) or found
                    elif isinstance(k_, ast.Constant) and k_.value == "z_index":
                        found = (v_, None)
                return found
            return None
        from tiv.astutil import conds as _conds
        # ... or through `kwargs.update(overrides)` / `kwargs.update(z_index=<value>)`, unconditionally, before the call
        for u_ in [c for c in body_walk(kd) if isinstance(c, ast.Call) and norm(c.func) == "kwargs.update" and not _conds(c)]:
            pr = None
            for k_ in u_.keywords:
                if k_.arg == "z_index":
                    pr = (k_.value, None)
            if pr is None and len(u_.args) == 1:
                pr = provider(u_.args[0])
            if pr is not None:
                zst = [ast.copy_location(ast.Assign(targets=[ast.parse("kwargs['z_index']", mode="eval").body], value=pr[0]), enclosing_stmt(u_))]
                zst[0]._p = enclosing_stmt(u_)._p
        if sup_ is not None and not zst:
            for k_ in reversed(sup_.keywords):
                if k_.arg is None:
                    pr = provider(k_.value)
                    if pr is not None:
                        zst = [ast.copy_location(ast.Assign(targets=[ast.parse("kwargs['z_index']", mode="eval").body], value=pr[0]), pr[1] or enclosing_stmt(sup_))]
                        zst[0]._p = (pr[1] or enclosing_stmt(sup_))._p
                        break
    ck.expect(clr is not None, "kitty: _clear_frame's clear(z_index=...) not recognised")
    if clr is not None:
        from tiv.astutil import conds as _conds
        from tiv.absdom import EvUnk as _EvU, ev as _evz
        try:
            same_z = len(zst) == 1 and _evz(zst[0].value, {}) == _evz(kw(clr, "z_index"), {})       # (-(1 << 31) == -(2 ** 31): compared as integers)
        except _EvU:
            same_z = len(zst) == 1 and norm(zst[0].value) == norm(kw(clr, "z_index"))
        okz = len(zst) == 1 and not _conds(zst[0]) and same_z
        ck.ob("R5", zst[0] if zst else kd, okz, f"animation frames must always be drawn on the z-index `_clear_frame` deletes ({norm(kw(clr, 'z_index'))}): `kwargs['z_index'] = <that>` unconditionally; "
              f"found {[short(s_, 50) for s_ in zst] or 'no plain store'} - with another z-index the previous frames are never removed on kitty <= 0.25.0", stmt="kitty: animation z-index == cleared z-index")
    # every frame is drawn over the same cells: the iterator's cache must hold unpadded frames (shared with C08/C09)
    from rules.c09 import rule_padding_after_cache
    rule_padding_after_cache(ck, m, "R2")
    # old API: nothing is written before _renderer() has validated the size
    od2 = m.get(CM, "BaseImage.draw")
    rcall4 = next((c for c in body_walk(od2) if isinstance(c, ast.Call) and norm(c.func) == "self._renderer"), None)
    if rcall4 is not None:
        early = [c for c in body_walk(od2) if isinstance(c, ast.Call) and ((call_name(c) or "") in ("print", "sys.stdout.write", "_stdout_write", "sys.stdout.flush") or (call_name(c) or "").endswith("stdout.write")) and c.lineno < rcall4.lineno and getattr(enclosing_stmt(c), "_q", "") == "BaseImage.draw"]
        ck.ob("R3", enclosing_stmt(early[0]) if early else od2, not early, f"BaseImage.draw writes to the terminal (`{short(early[0], 50) if early else ''}`) before self._renderer() has validated the size: a rejected draw must leave the terminal untouched",
              stmt="BaseImage.draw: no output before size validation")

    # horizontal repositioning in the animation drivers is absolute (CR, then forward): a relative move back is wrong when the frame touches
    # the right margin (the cursor sits on the last column with a pending wrap, so `CUB n` lands one column off)
    for fn_ in (an, da):
        back = [n_ for n_ in body_walk(fn_) if (isinstance(n_, ast.Call) and (call_name(n_) or "").split(".")[-1] == "cursor_backward") or (isinstance(n_, (ast.Name, ast.Attribute)) and (dotted(n_) or "").split(".")[-1] == "CURSOR_BACKWARD")]
        ck.ob("R2", enclosing_stmt(back[0]) if back else fn_, not back, f"{fn_.name} moves the cursor back relatively (`{short(back[0], 40) if back else ''}`); the return to the left edge of the render must be CR + CURSOR_FORWARD(pad_left)",
              stmt=f"{fn_.name}: no relative backward move")
    ups = [c for c in writes if any(isinstance(x, ast.Call) and (call_name(x) or "") == "cursor_up" for a_ in c.args for x in ast.walk(trace(an, a_)))]
    for c in ups:
        from tiv import emit as _emit
        first = next(iter(_emit.atoms(_emit.Builder(an).expr(c.args[0]))), None)
        ck.ob("R2", enclosing_stmt(c), isinstance(first, _emit.Lit) and first.text.startswith("\r"),
              f"`{short(c, 50)}` moves up without first returning to column 0 with CR", stmt="_animate_: vertical return starts with CR")


def _anc(n):
    p = getattr(n, "_p", None)
    while p is not None:
        yield p
        p = getattr(p, "_p", None)


MUTANTS = [
    M("revert-fix-csi0a", CM, "BaseImage._display_animated", "cursor_up = CURSOR_UP % (lines - 1) if lines > 1 else \"\"", "cursor_up = CURSOR_UP % (lines - 1)", {"R1"}),
    M("up-too-far", RN, "Renderable._animate_", "cursor_up(height + pad_bottom - 1)", "cursor_up(height + pad_bottom)", {"R2"}),
    M("per-frame-reset-height", RN, "Renderable._animate_", "f\"\\r{cursor_up(height - 1)}{cursor_forward(pad_left)}\"", "f\"\\r{cursor_up(height)}{cursor_forward(pad_left)}\"", {"R2"}),
    M("final-down-no-pad", RN, "Renderable._animate_", "write(cursor_down(height + pad_bottom - 1))", "write(cursor_down(height - 1))", {"R2"}),
    M("raw-template-new-api", RN, "Renderable._animate_", "write(cursor_down(height + pad_bottom - 1))", "write(CURSOR_DOWN % (height + pad_bottom - 1))", {"R1", "R2"}),
    M("size-check-folded", RN, "Renderable._init_render_#4", "                if width > terminal_width:", "                if not allow_scroll and width > terminal_width:", {"R3"}),
    M("hide-before-validate", RN, "Renderable.draw", "        # Validate size and get render data and args\n", "        output.write(HIDE_CURSOR)\n        # Validate size and get render data and args\n", {"R3"}),
    M("two-newlines", RN, "Renderable.draw", "                output.write(\"\\n\")\n                if hide_cursor:\n                    output.write(SHOW_CURSOR)", "                output.write(\"\\n\\n\")\n                if hide_cursor:\n                    output.write(SHOW_CURSOR)", {"R2", "R4"}),
    M("kitty-version-gap", KT, "KittyImage._clear_frame", "cls._KITTY_VERSION <= (0, 25, 0)", "cls._KITTY_VERSION < (0, 25, 0)", {"R5"}),
    M("old-loop-up-lines", CM, "BaseImage._display_animated", "cursor_up = CURSOR_UP % (lines - 1) if lines > 1 else \"\"", "cursor_up = CURSOR_UP % lines", {"R2"}),
    M("cond-final-newline", RN, "Renderable.draw", "                output.write(\"\\n\")\n                if hide_cursor:\n                    output.write(SHOW_CURSOR)", "                if hide_cursor:\n                    output.write(\"\\n\")\n                    output.write(SHOW_CURSOR)", {"R4"}),
    M("cond-final-flush", RN, "Renderable.draw", "                    output.write(SHOW_CURSOR)\n                output.flush()", "                    output.write(SHOW_CURSOR)\n                    output.flush()", {"R4"}),
    M("z-index-drift", KT, "KittyImage._display_animated", 'kwargs["z_index"] = -(1 << 31)', 'kwargs["z_index"] = -(1 << 31) + 1', {"R5"}),
    M("z-index-only-default", KT, "KittyImage._display_animated", 'kwargs["z_index"] = -(1 << 31)', 'kwargs.setdefault("z_index", -(1 << 31))', {"R5"}),
    M("lexicographic-size-check", RN, "Renderable._init_render_#4", "if not allow_scroll and height > terminal_height:", "if not allow_scroll and (width, height) > (terminal_width, terminal_height):", {"R3"}),
    M("skip-identical-frame", RN, "Renderable._animate_", "                try:\n                    write(frame.render_output.replace(\"\\n\", cursor_to_next_render_line))\n                    flush()\n", "                try:\n                    if frame.render_output != last_output:\n                        write(frame.render_output.replace(\"\\n\", cursor_to_next_render_line))\n                    flush()\n", {"R2"}),
    M("twin-regroup", RN, "Renderable._animate_", "cursor_up(height + pad_bottom - 1)", "cursor_up(pad_bottom + height - 1)", twin=True),
]
