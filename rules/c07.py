"""C07 - an interrupted draw() still restores the terminal and the image (DESIGN.md 4, C07).
Path rules in the asynchronous exception model; clean-up code is atomic (the property stops at 'before its own clean-up starts')."""
from __future__ import annotations

import ast

from tiv.astutil import (body_walk, call_name, conds, dotted, enclosing_stmt, guards, norm, short, stores_in, try_context,
                         walk_local)
from tiv.cfg import CFG, EX, KI, handler_classes, handler_reraise
from tiv.effects import emits, is_output_call, names_in, output_aliases, output_calls
from tiv.mutate import M
from tiv.sem import trace, same_bool

RULES = {
    "R6": "input echo / terminal attributes: the C13 save-modify-restore rules (rules/c13.py) hold for Renderable.draw - the attributes saved before the change are "
          "the ones written back, on every exit",
    "MEMO": "memo safety (shared, rules/common.py): a memoised function in this property's files (or called from them) is a function of its "
            "arguments only (no terminal/ambient/receiver state outside the key) and no caller mutates its result in place",
    "R1": "every write of HIDE_CURSOR lies inside the body of a try whose finally writes SHOW_CURSOR under a condition implied by "
          "the hide's own condition (so the cursor is shown again whenever it may have been hidden, whatever interrupts the draw); "
          "the old-API finally also resets text attributes (SGR_DEFAULT) - written unconditionally (not under a test, not multiplied by or selected on a flag)",
    "R2": "every write of a render output in a draw path is inside a try whose handlers certainly catch the required interruption "
          "classes (old API: KeyboardInterrupt and Exception; new API: KeyboardInterrupt) and call the style's interrupted-draw hook on "
          "every path through the handler; the flush that delivers the write lies in the same protected try (keyword flush=True, or a later unconditional flush in the try body); an override of the animation driver writes no APC/OSC/DCS control string outside a try that catches KeyboardInterrupt and Exception",
    "R3": "every GraphicsImage subclass overrides _handle_interrupted_draw; the string it prints starts with ST (twice, for konsole), is "
          "flushed, and - for the style whose transmissions are chunked - contains KITTY_END_CHUNKED; KITTY_END_CHUNKED is sent unconditionally (not multiplied by / selected on a flag)",
    "R4": "restores: _display_animated saves _seek_position before its try, every use of the frame generator is inside that try, and the "
          "finally closes the iterator, releases the image and stores the position back; _renderer restores a dynamic size in finally; "
          "Renderable.draw finalizes the render data in a finally; _animate_ closes its iterator in finally",
    "R5": "animations end silently on Ctrl-C (KeyboardInterrupt handlers in _animate_/_display_animated do not re-raise) while still-image "
          "draws propagate it (their handlers end in a bare raise)",
}
RN, CM, KT, IT = "renderable/_renderable.py", "image/common.py", "image/kitty.py", "image/iterm2.py"
HOOKS = {"_handle_interrupted_draw_", "_handle_interrupted_draw"}


def _guard_set(node, const=None):
    gs = {norm(t) if b else f"not ({norm(t)})" for t, b in guards(node)}
    if const is not None and isinstance(node, ast.Call):
        for a in node.args:
            for n in ast.walk(a):
                if isinstance(n, ast.BinOp) and isinstance(n.op, ast.Mult):
                    l, r = n.left, n.right
                    if const in names_in(l) and not names_in(r) & {const}:
                        gs.add(norm(r))
                    elif const in names_in(r):
                        gs.add(norm(l))
    return gs


def _handler_calls_hook_on_all_paths(h: ast.ExceptHandler) -> bool:
    fn = ast.FunctionDef(name="_h", args=ast.arguments(posonlyargs=[], args=[], kwonlyargs=[], kw_defaults=[], defaults=[]), body=h.body, decorator_list=[], lineno=h.lineno, col_offset=0)
    g = CFG(fn)

    def is_hook(n):
        return n.ast is not None and n.kind == "stmt" and any(isinstance(c, ast.Call) and (call_name(c) or "").split(".")[-1] in HOOKS for c in ast.walk(n.ast))
    first = [n for n in g.nodes if is_hook(n)]
    if not first:
        return False
    # every way out of the handler (return / fallthrough / raise statement) is preceded by the hook
    for ex in g.exits():
        p = g.search([g.entry], lambda n, ex=ex: n is ex, avoid=is_hook, from_succ=False,
                     edge_ok=lambda s, lab, d: not lab.startswith("e:") or (s.kind == "stmt" and isinstance(s.ast, ast.Raise)))
        if p is not None:
            return False
    return True


def run(ck, m):
    from rules.common import rule_memo_safety
    rule_memo_safety(ck, m, "MEMO", "C07")          # first: a memoised helper also hides the code it wraps from the rules below
    draw_new = m.get(RN, "Renderable.draw")
    animate_new = m.get(RN, "Renderable._animate_")
    render_old = m.get(CM, "BaseImage.draw.render")
    anim_old = m.get(CM, "BaseImage._display_animated")
    anim_it = m.get(IT, "ITerm2Image._display_animated")

    # ---- R1 ----------------------------------------------------------------------------
    n_hide = 0
    for rel, q, fn in m.functions():
        al = output_aliases(fn)
        for c in body_walk(fn):
            if isinstance(c, ast.Call) and emits(c, "HIDE_CURSOR", al):
                n_hide += 1
                hide_g = _guard_set(c)
                prot = None
                for t, part in try_context(c):
                    if part != "body":
                        continue
                    for st in t.finalbody:
                        for s in walk_local(st):
                            if isinstance(s, ast.Call) and emits(s, "SHOW_CURSOR", al):
                                prot = (t, s)
                                break
                        if prot:
                            break
                    if prot:
                        break
                ck.ob("R1", enclosing_stmt(c), prot is not None,
                      "HIDE_CURSOR is written outside the body of a try whose finally writes SHOW_CURSOR: an interrupt right after it leaves the cursor hidden",
                      stmt=f"{q}: hide inside protected try: {short(c, 60)}")
                if prot:
                    show_g = _guard_set(prot[1], "SHOW_CURSOR")
                    # guards contributed by enclosing nodes common to both (outside the try) cancel out
                    common = _guard_set(prot[0])
                    extra = (show_g - common) - (hide_g - common)
                    ck.ob("R1", enclosing_stmt(prot[1]), not extra,
                          f"SHOW_CURSOR is written only under {sorted(extra)}, which the hide is not conditioned on: the cursor may have been hidden "
                          f"(the write can complete before the interrupt surfaces) and is then not shown again", stmt=f"{q}: show condition implied by hide condition")
    ck.expect(n_hide >= 2, f"expected >= 2 HIDE_CURSOR writes, found {n_hide}")
    fin = [t for t in body_walk(render_old) if isinstance(t, ast.Try) and t.finalbody]
    # ... unconditionally: the reset is neither under an `if`, nor multiplied by / selected on a flag (an animation ended by Ctrl-C returns
    # normally from the drawing step with a colour still in effect)
    def _plain_sgr(c):
        if not emits(c, "SGR_DEFAULT"):
            return False
        for a_ in c.args:
            ta = trace(render_old, a_, use=c)
            for n_ in ast.walk(ta):
                if isinstance(n_, (ast.Name, ast.Attribute)) and (dotted(n_) or "").split(".")[-1] == "SGR_DEFAULT":
                    # the constant must sit at the top of the argument or inside concatenations only
                    def plain(e):
                        if e is n_:
                            return True
                        if isinstance(e, ast.BinOp) and isinstance(e.op, ast.Add):
                            return plain(e.left) or plain(e.right)
                        if isinstance(e, ast.JoinedStr):
                            return any(isinstance(v_, ast.FormattedValue) and plain(v_.value) for v_ in e.values)
                        if isinstance(e, ast.Call) and isinstance(e.func, ast.Attribute) and e.func.attr == "join" and len(e.args) == 1 and isinstance(e.args[0], (ast.Tuple, ast.List)):
                            return any(plain(x_) for x_ in e.args[0].elts)
                        return False
                    if plain(ta):
                        return True
        return False
    ok = any(isinstance(c, ast.Call) and _plain_sgr(c) and not (_guard_set(c) - _guard_set(t)) for t in fin for st in t.finalbody for c in walk_local(st))
    ck.ob("R1", render_old, ok, "the old-API draw must reset text attributes (SGR_DEFAULT) in its finally, unconditionally (not under a test, not multiplied by or selected on a flag)",
          stmt="BaseImage.draw.render: finally writes SGR_DEFAULT")

    # ---- R2 ----------------------------------------------------------------------------
    def render_writes(fn):
        al = output_aliases(fn)
        out = []
        for c in output_calls(fn, al):
            src = " ".join(norm(a) for a in c.args)
            nm = set()
            for a in c.args:
                nm |= names_in(a)
            tsrc = " ".join(norm(trace(fn, a)) for a in c.args)
            loop_targets = {norm(n.target) for n in body_walk(fn) if isinstance(n, ast.For)}
            if nm & {"render", "frame", "render_output", "_format_render", "_render_image"} or "next(" in src \
                    or any(k in tsrc for k in (".render_output", "_format_render(", "_render_image", "_renderer(", "next(")) or (nm & loop_targets):
                out.append(c)
        return out
    sites = [(draw_new, {KI}), (animate_new, {KI}), (render_old, {KI, EX}), (anim_old, {KI, EX})]
    # a subclass that overrides the animation driver only adjusts its arguments: whatever it writes to the terminal itself lies outside the protected
    # region of the base method it delegates to (an interrupted or failing write there propagates out of draw() and can leave a control string open)
    n_ov = 0
    from tiv.constfold import Folder as _Folder
    _cs_env = _Folder(m.tree("_ctlseqs.py")).env
    for rel_, q_, fn_ in m.functions():
        if rel_.startswith("image/") and fn_.name in ("_display_animated",) and not q_.startswith("BaseImage."):
            n_ov += 1
            for c in output_calls(fn_, output_aliases(fn_)):
                used_ = {x.id for a_ in c.args for x in ast.walk(trace(fn_, a_)) if isinstance(x, ast.Name)} | {x.attr for a_ in c.args for x in ast.walk(trace(fn_, a_)) if isinstance(x, ast.Attribute)}
                strings_ = sorted(n_ for n_ in used_ if isinstance(_cs_env.get(n_), str) and _cs_env[n_].startswith(("\x1b_", "\x1b]", "\x1bP", "\x1bX", "\x1b^")))
                if not strings_:
                    continue        # plain text / CSI sequences: complete after any prefix as far as the terminal's parser is concerned
                cov_ = set()
                for t_, part_ in try_context(c):
                    if part_ == "body":
                        for h_ in t_.handlers:
                            cov_ |= handler_classes(h_)[1]
                ck.ob("R2", enclosing_stmt(c), {KI, EX} <= cov_, f"{q_} writes a control string ({strings_}: `{short(c, 60)}`) outside the protected region of the driver it delegates to: Ctrl-C or a stream error during this write "
                      "propagates out of an animated draw() (which must end silently) with the control string cut short - the terminal swallows what follows, SHOW_CURSOR included", stmt=f"{q_}: {short(c, 60)} protected")
            ck.ob("R2", fn_, True, "", stmt=f"{q_}: writes nothing outside the protected region")
    ck.expect(n_ov >= 1, "overrides of _display_animated not found")
    n_w = 0
    for fn, need in sites:
        for c in render_writes(fn):
            n_w += 1
            st = enclosing_stmt(c)
            tr = next((t for t, part in try_context(c) if part == "body" and t.handlers), None)
            if tr is None:
                ck.ob("R2", st, False, "render output is written outside any try with an interruption handler: an interrupted write leaves an open graphics command", stmt=f"{fn.name}: {short(c, 70)}")
                continue
            covered = set()
            ok_hook = True
            for h in tr.handlers:
                may, must = handler_classes(h)
                newly = must - covered
                if newly & need:
                    if not _handler_calls_hook_on_all_paths(h):
                        ok_hook = False
                covered |= must
            ck.ob("R2", st, need <= covered,
                  f"the handlers around this write certainly catch {sorted(covered)} but {sorted(need)} is required: "
                  f"{'an ordinary exception (e.g. OSError from the stream)' if EX in need - covered else 'Ctrl-C'} during the write skips the interrupted-draw hook, leaving the graphics command unterminated",
                  stmt=f"{fn.name}: handlers cover {sorted(need)}: {short(c, 60)}")
            ck.ob("R2", st, ok_hook, "a handler for an interruption of this write does not call the interrupted-draw hook on every path", stmt=f"{fn.name}: hook called in handlers: {short(c, 60)}")
            # the stream is buffered: the bytes reach the terminal when it is flushed, so the flush that delivers this write belongs to the same
            # protected region (a Ctrl-C during a flush outside it cuts the frame with no hook call)
            kwf = next((k.value for k in c.keywords if k.arg == "flush"), None)
            self_flushing = isinstance(kwf, ast.Constant) and kwf.value is True
            al_ = output_aliases(fn)
            later = [c2 for b_ in tr.body for c2 in walk_local(b_) if isinstance(c2, ast.Call) and c2.lineno >= c.lineno and c2 is not c
                     and ((isinstance(c2.func, ast.Attribute) and c2.func.attr == "flush") or (isinstance(c2.func, ast.Name) and norm(trace(fn, c2.func, use=c2)).endswith(".flush")))
                     and not (conds(c2) - conds(c))]
            ck.ob("R2", st, self_flushing or bool(later), "this render output is written inside the protected try but flushed outside it (or not at all): the flush is what delivers a buffered frame to the terminal, "
                  "and an interruption during it then bypasses the interrupted-draw hook", stmt=f"{fn.name}: write flushed inside the protected try: {short(c, 50)}")
    ck.expect(n_w >= 4, f"expected >= 4 render-output writes in the draw paths (one per driver), found {n_w}")

    # ---- R3 ----------------------------------------------------------------------------
    subs = m.subclasses("GraphicsImage")
    ck.expect(len(subs) >= 2, f"expected >= 2 GraphicsImage subclasses, found {len(subs)}")
    for rel, cls in subs:
        hook = next((s for s in cls.body if isinstance(s, ast.FunctionDef) and s.name == "_handle_interrupted_draw"), None)
        ck.ob("R3", cls, hook is not None, f"{cls.name} emits graphics commands but does not override _handle_interrupted_draw", stmt=f"{cls.name}: overrides hook")
        if hook is None:
            continue
        outs = output_calls(hook)
        ck.ob("R3", hook, len(outs) == 1, f"{cls.name}._handle_interrupted_draw must write exactly once", stmt=f"{cls.name}: hook writes once")
        if len(outs) != 1:
            continue
        c = outs[0]
        arg = c.args[0] if c.args else None
        from tiv import emit
        flat = []

        def fl_(t_):
            if isinstance(t_, emit.Seq):
                for i_ in t_.items:
                    fl_(i_)
            elif isinstance(t_, emit.Rep) and isinstance(t_.count, ast.Constant) and isinstance(t_.count.value, int) and 0 <= t_.count.value <= 4:
                for _ in range(t_.count.value):
                    fl_(t_.body)
            else:
                flat.append(t_)
        fl_(emit.Builder(hook).expr(arg) if arg is not None else emit.Seq([]))
        twice = len(flat) >= 2 and all(isinstance(x, emit.Sym) and x.text.split(".")[-1] in ("ST", "ST_b") for x in flat[:2])
        ck.ob("R3", c, twice, f"{cls.name}: the hook must start by writing ST twice (terminate a cut command; konsole needs two); found `{short(arg, 60)}`", stmt=f"{cls.name}: hook starts with ST * 2")
        fl = next((k.value for k in c.keywords if k.arg == "flush"), None)
        ck.ob("R3", c, isinstance(fl, ast.Constant) and fl.value is True, f"{cls.name}: the terminator must be flushed immediately", stmt=f"{cls.name}: hook flushes")
        rend = next((s for s in cls.body if isinstance(s, ast.FunctionDef) and s.name == "_render_image"), None)
        chunked = rend is not None and any(isinstance(x, ast.Call) and (call_name(x) or "").split(".")[-1] in ("get_chunks", "get_chunked") for x in ast.walk(rend))
        if chunked:
            hook_cases = emit.cases(emit.Builder(hook).expr(arg), {}, limit=4) or []
            every = bool(hook_cases) and all(any(isinstance(a_, emit.Sym) and a_.text.split(".")[-1] in ("KITTY_END_CHUNKED", "KITTY_END_CHUNKED_b") for a_ in emit.atoms(t_)) for _, t_ in hook_cases)
            ck.ob("R3", c, "KITTY_END_CHUNKED" in names_in(trace(hook, arg)) and every, f"{cls.name} transmits in chunks; its hook must also send KITTY_END_CHUNKED", stmt=f"{cls.name}: hook ends chunked transmission")
            # ... unconditionally: which frame was cut is not known to the hook (frames may come from a cache, rendered long before), so a flag that
            # remembers whether "the last render" was chunked says nothing about the transmission that was interrupted
            ta_ = trace(hook, arg)
            def _plain_end(e_):
                if isinstance(e_, (ast.Name, ast.Attribute)) and (dotted(e_) or "").split(".")[-1] in ("KITTY_END_CHUNKED", "KITTY_END_CHUNKED_b"):
                    return True
                if isinstance(e_, ast.BinOp) and isinstance(e_.op, ast.Add):
                    return _plain_end(e_.left) or _plain_end(e_.right)
                if isinstance(e_, ast.JoinedStr):
                    return any(isinstance(v_, ast.FormattedValue) and _plain_end(v_.value) for v_ in e_.values)
                if isinstance(e_, ast.Call) and isinstance(e_.func, ast.Attribute) and e_.func.attr == "join" and len(e_.args) == 1 and isinstance(e_.args[0], (ast.Tuple, ast.List)):
                    return any(_plain_end(x_) for x_ in e_.args[0].elts)          # `''.join((ST, ST, KITTY_END_CHUNKED))`: a plain concatenation too
                return False
            ck.ob("R3", c, _plain_end(ta_), f"{cls.name}: KITTY_END_CHUNKED must be sent unconditionally by the hook (not multiplied by / selected on a flag); found `{short(ta_, 70)}`", stmt=f"{cls.name}: hook ends chunked transmission unconditionally")

    # ---- R4 ----------------------------------------------------------------------------
    tr = next((s for s in anim_old.body if isinstance(s, ast.Try) and s.finalbody), None)
    ck.need(tr is not None, "_display_animated: try/finally not found")
    save = [st for t, st in stores_in(ast.Module(body=anim_old.body, type_ignores=[])) if isinstance(t, ast.Name) and isinstance(st, ast.Assign) and norm(st.value) == "self._seek_position"]
    ck.ob("R4", anim_old, len(save) == 1 and save[0].lineno < tr.lineno, "the current frame must be saved (`x = self._seek_position`) before the try", stmt="_display_animated: save seek position")
    fsrc = [norm(s) for s in tr.finalbody]
    saved = norm(save[0].targets[0]) if save else "?"
    ck.ob("R4", tr, f"self._seek_position = {saved}" in fsrc, "the finally must store the saved frame position back", stmt="_display_animated: restore seek position")
    ck.ob("R4", tr, any(s.endswith(".close()") for s in fsrc), "the finally must close the frame iterator", stmt="_display_animated: close iterator")
    ck.ob("R4", tr, "self._close_image(img)" in fsrc, "the finally must release the image", stmt="_display_animated: release image")
    uses = []
    for n in body_walk(anim_old):
        # the frame generator is advanced by next(<gen>) and by iterating over it
        x = n.args[0] if isinstance(n, ast.Call) and call_name(n) == "next" and n.args else (n.iter if isinstance(n, ast.For) else None)
        if x is not None:
            tx = norm(trace(anim_old, x))
            if "._animate(" in tx or tx.endswith("._animator"):
                uses.append(x)
    ck.expect(len(uses) >= 2, "_display_animated: uses of the frame generator not found")
    for u in uses:
        inside = any(t is tr and part == "body" for t, part in try_context(u))
        ck.ob("R4", enclosing_stmt(u), inside,
              "the frame generator is advanced (a frame is rendered) outside the try whose handlers end the animation silently and whose finally restores "
              "the frame position: Ctrl-C or a failure during that render propagates and the image keeps the wrong current frame", stmt=f"_display_animated: {short(enclosing_stmt(u), 60)} inside try")
    from rules.common import rule_renderer_restores_size
    rule_renderer_restores_size(ck, m, "R4")
    fins = [t for t in body_walk(draw_new) if isinstance(t, ast.Try) and t.finalbody]
    ck.ob("R4", draw_new, any("render_data.finalize()" == norm(s) for t in fins for s in t.finalbody), "Renderable.draw must finalize the render data in a finally", stmt="Renderable.draw: finalize in finally")
    fins = [t for t in body_walk(animate_new) if isinstance(t, ast.Try) and t.finalbody]
    ck.ob("R4", animate_new, any(norm(s).endswith("render_iter.close()") for t in fins for s in t.finalbody), "_animate_ must close its iterator in finally", stmt="_animate_: close iterator in finally")
    # everything between creating the iterator and the try is non-yielding set-up: first next() inside try
    for n in body_walk(animate_new):
        if isinstance(n, ast.Call) and call_name(n) == "next" or (isinstance(n, ast.For) and norm(n.iter) == "render_iter"):
            t_in = any(part == "body" and t.finalbody for t, part in try_context(n))
            ck.ob("R4", enclosing_stmt(n) if not isinstance(n, ast.For) else n, t_in, "_animate_: frames must be rendered inside the try whose finally closes the iterator", stmt=f"_animate_: {short(n, 40)} inside try")

    # ---- R5 ----------------------------------------------------------------------------
    for fn, silent in ((animate_new, True), (anim_old, True), (draw_new, False), (render_old, False)):
        n_h = 0
        for t in body_walk(fn):
            if isinstance(t, ast.Try):
                for h in t.handlers:
                    may, must = handler_classes(h)
                    if KI in must:
                        n_h += 1
                        rr = handler_reraise(h, KI)        # decided for the KeyboardInterrupt case of a handler shared with other classes
                        reraises, last_bare = rr != "never", rr == "always"
                        if silent:
                            ck.ob("R5", h, not reraises, f"{fn.name}: an animation must end silently on Ctrl-C, but this handler re-raises", stmt=f"{fn.name}: KI handler L-silent: {short(h.type, 40) if h.type else 'bare'}")
                        else:
                            ck.ob("R5", h, last_bare, f"{fn.name}: a still-image draw must propagate KeyboardInterrupt (handler must end in a bare raise)", stmt=f"{fn.name}: KI handler re-raises: {short(h.type, 40) if h.type else 'bare'}")
        ck.expect(n_h >= 1, f"{fn.name}: no KeyboardInterrupt handler found")
    # the whole body of the animation driver loop is covered by a silent KI handler
    outer = next((s for s in animate_new.body if isinstance(s, ast.Try) and s.finalbody), None)
    ck.ob("R5", outer or animate_new, outer is not None and any(KI in handler_classes(h)[1] and handler_reraise(h, KI) == "never" for h in outer.handlers),
          "_animate_: the outer try must have a silent KeyboardInterrupt handler (Ctrl-C during sleep/render ends the animation)", stmt="_animate_: outer silent KI handler")

    # ---- R6: terminal attributes (input echo) restored by draw(): the C13 rules, applied to Renderable.draw --------------------
    from tiv.report import Scoped
    import rules.c13 as c13
    sc = Scoped(ck, "R6", lambda c: "Renderable.draw" in c)
    c13.run(sc, m)
    ck.expect(sc.kept >= 2, f"expected >= 2 termios obligations for Renderable.draw from the C13 rules, found {sc.kept}")

    # ---- R5 (coverage): everything an animation can be interrupted in lies in the body of a try that catches KeyboardInterrupt ---
    for fn in (animate_new, anim_old):
        n_ops = 0
        for c in body_walk(fn):
            waits = isinstance(c, ast.Call) and (call_name(c) or "").split(".")[-1] in ("sleep", "next")
            loops_ = isinstance(c, ast.For)
            if not (waits or loops_):
                continue
            n_ops += 1
            prot = False
            for t, part in try_context(c):
                if part == "body" and any(KI in handler_classes(h)[1] for h in t.handlers):
                    prot = True
                    break
                if part != "body":
                    break          # inside else/finally/handler of the nearest try: not covered by its handlers
            ck.ob("R5", enclosing_stmt(c) if not loops_ else c, prot,
                  f"{fn.name}: `{short(c, 50)}` (a wait / frame step of the animation) is not inside the body of a try that catches KeyboardInterrupt - code in an else/finally clause is not "
                  "covered by the handlers - so Ctrl-C at that point propagates instead of ending the animation silently", stmt=f"{fn.name}: interruptible step protected: {short(c, 50)}")
        ck.expect(n_ops >= 3, f"{fn.name}: expected >= 3 waits / frame steps, found {n_ops}")



MUTANTS = [
    M("kitty-driver-deletes-first", KT, "KittyImage._display_animated", "            kwargs[\"blend\"] = False\n", "            kwargs[\"blend\"] = False\n            print(ctlseqs.KITTY_DELETE_Z_INDEX % kwargs[\"z_index\"], end=\"\", flush=True)\n", {"R2"}),
    M("sleep-in-else", RN, "Renderable._animate_", "            # left-over of last frame's duration\n            sleep(max(0, duration_ms * 10**6 - (perf_counter_ns() - start_ns)) / 10**9)\n        except KeyboardInterrupt:\n            pass\n",
      "        except KeyboardInterrupt:\n            pass\n        else:\n            sleep(max(0, duration_ms * 10**6 - (perf_counter_ns() - start_ns)) / 10**9)\n", {"R5"}),
    M("revert-fix-hide-before-try", CM, "BaseImage.draw",
      "            try:\n                # Hide the cursor immediately if the output is a terminal device\n                sys.stdout.isatty() and print(HIDE_CURSOR, end=\"\", flush=True)\n",
      "            sys.stdout.isatty() and print(HIDE_CURSOR, end=\"\", flush=True)\n            try:\n", {"R1"}),
    M("hide-before-try-new", RN, "Renderable.draw",
      "        try:\n            if hide_cursor:\n                output.write(HIDE_CURSOR)\n", "        if hide_cursor:\n            output.write(HIDE_CURSOR)\n        try:\n", {"R1"}),
    M("show-under-flag", RN, "Renderable.draw", "                if hide_cursor:\n                    output.write(SHOW_CURSOR)", "                if hide_cursor and animation:\n                    output.write(SHOW_CURSOR)", {"R1"}),
    M("narrow-handler-old-still", CM, "BaseImage.draw", "except (KeyboardInterrupt, Exception):", "except KeyboardInterrupt:", {"R2"}),
    M("drop-hook-call", RN, "Renderable._animate_",
      "                except KeyboardInterrupt:\n                    self._handle_interrupted_draw_(render_data, render_args, output)\n                    return\n\n                write(cursor_to_render_top_left)",
      "                except KeyboardInterrupt:\n                    return\n\n                write(cursor_to_render_top_left)", {"R2"}),
    M("delete-handler-anim-old", CM, "BaseImage._display_animated", "        except Exception:\n            self._handle_interrupted_draw()\n            raise\n", "", {"R2"}),
    M("hook-without-st", IT, "ITerm2Image._handle_interrupted_draw", "print(ctlseqs.ST * 2, end=\"\", flush=True)", "print(ctlseqs.CSI, end=\"\", flush=True)", {"R3"}),
    M("hook-without-endchunk", KT, "KittyImage._handle_interrupted_draw", "ctlseqs.ST * 2 + ctlseqs.KITTY_END_CHUNKED", "ctlseqs.ST * 2", {"R3"}),
    M("hook-not-flushed", KT, "KittyImage._handle_interrupted_draw", "end=\"\", flush=True", "end=\"\"", {"R3"}),
    M("drop-seek-restore", CM, "BaseImage._display_animated", "            self._seek_position = prev_seek_pos\n", "", {"R4"}),
    M("first-frame-outside-try", CM, "BaseImage._display_animated",
      "        try:\n            print(next(image_it._animator), end=\"\", flush=True)  # First frame\n", "        first = next(image_it._animator)\n        try:\n            print(first, end=\"\", flush=True)  # First frame\n", {"R4", "R2"}),
    M("drop-size-restore", CM, "BaseImage._renderer", "            if isinstance(_size, Size):\n                self.size = _size\n", "            pass\n", {"R4"}),
    M("anim-handler-raises", RN, "Renderable._animate_", "        except KeyboardInterrupt:\n            pass\n", "        except KeyboardInterrupt:\n            raise\n", {"R5"}),
    M("still-swallows", RN, "Renderable.draw", "                        render_data, real_render_args, output\n                    )\n                    raise\n", "                        render_data, real_render_args, output\n                    )\n", {"R5"}),
    M("sgr-reset-on-tty-only", CM, "BaseImage.draw", "print(SGR_DEFAULT, SHOW_CURSOR * sys.stdout.isatty(), sep=\"\")", "print((SGR_DEFAULT + SHOW_CURSOR) * sys.stdout.isatty(), end=\"\")", {"R1"}),
    M("sgr-reset-under-test", CM, "BaseImage.draw", "                print(SGR_DEFAULT, SHOW_CURSOR * sys.stdout.isatty(), sep=\"\")", "                if animation:\n                    print(SGR_DEFAULT, SHOW_CURSOR * sys.stdout.isatty(), sep=\"\")", {"R1"}),
    M("frame-flush-outside-try", RN, "Renderable._animate_", '                    write(frame.render_output.replace("\\n", cursor_to_next_render_line))\n                    flush()\n', '                    write(frame.render_output.replace("\\n", cursor_to_next_render_line))\n', {"R2"}),
    M("end-chunked-on-flag", KT, "KittyImage._handle_interrupted_draw", "ctlseqs.ST * 2 + ctlseqs.KITTY_END_CHUNKED", "ctlseqs.ST * 2 + ctlseqs.KITTY_END_CHUNKED * KittyImage._chunked", {"R3"}),
    M("twin-hook-order", KT, "KittyImage._handle_interrupted_draw", "ctlseqs.ST * 2 + ctlseqs.KITTY_END_CHUNKED", "2 * ctlseqs.ST + ctlseqs.KITTY_END_CHUNKED", twin=True),
]
