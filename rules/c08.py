"""C08 - a render iterator yields exactly the frames its operation history dictates: per-operation invariants
(DESIGN.md 4, C08). The frame sequence for an arbitrary history is a state-machine question - not decided."""
from __future__ import annotations

import ast

from tiv.astutil import ancestors as _anc, body_walk, call_name, dotted, enclosing_stmt, flatten_boolop, guards, kw, norm, short, stores_in, walk_local
from tiv.match import match_expr
from tiv.cfg import CFG, fmt_path
from tiv.mutate import M
from tiv.sem import _bool, trace, same_bool

RULES = {
    "R8": "who-may-write: every state cell of RenderIterator (loop, _padding, _padded_size, _render_args, _render_data, _closed, ...) is stored only by the "
          "methods listed in the rule's table (confirmed by reading); a new writer is reported",
    "MEMO": "memo safety (shared, rules/common.py): a memoised function in this property's files (or called from them) is a function of its "
            "arguments only (no terminal/ambient/receiver state outside the key) and no caller mutates its result in place",
    "R1": "closed guard first: in seek/set_frame_duration/set_padding/set_render_args/set_render_size the `if self._closed: raise "
          "FinalizedIteratorError` guard is the first statement; __next__ maps a finalized iterator to StopIteration",
    "R2": "reject without changing state: in those methods no store to self.* or to the render-data namespace lies on a path that can still "
          "reach a `raise` statement (validate before mutate); a statement that constructs RenderArgs(...) (which raises IncompatibleRenderArgsError) counts as a validation step",
    "R3": "settings are read at render time: after the dummy yield, _iterate reads the mutable cells at the point of use (self._render_args, "
          "self._padding, self._padded_size, fields through the renderable-data namespace object the setters write into) - never a local/"
          "parameter snapshot taken before the yield; the first frame number is read from frame_offset after the dummy yield (a seek before "
          "the first next() takes effect, and frames are cached under their own number); a value captured before the first frame may be read during iteration only if its traced source depends on no cell a control method can write; the public `loop` attribute is write-only inside the loops of _iterate (the countdown is a local)",
    "R4": "the iterator never moves the renderable: render/_iterator.py stores to no attribute of the renderable and uses only "
          "{animated, frame_count, _render_, _init_render_} of it",
    "R5": "one seek rule: Renderable.seek and the definite branch of RenderIterator.seek compute the target with the same expression shape and "
          "range test; the INDEFINITE branch rejects exactly START&offset<0 / END&offset>0; every accepted seek is recorded by a single "
          "update(frame_offset=..., seek_whence=...) on every non-raising path; _iterate hands a pending seek over once (target, range test in either polarity and recorded update are found by role and compared as traced expressions / canonical boolean forms)",
    "R7": "set_padding applies from the next frame even to cached frames: the cache holds unpadded frames and the padding step runs after the "
          "cache with the current padding (shared with C09.R2); shared with C09.R1/R4: a cached frame is served only if every mutable render input is unchanged",
    "R6": "the padded size is maintained: every store to self._padding or to the render size is followed in the same method by "
          "self._padded_size = self._padding.get_padded_size(<the current/new size>)",
}
IT, RN = "render/_iterator.py", "renderable/_renderable.py"
CONTROL = ("seek", "set_frame_duration", "set_padding", "set_render_args", "set_render_size")
ALLOWED_RENDERABLE_ATTRS = {"animated", "frame_count", "_render_", "_init_render_"}


def _is_state_store(n):
    """CFG stmt node that stores iterator state or render-data fields."""
    if n.kind != "stmt" or n.ast is None:
        return False
    for t, st in stores_in(n.ast):
        d = dotted(t) or ""
        if d.startswith("self.") or d.startswith("renderable_data."):
            return True
    for c in ast.walk(n.ast):
        if isinstance(c, ast.Call) and (call_name(c) or "").endswith("renderable_data.update"):
            return True
    return False


def run(ck, m):
    from rules.common import rule_memo_safety
    rule_memo_safety(ck, m, "MEMO", "C08")          # first: a memoised helper also hides the code it wraps from the rules below
    cls = m.get(IT, "RenderIterator")
    # ---- R1 / R2 --------------------------------------------------------------------------
    for meth in CONTROL:
        f = m.get(IT, f"RenderIterator.{meth}")
        b = [s for s in f.body if not (isinstance(s, ast.Expr) and isinstance(s.value, ast.Constant))]
        ok = isinstance(b[0], ast.If) and norm(b[0].test) == "self._closed" and isinstance(b[0].body[0], ast.Raise) and "FinalizedIteratorError" in norm(b[0].body[0])
        ck.ob("R1", f, ok, f"{meth}(): the finalized-iterator guard must be the first statement", stmt=f"{meth}: closed guard first")
        g = CFG(f)
        raises = [n for n in g.nodes if n.kind == "stmt" and isinstance(n.ast, ast.Raise)]
        # (the validating constructor of render arguments raises IncompatibleRenderArgsError: a statement that calls it is a validation step too)
        raises += [n for n in g.nodes if n.kind in ("stmt", "test") and n.ast is not None and not isinstance(n.ast, (ast.If, ast.While, ast.For, ast.Try, ast.With))
                   and any(isinstance(c_, ast.Call) and (call_name(c_) or "").split(".")[-1] == "RenderArgs" for c_ in ast.walk(n.ast))]
        for s in [n for n in g.nodes if _is_state_store(n)]:
            p = g.search([s], lambda n: n in raises, edge_ok=lambda a, lab, d: not lab.startswith(("e:", "p:")))
            ck.ob("R2", s.ast, p is None, f"{meth}(): state is changed by `{short(s.ast, 50)}` and a validation error can still be raised afterwards ({fmt_path(p) if p else ''}): "
                  "a rejected operation would leave the iterator half-updated", stmt=f"{meth}: {short(s.ast, 70)} after validation")
    nx = m.get(IT, "RenderIterator.__next__")
    # a `raise StopIteration(...)` under `self._closed` (alone, or together with a test that the caught exception is the AttributeError
    # of the deleted generator), at the top of __next__ or in a handler that catches AttributeError
    from rules.common import closed_stop as _closed_stop
    ck.ob("R1", nx, any(_closed_stop(r) for r in body_walk(nx)), "__next__ on a finalized iterator must raise StopIteration", stmt="__next__: closed -> StopIteration")

    # ---- R3 ----------------------------------------------------------------------------
    from rules.c09 import iterate_facts
    itf, _rc = iterate_facts(ck, m)          # locals renamed to their roles (frame, cache, frame_no, ...)
    ys = [s for s in itf.body if isinstance(s, ast.Expr) and isinstance(s.value, ast.Yield)]
    ck.need(len(ys) == 1 and norm(ys[0].value.value) == "DUMMY_FRAME", "_iterate: top-level dummy `yield DUMMY_FRAME` not found")
    yline = ys[0].lineno
    pre = {}
    for t, st in stores_in(ast.Module(body=[s for s in itf.body if s.lineno < yline], type_ignores=[])):
        if isinstance(t, ast.Name):
            pre[t.id] = st
    params = {a.arg for a in itf.args.args} - {"self"}
    post = [s for s in itf.body if s.lineno > yline]
    # a value captured before the first frame may be used by the render loop only if it does not depend on a cell a control method can
    # write (set_*/seek): the source of every snapshot is traced, parameters stand for the cell they are stored into
    from rules.c09 import mutable_cells
    mutable = mutable_cells(m)
    param_cell = {}
    for t, st in stores_in(ast.Module(body=[s for s in itf.body if s.lineno < yline], type_ignores=[])):
        if isinstance(st, ast.Assign) and isinstance(st.value, ast.Name) and st.value.id in params and (dotted(t) or "").startswith("self."):
            param_cell[st.value.id] = dotted(t)

    def cells_of(e):
        out = set()
        for n in ast.walk(e):
            d = dotted(n) if isinstance(n, ast.Attribute) else None
            if d and (d.startswith("renderable_data.") or d.startswith("self._renderable_data.")):
                out.add("data." + d.split(".")[-1])
            elif d and d.startswith("self.") and d.count(".") == 1:
                out.add(d)
            elif isinstance(n, ast.Name) and n.id in param_cell:
                out.add(param_cell[n.id])
        return out
    used = {}
    for s in post:
        for n in walk_local(s):
            if isinstance(n, ast.Name) and isinstance(n.ctx, ast.Load) and (n.id in pre or n.id in params):
                used.setdefault(n.id, n)
    for nm, node in sorted(used.items()):
        src = trace(itf, pre[nm].value, keep=("renderable_data",)) if nm in pre and isinstance(pre[nm], ast.Assign) else ast.Name(id=nm, ctx=ast.Load())
        dep = sorted(cells_of(src) & mutable)
        ck.ob("R3", enclosing_stmt(node), not dep,
              f"_iterate reads `{nm}` during iteration, a value captured before the first frame ({short(pre.get(nm), 60) if nm in pre else 'parameter'}) from {dep}, which a control method can change: a later "
              f"set_*() call would not take effect from the next rendered frame", stmt=f"_iterate: snapshot `{nm}` used after the dummy yield")
    ck.ob("R3", itf, True, "snapshot scan", stmt="_iterate: snapshot scan of the render loop")
    # renderable_data is the namespace object the setters write into
    al = next((s for s in itf.body if isinstance(s, ast.Assign) and len(s.targets) == 2 and {norm(t) for t in s.targets} == {"self._renderable_data", "renderable_data"}), None)
    ck.ob("R3", al or itf, al is not None and norm(al.value) == "render_data[Renderable]",
          "`renderable_data` must be the very namespace object stored in self._renderable_data (the one the setters write into), not a copy", stmt="_iterate: renderable_data aliases self._renderable_data")
    rc = [c for c in body_walk(itf) if isinstance(c, ast.Call) and norm(c.func) == "renderable._render_"]
    ck.need(len(rc) == 1, "_iterate: renderable._render_(...) call not found")
    ck.ob("R3", enclosing_stmt(rc[0]), [norm(a) for a in rc[0].args] == ["render_data", "self._render_args"], f"_render_ must be called with the current `self._render_args`; found {[norm(a) for a in rc[0].args]}",
          stmt="_iterate: _render_(render_data, self._render_args)")
    fno = [st for t, st in stores_in(ast.Module(body=itf.body, type_ignores=[])) if isinstance(t, ast.Name) and t.id == "frame_no"]
    first = min(fno, key=lambda s: s.lineno) if fno else None
    ck.ob("R3", first or itf, first is not None and first.lineno > yline and "renderable_data.frame_offset" in norm(first.value),
          "the first frame number must be read from renderable_data.frame_offset AFTER the dummy yield: a seek issued before the first next() otherwise renders frame k "
          "but files it (and serves it later) as frame 0", stmt="_iterate: frame_no initialised from frame_offset after the dummy yield")
    setters_write = set()
    for meth in CONTROL:
        f = m.get(IT, f"RenderIterator.{meth}")
        for t, st in stores_in(ast.Module(body=f.body, type_ignores=[])):
            d = dotted(t) or ""
            if d.startswith("self._renderable_data."):
                setters_write.add(d)
        for st in f.body:
            if isinstance(st, ast.Assign) and norm(st.value) == "self._renderable_data":
                setters_write.add("alias:" + norm(st.targets[0]))
    ck.ob("R3", cls, bool(setters_write), "setters must write render-data fields through self._renderable_data", stmt="setters write through self._renderable_data")

    # ---- R4 ----------------------------------------------------------------------------
    used_attrs = {}
    for n in m.walk(IT):
        if isinstance(n, ast.Attribute):
            b = dotted(n.value)
            if b in ("renderable", "self._renderable", "new._renderable"):
                used_attrs.setdefault(n.attr, n)
                if isinstance(n.ctx, (ast.Store, ast.Del)):
                    ck.ob("R4", enclosing_stmt(n), False, f"`{norm(n)}` writes an attribute of the renderable from the iterator", stmt=f"store {norm(n)}")
    for a, n in sorted(used_attrs.items()):
        ck.ob("R4", enclosing_stmt(n), a in ALLOWED_RENDERABLE_ATTRS,
              f"the iterator uses `renderable.{a}`; only {sorted(ALLOWED_RENDERABLE_ATTRS)} are part of its contract (seek/tell/_frame would move or depend on the renderable's own current frame; "
              f"render_size would bypass the size set on the iterator)", stmt=f"renderable.{a} used by the iterator")
    ck.expect(len(used_attrs) >= 4, "uses of the renderable in the iterator not found")
    grd = m.get(RN, "Renderable._get_render_data_")
    ck.ob("R4", grd, "frame_offset=self._frame" in norm(grd) and not any(norm(t) == "self._frame" for t, _ in stores_in(ast.Module(body=grd.body, type_ignores=[]))),
          "_get_render_data_ must copy (read) the renderable's current frame into frame_offset", stmt="_get_render_data_: frame_offset=self._frame (read only)")

    # ---- R5 ----------------------------------------------------------------------------
    rs = m.get(RN, "Renderable.seek")
    isk = m.get(IT, "RenderIterator.seek")

    # the seek target by role: the value stored as the renderable's current frame / recorded as frame_offset together with Seek.START;
    # compared as traced expressions with the current position and the frame count abstracted
    KEEP = ("whence", "offset")
    sa = next((st for t, st in stores_in(ast.Module(body=rs.body, type_ignores=[])) if norm(t) == "self._frame" and isinstance(st, ast.Assign)), None)
    ups = [c for c in body_walk(isk) if isinstance(c, ast.Call) and isinstance(c.func, ast.Attribute) and c.func.attr == "update" and norm(trace(isk, c.func.value)) == "self._renderable_data"]
    up_def = [c for c in ups if kw(c, "seek_whence") is not None and norm(trace(isk, kw(c, "seek_whence"), keep=KEEP)) == "Seek.START" and kw(c, "frame_offset") is not None]
    up_ind = [c for c in ups if kw(c, "seek_whence") is not None and norm(trace(isk, kw(c, "seek_whence"), keep=KEEP)) == "whence" and kw(c, "frame_offset") is not None]
    va = sa.value if sa is not None else None
    vb = kw(up_def[0], "frame_offset") if len(up_def) == 1 else None

    def canon_target(fn, v, cur, cnt):
        return None if v is None else norm(trace(fn, v, keep=KEEP)).replace(cur, "<CUR>").replace(cnt, "<N>")
    a = canon_target(rs, va, "self._frame", "self.frame_count")
    b = canon_target(isk, vb, "self._renderable_data.frame_offset", "self._renderable.frame_count")
    canon = "offset if whence is Seek.START else <CUR> + offset if whence is Seek.CURRENT else <N> + offset - 1"
    sb = enclosing_stmt(up_def[0]) if len(up_def) == 1 else None
    ck.ob("R5", sb or isk, a is not None and a == b, f"seek target differs: Renderable.seek `{a}` vs RenderIterator.seek `{b}`", stmt="seek: sibling target expressions agree")
    ck.ob("R5", sa or rs, a == canon, f"seek target must be START: offset; CURRENT: current+offset; END: frame_count+offset-1; found `{a}`", stmt="seek: canonical target expression")
    for fn, nm, v, cnt, site in ((rs, "Renderable.seek", va, "self.frame_count", sa), (isk, "RenderIterator.seek", vb, "self._renderable.frame_count", sb)):
        # the range test: the target is stored/recorded only under `0 <= <target> < <frame count>` and the complement raises (either
        # polarity of the `if`, guard clause or enclosing test; canonical boolean form: chains, De Morgan, flipped operands)
        okr = False
        if v is not None and site is not None:
            tv = norm(trace(fn, v, keep=KEEP))
            inr = _bool(ast.parse(f"0 <= ({tv}) < ({cnt})", mode="eval").body)
            outr = _bool(ast.parse(f"not 0 <= ({tv}) < ({cnt})", mode="eval").body)
            ok_site = any(_bool(trace(fn, g_, keep=KEEP), neg=not b_) == inr for g_, b_ in guards(site))
            ok_raise = any(isinstance(r_, ast.Raise) and any(_bool(trace(fn, g_, keep=KEEP), neg=not b_) == outr for g_, b_ in guards(r_)) for r_ in body_walk(fn))
            okr = ok_site and ok_raise
        ck.ob("R5", fn, okr, f"{nm}: the range test must be `not 0 <= frame < frame_count` -> raise", stmt=f"{nm}: range test")
    ind = next((s for s in isk.body if isinstance(s, ast.If) and norm(s.test) == "frame_count is FrameCount.INDEFINITE"), None)
    ck.need(ind is not None, "RenderIterator.seek: INDEFINITE branch not found")
    rej = next((s for s in ind.body if isinstance(s, ast.If) and isinstance(s.body[0], ast.Raise)), None)
    okrej, wit = rej is not None, None
    if rej is not None:
        from tiv.absdom import EvUnk, ev
        import itertools
        rt_ = trace(isk, rej.test, keep=("whence", "offset"))
        try:
            for wh, off in itertools.product(("Seek.START", "Seek.CURRENT", "Seek.END"), (-1, 0, 1)):
                got = bool(ev(rt_, {"whence": wh, "offset": off}))
                want_ = (wh == "Seek.START" and off < 0) or (wh == "Seek.END" and off > 0)
                if got != want_ and wit is None:
                    wit = (wh, off, got)
            okrej = wit is None
        except EvUnk as e:
            ck.expect(False, f"RenderIterator.seek: INDEFINITE rejection predicate not evaluable on the abstract domain ({e})")
            okrej = None
    if okrej is not None:
        ck.ob("R5", rej or ind, okrej, f"INDEFINITE seeks must reject exactly START&offset<0 or END&offset>0; found `{norm(rej.test) if rej else None}`" + (f" - for whence={wit[0]}, offset={wit[1]} it gives {wit[2]}" if wit else ""),
              stmt="seek[INDEFINITE]: rejection predicate")
    ok_ups = len(ups) == 2 and len(up_def) == 1 and len(up_ind) == 1 and norm(trace(isk, kw(up_ind[0], "frame_offset"), keep=KEEP)) == "offset" \
        and all({k.arg for k in c.keywords} == {"frame_offset", "seek_whence"} and not c.args for c in ups)
    got = sorted(", ".join(f"{k.arg}={norm(k.value)}" for k in c.keywords) for c in ups)
    ck.ob("R5", isk, ok_ups, f"seek must record (offset, whence) for INDEFINITE and (frame, START) for definite sources in a single update() each; found {got}", stmt="seek: recorded by single update()")
    g = CFG(isk)
    is_up = lambda n: n.kind == "stmt" and n.ast is not None and any(any(c is u_ for u_ in ups) for c in ast.walk(n.ast))  # noqa: E731  (the update() calls found by role above)
    p = g.search([g.entry], lambda n: n is g.exit_return, avoid=is_up, from_succ=False, edge_ok=lambda s, lab, d: not lab.startswith(("e:", "p:")))
    ck.ob("R5", isk, p is None, f"seek() can return normally without recording the seek ({fmt_path(p) if p else ''}): an accepted seek must take effect at the next render "
          "(and cancel a previously pending one), and an out-of-range one must be rejected", stmt="seek: every accepted seek is recorded")
    def _rd_same(t, use_):
        """the was-seeked test with every alias of the renderable-data namespace (self._renderable_data, render_data[Renderable], locals bound to them) read as RD"""
        src = norm(trace(itf, t, use=use_, keep=("CURRENT",)))
        for v_ in sorted(rd_vals, key=len, reverse=True):
            src = src.replace(v_, "RD")
        try:
            return same_bool(None, ast.parse(src, mode="eval").body, "RD.frame_offset or RD.seek_whence != Seek.CURRENT", expand_b=False) \
                or same_bool(None, ast.parse(src, mode="eval").body, "RD.frame_offset or RD.seek_whence != CURRENT", expand_b=False)
        except SyntaxError:
            return False
    rd_vals = {"self._renderable_data"} | {norm(trace(itf, st_.value, use=st_)) for t_, st_ in stores_in(ast.Module(body=itf.body, type_ignores=[])) if norm(t_) == "self._renderable_data" and getattr(st_, "value", None) is not None}
    hand = [c for c in body_walk(itf) if isinstance(c, ast.Call) and isinstance(c.func, ast.Attribute) and c.func.attr == "update" and norm(trace(itf, c.func.value, use=c)) in rd_vals]
    ok = len(hand) == 1 and {k.arg: norm(trace(itf, k.value)) for k in hand[0].keywords} == {"frame_offset": "0", "seek_whence": "Seek.CURRENT"} and any(
        b_ and (same_bool(itf, t, "renderable_data.frame_offset or renderable_data.seek_whence != Seek.CURRENT") or _rd_same(t, hand[0])) for t, b_ in guards(hand[0]))
    ck.ob("R5", hand[0] if hand else itf, ok, "after a render, a pending INDEFINITE seek must be reset to (0, CURRENT) under the was-seeked test (handed over exactly once)", stmt="_iterate: pending seek reset")
    # the reset happens after the render and before the yield of that frame
    if hand:
        ck.ob("R5", hand[0], rc[0].lineno < hand[0].lineno, "the pending seek must be reset only after the frame was rendered with it", stmt="_iterate: reset after render")

    # the public `loop` attribute is a progress *report*: _iterate counts in a local and only writes the attribute. Reading it back inside the loops makes
    # a consumer's write to `.loop` (documented as having no effect) cut the iteration short or extend it
    rd_loop = [x for lp_ in body_walk(itf) if isinstance(lp_, (ast.While, ast.For)) for x in ast.walk(lp_)
               if isinstance(x, ast.Attribute) and norm(x) == "self.loop" and isinstance(x.ctx, ast.Load)]
    aug_loop = [x for x in body_walk(itf) if isinstance(x, ast.AugAssign) and norm(x.target) == "self.loop"]
    ck.ob("R3", enclosing_stmt((rd_loop + aug_loop)[0]) if (rd_loop or aug_loop) else itf, not rd_loop and not aug_loop,
          "_iterate reads the public `loop` attribute back while iterating: the number of loops left then depends on whatever a consumer stores there (documented: \"modifying this doesn't affect the iterator\")",
          stmt="_iterate: the loop countdown is a local; self.loop is write-only inside the loops")
    rule_padded_size_maintained(ck, m, "R6")

    # ---- R8: who may write which state cell of the iterator (confirmed by reading; one line of reason each) ------------------
    WRITERS = {
        "_cached": {"_init"},                                        # decided once from the cache argument
        "_closed": {"_init", "close"},                               # finalization flag: only close() sets it
        "_finalize_data": {"__init__", "_from_render_data_"},         # ownership of the render data is fixed at construction
        "_iterator": {"__init__", "_from_render_data_", "close"},     # the generator; close() deletes it
        "_loops": {"_init"},
        "_padded_size": {"_iterate", "set_padding", "set_render_size"},   # C08.R6: follows padding and size
        "_padding": {"__init__", "_from_render_data_", "set_padding"},
        "_render_args": {"_iterate", "set_render_args"},
        "_render_data": {"_iterate", "close"},
        "_renderable": {"_init"},
        "_renderable_data": {"_iterate"},
        "loop": {"_init", "_iterate"},                               # the countdown: consumed only by completed passes of the generator
    }
    seen = {}
    for rel_, q_, t, st in m.stores(IT):
        if isinstance(t, ast.Attribute) and norm(t.value) in ("self", "new") and (getattr(st, "_q", "") or "").startswith("RenderIterator."):
            seen.setdefault(t.attr, []).append(((getattr(st, "_q", "") or "").split(".")[-1].split("#")[0], st))
    for cell, ws in sorted(seen.items()):
        for meth, st in ws:
            ck.ob("R8", st, cell in WRITERS and meth in WRITERS[cell],
                  f"RenderIterator.{meth} writes `{cell}`, which only {sorted(WRITERS.get(cell, []))} may write: " + (
                      "the loop countdown would change although no pass of the frames was consumed (and `loop` is what control methods and callers read)" if cell == "loop" else
                      "a state cell changed outside the methods that keep the iterator's invariants for it"), stmt=f"writers of RenderIterator.{cell}: {meth}")
    ck.expect(len(seen) >= 10, f"expected >= 10 state cells of RenderIterator, found {len(seen)}")

    # ---- R7 ----------------------------------------------------------------------------
    from rules.c09 import rule_padding_after_cache
    rule_padding_after_cache(ck, m, "R7")
    # ---- shared with C09.R1/R4: a cached frame is served only if every mutable render input is unchanged
    from tiv.report import borrow
    import rules.c09 as c09
    borrow(ck, c09, m, "R7", lambda c: c.endswith("RenderIterator._iterate"), rids={"R1", "R4"}, min_kept=6)


def rule_padded_size_maintained(ck, m, rid):
    cls = m.get(IT, "RenderIterator")
    itf = m.get(IT, "RenderIterator._iterate")
    ys = [s for s in itf.body if isinstance(s, ast.Expr) and isinstance(s.value, ast.Yield)]
    yline = ys[0].lineno if ys else 0
    n6 = 0
    for st_cls in cls.body:
        if not isinstance(st_cls, ast.FunctionDef):
            continue
        f = st_cls
        sts = stores_in(ast.Module(body=f.body, type_ignores=[]))
        trig = [st for t, st in sts if (dotted(t) or "") in ("self._padding", "self._renderable_data.size")]
        if not trig or f.name in ("__init__",):
            continue
        n6 += 1
        ps = [st for t, st in sts if (dotted(t) or "") == "self._padded_size"]
        ok = bool(ps) and all(p.lineno > max(t.lineno for t in trig) for p in ps)
        ck.ob(rid, f, ok, f"{f.name}: stores {[short(t, 40) for t in trig]} but does not recompute self._padded_size afterwards", stmt=f"{f.name}: _padded_size recomputed after the store")
        for p_ in ps:
            v = p_.value
            okv = isinstance(v, ast.Call) and norm(v.func) == "self._padding.get_padded_size" and len(v.args) == 1
            arg = norm(v.args[0]) if okv else None
            stored_size = [norm(st.value) for t, st in sts if (dotted(t) or "") == "self._renderable_data.size"]
            ck.ob(rid, p_, okv and (arg in ("self._renderable_data.size", "renderable_data.size") or arg in stored_size),
                  f"{f.name}: the padded size must be computed by the stored (resolved) padding from the current render size; found `{short(v, 70)}`",
                  stmt=f"{f.name}: self._padded_size = self._padding.get_padded_size(<current size>)")
    ps = [st for t, st in stores_in(ast.Module(body=itf.body, type_ignores=[])) if (dotted(t) or "") == "self._padded_size"]
    # (`renderable_data` is the very object stored in self._renderable_data - R3 checks the aliasing - so either spelling names the data's size)
    ck.ob(rid, itf, len(ps) == 1 and norm(ps[0].value) in ("self._padding.get_padded_size(renderable_data.size)", "self._padding.get_padded_size(self._renderable_data.size)") and ps[0].lineno < yline
          and (norm(ps[0].value).endswith("(renderable_data.size)") or any(isinstance(s_, ast.Assign) and any(norm(t_) == "self._renderable_data" for t_ in s_.targets) and s_.lineno < ps[0].lineno for s_ in itf.body)),
          "_iterate must initialise self._padded_size from the stored padding and the data's size before the dummy yield", stmt="_iterate: initial _padded_size")
    ck.expect(n6 >= 2, "setters that change padding/size not found")



MUTANTS = [
    M("close-zeroes-loop", IT, "RenderIterator.close", "            self._closed = True\n", "            self.loop = 0\n            self._closed = True\n", {"R8"}),
    M("guard-below-store", IT, "RenderIterator.set_frame_duration",
      "        if self._closed:\n            raise FinalizedIteratorError(\"This iterator has been finalized\") from None\n\n        if isinstance(duration, int) and duration <= 0:\n            raise arg_value_error_range(\"duration\", duration)\n\n        self._renderable_data.duration = duration\n",
      "        self._renderable_data.duration = duration\n        if self._closed:\n            raise FinalizedIteratorError(\"This iterator has been finalized\") from None\n\n        if isinstance(duration, int) and duration <= 0:\n            raise arg_value_error_range(\"duration\", duration)\n", {"R1", "R2"}),
    M("store-before-range-check", IT, "RenderIterator.seek", "            if not 0 <= frame < frame_count:", "            renderable_data.frame_offset = frame\n            if not 0 <= frame < frame_count:", {"R2"}),
    M("snapshot-render-args", IT, "RenderIterator._iterate", "frame = renderable._render_(render_data, self._render_args)", "frame = renderable._render_(render_data, render_args)", {"R3"}),
    M("snapshot-padding", IT, "RenderIterator._iterate", "        CURRENT = Seek.CURRENT\n", "        CURRENT = Seek.CURRENT\n        padding = self._padding\n", twin=True),
    M("snapshot-padding-used", IT, "RenderIterator._iterate", "        CURRENT = Seek.CURRENT\n", "        CURRENT = Seek.CURRENT\n        padded_size = self._padded_size\n", twin=True),
    M("frame-no-zero", IT, "RenderIterator._iterate", "frame_no = renderable_data.frame_offset * definite", "frame_no = 0", {"R3"}),
    M("frame-no-before-yield", IT, "RenderIterator._iterate",
      "        yield DUMMY_FRAME\n\n        # Render iteration\n        frame_no = renderable_data.frame_offset * definite\n",
      "        frame_no = renderable_data.frame_offset * definite\n        yield DUMMY_FRAME\n\n        # Render iteration\n", {"R3"}),
    M("iterator-seeks-renderable", IT, "RenderIterator._iterate", "                if definite:\n                    renderable_data.frame_offset += 1", "                if definite:\n                    renderable.seek(frame_no)\n                    renderable_data.frame_offset += 1", {"R4"}),
    M("set-padding-uses-renderable-size", IT, "RenderIterator.set_padding", "self._padding.get_padded_size(self._renderable_data.size)", "self._padding.get_padded_size(self._renderable.render_size)", {"R4", "R6"}),
    M("end-off-by-one", IT, "RenderIterator.seek", "else frame_count + offset - 1", "else frame_count + offset", {"R5"}),
    M("seek-fast-path", IT, "RenderIterator.seek", "        frame_count = self._renderable.frame_count\n", "        if whence is Seek.CURRENT and not offset:\n            return\n\n        frame_count = self._renderable.frame_count\n", {"R5"}),
    M("forget-padded-size", IT, "RenderIterator.set_render_size", "        self._padded_size = self._padding.get_padded_size(render_size)\n", "", {"R6"}),
    M("revert-fix-set-padding", IT, "RenderIterator.set_padding", "self._padding.get_padded_size(self._renderable_data.size)", "padding.get_padded_size(self._renderable_data.size)", {"R6"}),
    M("cache-store-below-padding", IT, "RenderIterator._iterate",
      "                        self._padding.pad(frame.render_output, frame.render_size),\n                    )\n",
      "                        self._padding.pad(frame.render_output, frame.render_size),\n                    )\n                    if cache:\n                        cache[frame_no] = (frame, *cache[frame_no][1:])\n", {"R7"}),
    M("store-before-validating-ctor", IT, "RenderIterator.set_render_args", "        render_cls = type(self._renderable)\n", "        render_cls = type(self._renderable)\n        self._render_args = render_args\n", {"R2"}),
    M("loop-attr-is-the-counter", IT, "RenderIterator._iterate", "            if loop > 0:  # Avoid infinitely large negative numbers\n                self.loop = loop = loop - 1\n", "            if loop > 0:  # Avoid infinitely large negative numbers\n                self.loop -= 1\n                loop = self.loop\n", {"R3"}),
    M("twin-local-alias", IT, "RenderIterator.set_render_size", "        self._renderable_data.size = render_size\n", "        data = self._renderable_data\n        self._renderable_data.size = render_size\n", twin=True),
]
