"""C09 - frame caching is invisible except for speed: cache-key coverage and cache discipline (DESIGN.md 4, C09).
Relational equivalence of cached/uncached runs over histories is not decided."""
from __future__ import annotations

import ast

from tiv.astutil import flatten_boolop, body_walk, call_name, dotted, enclosing_stmt, guards, kw, norm, short, stores_in, walk_local
from tiv.cfg import CFG, fmt_path
from tiv.mutate import M
from tiv.sem import trace, expand, same, same_bool, cx

RULES = {
    "MEMO": "memo safety (shared, rules/common.py): a memoised function in this property's files (or called from them) is a function of its "
            "arguments only (no terminal/ambient/receiver state outside the key) and no caller mutates its result in place",
    "R1": "the cache key covers every mutable render input: every render-data field / iterator cell that a public control method can change and "
          "that _render_ receives (minus the cache index frame_offset and seek_whence) appears in the tuple compared against the cached details, "
          "and the tuple stored with a frame lists the same expressions in the same order (the miss condition is taken as the disjuncts of its traced truth value, so helpers, early returns and conditional expressions around the lookup do not matter; the details compared are those stored with the entry of the current frame number)",
    "R2": "padding is applied after the cache: what is stored in the cache is the frame as returned by _render_, never the padded frame "
          "(no cache store is reachable from the padding step within an iteration)",
    "R3": "cache switch: _cached is False for INDEFINITE sources, else cache itself if bool, else frame_count <= cache; _animate_ disables the cache "
          "exactly when loops == 1; the argument check rejects cache <= 0 unless it is False",
    "R4": "a hit renders nothing: the only _render_ call of _iterate is guarded by the miss condition (no frame cached, or details differ): its disjuncts are exactly {no cache, no frame stored for this number, details differ}, and on a hit the frame served is cache[frame_no][0]; every render made while caching is on is stored: the store has no condition of its own beyond the caching switch",
    "R5": "image iterator: every store into ImageIterator's cache records hash(image.rendered_size) evaluated at the store (after the render), the "
          "second phase compares a fresh hash with the stored one and re-renders on a mismatch; alpha/fmt/style_args are never rebound",
}
IT, RN, CM = "render/_iterator.py", "renderable/_renderable.py", "image/common.py"
CONTROL = ("seek", "set_frame_duration", "set_padding", "set_render_args", "set_render_size")


def _anc(n):
    p = getattr(n, "_p", None)
    while p is not None:
        yield p
        p = getattr(p, "_p", None)


def _nowalrus(e):
    """`(x := v)` -> v"""
    class T(ast.NodeTransformer):
        def visit_NamedExpr(self, n):
            return self.visit(n.value)
    from tiv.astutil import clone
    return T().visit(clone(e))


def mutable_cells(m):
    """Cells a control method (set_*/seek) can write: 'data.<field>' for fields of the renderable-data namespace, 'self._x' for iterator attributes."""
    mutable = set()
    for meth in CONTROL:
        f = m.get(IT, f"RenderIterator.{meth}")
        for t, st in stores_in(ast.Module(body=f.body, type_ignores=[])):
            d = dotted(t) or ""
            if d.startswith("self._renderable_data."):
                mutable.add("data." + d.split(".")[-1])
            elif d.startswith("self._"):
                mutable.add(d)
        for c in body_walk(f):
            if isinstance(c, ast.Call) and norm(c.func) in ("renderable_data.update", "self._renderable_data.update"):
                for k in c.keywords:
                    mutable.add("data." + k.arg)
    return mutable


def iterate_facts(ck, m):
    """The frame generator with its locals renamed to the roles the rules are written with (tiv.roles): frame, cache, frame_no,
    cache_entry, frame_details, renderable, renderable_data."""
    from tiv.roles import rename_locals
    itf = m.get(IT, "RenderIterator._iterate")
    rc = [c for c in body_walk(itf) if isinstance(c, ast.Call) and isinstance(c.func, ast.Attribute) and c.func.attr == "_render_"]
    ck.need(len(rc) == 1, "_iterate: <renderable>._render_(...) call not found")
    rc = rc[0]
    roles = {}
    if isinstance(rc.func.value, ast.Name):
        roles[rc.func.value.id] = "renderable"
    st = enclosing_stmt(rc)
    if isinstance(st, ast.Assign) and isinstance(st.targets[0], ast.Name):
        roles[st.targets[0].id] = "frame"
    for n in body_walk(itf):
        if isinstance(n, (ast.Assign, ast.AnnAssign)) and getattr(n, "value", None) is not None and "self._cached" in norm(n.value):
            t = n.targets[0] if isinstance(n, ast.Assign) else n.target
            if isinstance(t, ast.Name):
                roles[t.id] = "cache"
    if "cache" not in roles.values():
        # by use: the local list into which the rendered frame is stored, together with other values, under a subscript
        fv_ = next((k for k, v in roles.items() if v == "frame"), None)
        for n in body_walk(itf):
            if isinstance(n, ast.Assign) and len(n.targets) == 1 and isinstance(n.targets[0], ast.Subscript) and isinstance(n.targets[0].value, ast.Name) \
                    and isinstance(n.value, ast.Tuple) and n.value.elts and isinstance(n.value.elts[0], ast.Name) and n.value.elts[0].id == fv_ and n.targets[0].value.id not in roles:
                roles[n.targets[0].value.id] = "cache"
        if isinstance(n, ast.Assign) and norm(n.value) == "render_data[Renderable]":
            for t in n.targets:
                if isinstance(t, ast.Name):
                    roles[t.id] = "renderable_data"
    cache_v = next((k for k, v in roles.items() if v == "cache"), "cache")
    for n in body_walk(itf):
        if isinstance(n, ast.Subscript) and isinstance(n.value, ast.Name) and n.value.id == cache_v and isinstance(n.slice, ast.Name):
            roles[n.slice.id] = "frame_no"
    fno_v = next((k for k, v in roles.items() if v == "frame_no"), "frame_no")
    for n in body_walk(itf):
        v = getattr(n, "value", None)
        if isinstance(n, (ast.Assign, ast.NamedExpr)) and v is not None and norm(v) == f"{cache_v}[{fno_v}]":
            t = n.targets[0] if isinstance(n, ast.Assign) else n.target
            if isinstance(t, ast.Name) and t.id not in roles:
                roles[t.id] = "cache_entry"
    miss = rc
    while miss is not None and not isinstance(miss, ast.If):
        miss = getattr(miss, "_p", None)
    if miss is not None:
        for c in ast.walk(miss.test):
            if isinstance(c, ast.Compare) and isinstance(c.left, ast.Name) and c.comparators and isinstance(c.comparators[0], ast.Tuple):
                roles.setdefault(c.left.id, "frame_details")
    applied = rename_locals(itf, roles)
    ck.extra.setdefault("roles", {})["RenderIterator._iterate"] = applied
    return itf, rc


def rule_padding_after_cache(ck, m, rid):
    itf, rc = iterate_facts(ck, m)
    g = CFG(itf)
    pads = [n for n in g.nodes if n.kind == "stmt" and isinstance(n.ast, ast.Assign) and norm(n.ast.targets[0]) == "frame" and ".pad(" in norm(trace(itf, n.ast.value, use=n.ast, keep=("frame",)))]
    ck.expect(len(pads) >= 1, "_iterate: padding step `frame = Frame(..., self._padding.pad(...))` not found")
    if not pads:
        return

    def is_cache_store(n):
        return n.kind == "stmt" and n.ast is not None and any(isinstance(t, ast.Subscript) and norm(t.value) == "cache" for t, _ in stores_in(n.ast))
    stores = [n for n in g.nodes if is_cache_store(n)]
    ck.need(stores, "_iterate: cache store not found")
    for s in stores:
        v = s.ast.value
        if isinstance(v, ast.Name):
            v = trace(itf, v, use=s.ast, keep=("frame", "renderable_data", "render_data"))         # (the entry may be built in a local first)
        first = v.elts[0] if isinstance(v, ast.Tuple) and v.elts else v
        ck.ob(rid, s.ast, norm(first) == "frame", f"the cache must store the rendered frame itself; found `{short(v, 60)}`", stmt="_iterate: cache stores the frame returned by _render_")
    rebind = lambda n: n.kind == "stmt" and n.ast is not None and n not in pads and any(isinstance(t, ast.Name) and t.id == "frame" for t, _ in stores_in(n.ast))  # noqa: E731
    for p_ in pads:
        path = g.search([p_], is_cache_store, avoid=rebind, edge_ok=lambda a, lab, d: not lab.startswith(("e:", "p:")))
        ck.ob(rid, p_.ast, path is None,
              f"a cache store is reachable after the padding step without re-rendering ({fmt_path(path) if path else ''}): the cache would hold padded frames, which are then "
              "padded again (or keep a stale padding) after set_padding()", stmt="_iterate: no cache store after the padding step")
    # padding step reads the current cells
    for p_ in pads:
        src = norm(trace(itf, p_.ast.value, keep=("frame",)))
        ck.ob(rid, p_.ast, "self._padded_size" in src and "self._padding.pad(frame.render_output, frame.render_size)" in src,
              "the padding step must use the current self._padding / self._padded_size and pad the unpadded output with the unpadded size", stmt="_iterate: padding step uses current padding")


def _dn(src):
    """every spelling of the renderable-data namespace (the local, the attribute, an inlined helper's local) read as `data.`"""
    import re as _re
    return _re.sub(r"(self\._)?renderable_data(__i\d+)?\.", "data.", src)


def run(ck, m):
    from rules.common import rule_memo_safety
    rule_memo_safety(ck, m, "MEMO", "C09")          # first: a memoised helper also hides the code it wraps from the rules below
    itf, rc = iterate_facts(ck, m)
    # ---- R1 ----------------------------------------------------------------------------
    mutable = mutable_cells(m)
    ck.expect({"data.size", "data.duration", "self._render_args", "data.frame_offset"} <= mutable, f"mutable cells discovered from the setters look incomplete: {sorted(mutable)}")
    # inputs of _render_: the render data (all namespace fields) and the second argument
    inputs = {x for x in mutable if x.startswith("data.")} | {norm(rc.args[1])}
    need = (inputs & mutable) - {"data.frame_offset", "data.seek_whence"}
    miss_if = rc
    while miss_if is not None and not isinstance(miss_if, ast.If):
        miss_if = getattr(miss_if, "_p", None)
    ck.need(miss_if is not None, "_iterate: the `if` that decides a cache miss (around the _render_ call) not found")
    # the miss condition as the disjuncts of its traced truth value (locals, helper closures, conditional expressions and walruses
    # resolved): `not (cache[n][0] if cache else None) or cache[n][1:] != (...)` -> [not cache, not cache[n][0], cache[n][1:] != (...)]
    from tiv.sem import disjuncts
    KEEPM = ("cache", "frame_no", "renderable_data")
    D = disjuncts(_nowalrus(trace(itf, miss_if.test, keep=KEEPM)))
    cmp_, cur_side, oth_side = None, None, None
    for c in D:
        if isinstance(c, ast.Compare) and len(c.ops) == 1 and isinstance(c.ops[0], (ast.NotEq, ast.Eq)):
            for a_, b_ in ((c.left, c.comparators[0]), (c.comparators[0], c.left)):
                if isinstance(a_, ast.Tuple) and any("renderable_data." in norm(e) or "self._render_args" in norm(e) for e in a_.elts):
                    cmp_, cur_side, oth_side = c, a_, b_
    if len(D) == 1 and isinstance(D[0], ast.Constant) and D[0].value is True:
        ck.ob("R4", miss_if, False, "the miss condition is always true: _render_ is called for every frame and the cache is never served (a cached frame whose settings are unchanged would be rendered again)",
              stmt="_iterate: _render_ only on a miss")
        return
    if cmp_ is None:
        # not the tuple form: every setting that can change must at least be compared UNCONDITIONALLY by a disjunct of the miss test
        disj = D
        decided = False
        for cell in sorted(need):
            src_ = cell.replace("data.", "renderable_data.")
            bare = [d_ for d_ in disj if isinstance(d_, ast.Compare) and len(d_.ops) == 1 and isinstance(d_.ops[0], ast.NotEq) and src_ in (norm(d_.left), norm(d_.comparators[0]))]
            cond = [d_ for d_ in disj if not isinstance(d_, ast.Compare) and src_ in norm(d_)]
            if not bare and cond:
                decided = True
                ck.ob("R1", miss_if, False, f"`{cell}` can be changed by a control method and is an input of _render_, but the miss test compares it only conditionally (`{norm(cond[0])[:110]}`): "
                      "whenever that side condition does not hold, a frame cached under another value is served", stmt=f"cache key covers {cell}")
            elif not bare:
                decided = True
                ck.ob("R1", miss_if, False, f"`{cell}` can be changed by a control method and is an input of _render_, but is not compared by the miss test: after changing it a cached frame rendered with the old value is served",
                      stmt=f"cache key covers {cell}")
        ck.expect(decided, "_iterate: comparison of the current settings with the stored details not recognised in the miss condition")
        return
    compared = [_dn(norm(e)) for e in cur_side.elts]
    # the details compared must be the ones stored WITH THE ENTRY looked up under the current frame number
    oth_t = norm(oth_side)
    per_entry = oth_t == "cache[frame_no][1:]" or (isinstance(oth_side, ast.Tuple) and len(oth_side.elts) == len(cur_side.elts)
                                                   and [norm(e) for e in oth_side.elts] == [f"cache[frame_no][{i + 1}]" for i in range(len(oth_side.elts))])      # (the same components, unpacked)
    ck.ob("R1", miss_if, per_entry,
          f"the settings a cached frame is validated against (`{norm(oth_side)}` = `{oth_t[:80]}`) are not the ones stored with that entry (cache[frame_no][1:]): details shared between entries say nothing about "
          "the settings an individual frame was rendered with, so after a setting changed and one frame was re-rendered every other stale frame is served as valid", stmt="cache validity details are per entry: cache[frame_no][1:]")
    for cell in sorted(need):
        ck.ob("R1", miss_if, cell in compared,
              f"`{cell}` can be changed by a control method and is an input of _render_, but is not part of the cache key {compared}: after changing it a cached frame rendered with the old value is served",
              stmt=f"cache key covers {cell}")
    KEEPS = ("renderable_data", "render_data", "frame", "cache", "frame_no")
    def _stored_tuple(n):
        v = n.value if isinstance(n.value, ast.Tuple) else trace(itf, n.value, use=n, keep=KEEPS)      # (the entry may be built in a local first)
        return v if isinstance(v, ast.Tuple) else None
    store = next((n for n in body_walk(itf) if isinstance(n, ast.Assign) and isinstance(n.targets[0], ast.Subscript) and norm(n.targets[0].value) == "cache"
                  and _stored_tuple(n) is not None and len(_stored_tuple(n).elts) == len(compared) + 1), None)
    stored = [_dn(norm(trace(itf, e, use=store, keep=KEEPS))) for e in _stored_tuple(store).elts[1:]] if store is not None else None
    ck.ob("R1", store or itf, stored == compared, f"details stored with a frame {stored} differ from the details compared {compared}", stmt="stored details == compared details")
    ck.ob("R1", store or itf, store is not None and norm(store.targets[0].slice) == "frame_no" and rc.lineno < store.lineno, "the frame must be stored under its own frame number after the render", stmt="cache[frame_no] stored after render")
    # every render made while caching is on is stored: the store happens under the conditions of the render plus (at most) the caching switch itself.
    # A further condition (first loop only, first n frames) leaves frames un-cached that are then rendered again on every later visit.
    if store is not None:
        from tiv.sem import truth_nnf as _nnf9
        rc_tests = [id(t_) for t_, _b in guards(rc)]
        extra9 = []
        for t_, b_ in guards(store):
            if id(t_) in rc_tests:
                continue
            tt_ = norm(_nnf9(trace(itf, t_, use=store, keep=("cache",)), neg=not b_))
            if tt_ not in ("cache", "cache is not None", "cache is not False"):
                extra9.append(tt_)
        ck.ob("R4", store, not extra9, f"the rendered frame is stored only under {extra9} (beyond the conditions of the render itself and the caching switch): frames rendered when that does not hold are never "
              "cached although caching is on, and are rendered again on every later loop", stmt="_iterate: every render is stored when caching is on")
    fno = [st for t, st in stores_in(ast.Module(body=itf.body, type_ignores=[])) if isinstance(t, ast.Name) and t.id == "frame_no"]
    ys = [s for s in itf.body if isinstance(s, ast.Expr) and isinstance(s.value, ast.Yield)]
    first = min(fno, key=lambda s: s.lineno) if fno else None
    ck.ob("R1", first or itf, first is not None and bool(ys) and first.lineno > ys[0].lineno and "renderable_data.frame_offset" in norm(first.value),
          "the cache index of the first frame must be the frame number actually rendered (frame_offset read after the dummy yield): otherwise a frame rendered after an early seek "
          "is cached - and later served - as frame 0", stmt="cache index = rendered frame number (frame_no from frame_offset after the dummy yield)")
    upd = [s for s in body_walk(itf) if isinstance(s, ast.Assign) and norm(s.targets[0]) == "frame_no" and s is not first]
    def follows(s_):
        if "renderable_data.frame_offset" in norm(s_.value) or any(norm(t_) == "renderable_data.frame_offset" for t_ in s_.targets):
            return True
        # `frame_no = c` next to `renderable_data.frame_offset = c` (a chained assignment written as two statements)
        blk = getattr(s_._p, "body", []) if s_ in getattr(s_._p, "body", []) else getattr(s_._p, "orelse", [])
        i_ = next((k for k, x in enumerate(blk) if x is s_), None)
        nb = [blk[j] for j in (i_ - 1, i_ + 1) if i_ is not None and 0 <= j < len(blk)]
        return isinstance(s_.value, ast.Constant) and any(isinstance(x, ast.Assign) and any(norm(t_) == "renderable_data.frame_offset" for t_ in x.targets) and norm(x.value) == norm(s_.value) for x in nb)
    ck.ob("R1", itf, all(follows(s) for s in upd),
          "frame_no must follow renderable_data.frame_offset between frames", stmt="frame_no follows frame_offset")

    # ---- R2 ----------------------------------------------------------------------------
    rule_padding_after_cache(ck, m, "R2")
    # the only container filled by the frame loop is `cache` (whose validity rules are R1/R2); another per-frame memo would need its own
    filled = {}
    for t, st in stores_in(ast.Module(body=itf.body, type_ignores=[])):
        if isinstance(t, ast.Subscript) and isinstance(t.value, ast.Name) and any(isinstance(a_, (ast.While, ast.For)) for a_ in _anc(st)):
            filled.setdefault(t.value.id, st)
    for nm_, st in sorted(filled.items()):
        ck.ob("R2", st, nm_ == "cache", f"_iterate fills a second per-frame store `{nm_}` (`{short(st, 60)}`): whatever it memoises (padded frames, details ...) is served without the validity "
              "test of the frame cache (size, duration, render args - and the current padding, which is deliberately applied after the cache)", stmt=f"_iterate: per-frame stores = {{cache}} ({nm_})")

    # ---- R3 ----------------------------------------------------------------------------
    ini = m.get(IT, "RenderIterator._init")
    cs = next((st for t, st in stores_in(ast.Module(body=ini.body, type_ignores=[])) if norm(t) == "self._cached"), None)
    ck.need(cs is not None, "_init: store of self._cached not found")
    v = trace(ini, cs.value, keep=("indefinite", "cache", "renderable"))
    ok = isinstance(v, ast.IfExp) and norm(v.test) == "indefinite" and norm(v.body) == "False" and isinstance(v.orelse, ast.IfExp) and norm(v.orelse.body) == "cache" \
        and norm(v.orelse.test) in ("type(cache) is bool", "isinstance(cache, bool)") and norm(v.orelse.orelse) == "renderable.frame_count <= cache"
    ck.ob("R3", cs, ok, f"_cached must be False for INDEFINITE sources, `cache` if it is a bool, else `frame_count <= cache`; found `{short(v, 90)}`", stmt="_init: _cached decision")
    ind = next((st for t, st in stores_in(ast.Module(body=ini.body, type_ignores=[])) if norm(t) == "indefinite"), None)
    ck.ob("R3", ind or ini, ind is not None and norm(ind.value) == "renderable.frame_count is FrameCount.INDEFINITE", "`indefinite` must be frame_count is FrameCount.INDEFINITE", stmt="_init: indefinite")
    chk = [s for s in ini.body if isinstance(s, ast.If) and norm(s.test) == "False is not cache <= 0" and isinstance(s.body[0], ast.Raise)]
    ck.ob("R3", ini, len(chk) == 1, "_init must reject cache <= 0 unless it is False", stmt="_init: cache argument check")
    an = m.get(RN, "Renderable._animate_")
    call = next((c for c in body_walk(an) if isinstance(c, ast.Call) and (call_name(c) or "").endswith("_from_render_data_")), None)
    ck.need(call is not None and len(call.args) >= 6, "_animate_: RenderIterator._from_render_data_(...) call not recognised")
    ca = trace(an, call.args[5], keep=("loops", "cache"))
    from tiv.absdom import EvUnk, ev
    verdict, wit = True, None
    try:
        for lp in (-1, 1, 2, 5):
            got = ev(ca, {"loops": lp, "cache": "CACHE"})
            want_ = False if lp == 1 else "CACHE"
            if got != want_ and wit is None:
                verdict, wit = False, (lp, got)
    except EvUnk as e:
        verdict = None
        ck.expect(False, f"_animate_: cache argument `{norm(ca)[:80]}` cannot be evaluated on the abstract domain ({e})")
    if verdict is not None:
        ck.ob("R3", enclosing_stmt(call), verdict, f"_animate_ must disable caching exactly when loops == 1 (frames are never revisited); found `{norm(ca)[:80]}`" + (f" - for loops={wit[0]} it passes {wit[1]!r}" if wit else "")
              + " - with infinite (negative) or multiple loops every frame would be re-rendered on every loop, or a single pass would fill a useless cache", stmt="_animate_: cache disabled iff loops == 1")
    dr = m.get(RN, "Renderable.draw")
    ck.ob("R3", dr, any(isinstance(c, ast.Call) and (call_name(c) or "").endswith("_animate_") and len(c.args) >= 5 and norm(c.args[4]) == "cache" for c in body_walk(dr)),
          "draw() must hand its cache argument to _animate_ unchanged", stmt="draw: passes cache")

    # ---- R4 ----------------------------------------------------------------------------
    # the render happens exactly on a miss: besides the details comparison the only disjuncts are "no cache" and "no frame in the entry"
    kinds = {}
    for d_ in D:
        nd = norm(d_)
        k_ = "details" if d_ is cmp_ else "nocache" if nd == "not cache" else "noframe" if nd == "not cache[frame_no][0]" else "other"
        kinds.setdefault(k_, []).append(nd)
    inner_if = rc
    while inner_if is not None and not isinstance(inner_if, (ast.If, ast.While, ast.For)):
        inner_if = getattr(inner_if, "_p", None)
    ck.ob("R4", enclosing_stmt(rc), inner_if is miss_if and "other" not in kinds and {"nocache", "noframe", "details"} <= set(kinds),
          f"_render_ must be called exactly on a miss (no cache, no frame stored for this number, or other settings): the miss condition has the disjuncts {[x[:60] for v_ in kinds.values() for x in v_]}"
          ": a cached frame whose settings are unchanged would be rendered again, or an empty entry served", stmt="_iterate: _render_ only on a miss")
    # what is served on a hit is the entry's frame: the value of the frame variable at the miss test, specialised to "not a miss"
    fv = next((t.id for t in (enclosing_stmt(rc).targets if isinstance(enclosing_stmt(rc), ast.Assign) else []) if isinstance(t, ast.Name)), None)
    ck.expect(fv is not None, "_iterate: the variable the rendered frame is bound to not found")
    if fv is not None:
        Dn = {norm(d_) for d_ in D}

        def hit_value(e):
            while isinstance(e, ast.IfExp):
                if all(norm(x) in Dn for x in disjuncts(e.test)):
                    e = e.orelse                # a test that implies a miss is false on a hit
                elif all(norm(x) in Dn for x in disjuncts(ast.UnaryOp(op=ast.Not(), operand=e.test))):
                    e = e.body
                else:
                    break
            return e
        probe = ast.Name(id=fv, ctx=ast.Load())
        hv = hit_value(_nowalrus(trace(itf, probe, use=miss_if.test, keep=KEEPM)))
        ck.ob("R4", miss_if, norm(hv) == "cache[frame_no][0]", f"on a hit the frame served must be the one stored in the entry of the current frame number (cache[frame_no][0]); it is `{short(hv, 80)}`",
              stmt="_iterate: frame = cached entry or None")

    # ---- R5 ----------------------------------------------------------------------------
    from rules.common import animate_facts
    ia = animate_facts(ck, m)
    st5 = [n for n in body_walk(ia) if isinstance(n, ast.Assign) and isinstance(n.targets[0], ast.Subscript) and norm(n.targets[0]) == "cache[n]"]
    ck.expect(len(st5) >= 2, f"ImageIterator._animate: expected >= 2 cache stores, found {len(st5)}")
    renders = sorted(c.lineno for c in body_walk(ia) if isinstance(c, ast.Call) and norm(c.func) == "image._render_image")
    for s in st5:
        v = s.value
        ok = isinstance(v, ast.Tuple) and len(v.elts) == 2 and norm(v.elts[0]) == "frame" and norm(v.elts[1]) == "hash(image.rendered_size)"
        after = any(r < s.lineno for r in renders)
        ck.ob("R5", s, ok and after, f"a cache store must record the frame with hash(image.rendered_size) evaluated now (after the render); found `{short(v, 60)}` - recording a stale "
              "hash makes a frame rendered at another size look valid when the size is switched back", stmt=f"ImageIterator._animate: {short(s, 70)}")
    cmp5 = [c for c in body_walk(ia) if isinstance(c, ast.Compare) and "size_hash" in norm(c)]
    ck.ob("R5", ia, len(cmp5) == 1 and same_bool(None, cmp5[0], "hash(image.rendered_size) != size_hash"), "phase two must compare a fresh hash(image.rendered_size) with the stored one", stmt="ImageIterator._animate: fresh hash compared")
    if cmp5:
        iff = enclosing_stmt(cmp5[0])
        ck.ob("R5", iff, isinstance(iff, ast.If) and any(isinstance(c, ast.Call) and norm(c.func) == "image._render_image" for s_ in iff.body for c in ast.walk(s_))
              and any(s_ in st5 for s_ in iff.body), "a size mismatch must re-render and re-store", stmt="ImageIterator._animate: mismatch re-renders and re-stores")
    rb = [norm(t) for t, st in stores_in(ast.Module(body=ia.body, type_ignores=[])) if isinstance(t, ast.Name) and t.id in ("alpha", "fmt", "style_args")]
    ck.ob("R5", ia, not rb, f"{rb} rebound inside the generator: cached frames would no longer correspond to one set of render inputs", stmt="ImageIterator._animate: alpha/fmt/style_args never rebound")
    okread = False
    if len(cmp5) == 1:
        other = [o for o in [cmp5[0].left] + cmp5[0].comparators if not (isinstance(o, ast.Call) and norm(o.func) == "hash")]
        fr_t = trace(ia, ast.Name(id="frame", ctx=ast.Load()), use=cmp5[0], keep=("cache", "n"))
        okread = len(other) == 1 and norm(trace(ia, other[0], keep=("cache", "n"))) == "cache[n][1]" and norm(fr_t) == "cache[n][0]"
    ck.ob("R5", cmp5[0] if cmp5 else ia, okread, "phase two must read (frame, size_hash) from cache[n]", stmt="ImageIterator._animate: reads cache[n]")
    ii = m.get(CM, "ImageIterator.__init__")
    cs = next((st for t, st in stores_in(ast.Module(body=ii.body, type_ignores=[])) if norm(t) == "self._cached"), None)
    ck.ob("R5", cs or ii, cs is not None and same_bool(ii, cs.value, "repeat != 1 and (cached if isinstance(cached, bool) else image.n_frames <= cached)"),
          "ImageIterator._cached must be: repeat != 1 and (cached if bool else n_frames <= cached)", stmt="ImageIterator.__init__: _cached decision")

    from tiv.cfg import CFG as _CFG, fmt_path as _fp
    g5 = _CFG(ia)
    reads = [n for n in g5.nodes if n.kind == "stmt" and n.ast is not None and not any(isinstance(t, ast.Subscript) and norm(t.value) == "cache" for t, _ in stores_in(n.ast))
             and any(isinstance(x, ast.Subscript) and norm(x) == "cache[n]" and isinstance(x.ctx, ast.Load) for x in ast.walk(n.ast))]
    tests5 = [n for n in g5.nodes if n.kind == "test" and n.ast is not None and "hash(image.rendered_size)" in norm(n.ast)]
    yields5 = [n for n in g5.nodes if n.kind == "stmt" and n.ast is not None and any(isinstance(x, ast.Yield) for x in ast.walk(n.ast))]
    ck.expect(len(reads) >= 1 and len(tests5) >= 1, "ImageIterator._animate: reads of cache[n] / size-hash tests not found")
    for r_ in reads:
        p_ = g5.search([r_], lambda x: x in yields5, avoid=lambda x: x in tests5, edge_ok=lambda a, lab, d: not lab.startswith(("e:", "p:")))
        ck.ob("R5", r_.ast, p_ is None, f"a frame read from the cache (`{short(r_.ast, 50)}`) can be yielded without comparing its stored size hash with hash(image.rendered_size) ({_fp(p_) if p_ else ''}): "
              "after the image size changed a frame rendered at the old size is served", stmt=f"ImageIterator._animate: cached frame validated before it is yielded: {short(r_.ast, 50)}")


MUTANTS = [
    M("key-drops-render-args", IT, "RenderIterator._iterate",
      "                    renderable_data.duration,\n                    self._render_args,\n                ):", "                    renderable_data.duration,\n                ):", {"R1"}),
    M("stored-drops-duration", IT, "RenderIterator._iterate",
      "                            renderable_data.size,\n                            renderable_data.duration,\n                            self._render_args,\n                        )",
      "                            renderable_data.size,\n                            self._render_args,\n                        )", {"R1"}),
    M("key-drops-size", IT, "RenderIterator._iterate", "                if not frame or frame_details != (\n                    renderable_data.size,\n", "                if not frame or frame_details != (\n                    renderable_data.iteration,\n", {"R1"}),
    M("store-padded-frame", IT, "RenderIterator._iterate",
      "                        self._padding.pad(frame.render_output, frame.render_size),\n                    )\n",
      "                        self._padding.pad(frame.render_output, frame.render_size),\n                    )\n                    if cache:\n                        cache[frame_no] = (frame, *cache[frame_no][1:])\n", {"R2"}),
    M("cache-lt", IT, "RenderIterator._init", "else renderable.frame_count <= cache", "else renderable.frame_count < cache", {"R3"}),
    M("cache-when-one-loop", RN, "Renderable._animate_", "False if loops == 1 else cache", "cache", {"R3"}),
    M("cache-only-positive-loops", RN, "Renderable._animate_", "False if loops == 1 else cache", "cache if loops > 1 else False", {"R3"}),
    M("render-always", IT, "RenderIterator._iterate", "                if not frame or frame_details != (", "                if True or frame_details != (", {"R4"}),
    M("stale-size-hash", CM, "ImageIterator._animate", "                            *fmt,\n                        )\n                        cache[n] = (frame, hash(image.rendered_size))", "                            *fmt,\n                        )\n                        cache[n] = (frame, size_hash)", {"R5"}),
    M("hash-before-render", CM, "ImageIterator._animate", "                    if hash(image.rendered_size) != size_hash:", "                    if size_hash is None:", {"R5"}),
    M("store-first-loop-only", IT, "RenderIterator._iterate", "                    if cache:\n                        cache[frame_no] = (", "                    if cache and self.loop == self.loops:\n                        cache[frame_no] = (", {"R4"}),
    M("twin-rename-entry", IT, "RenderIterator._iterate", "cache_entry", "entry", twin=True, count=0),
]
