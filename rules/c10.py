"""C10 - render data is finalized exactly once and never used afterwards (DESIGN.md 4, C10).
Fault positions are covered by exceptional CFG edges, not enumerated."""
from __future__ import annotations

import ast

from tiv.astutil import conds, body_walk, call_name, dotted, enclosing_stmt, flatten_boolop, guards, kw, norm, short, stores_in, try_context, walk_local
from tiv.cfg import CFG, EX, KI, flag_edges, fmt_path
from tiv.mutate import M
from tiv.sem import expand, econds, anon
from tiv.paths import dedupe_by_stmt, leak_points
from tiv.cfg import may_raise_sync

RULES = {
    "R6": "who-may-finalize: render_data.finalize() is called only from RenderIterator.close (under self._finalize_data), Renderable.draw's clean-up, "
          "Renderable._init_render_ and RenderData.__del__; any other call site is reported",
    "MEMO": "memo safety (shared, rules/common.py): a memoised function in this property's files (or called from them) is a function of its "
            "arguments only (no terminal/ambient/receiver state outside the key) and no caller mutates its result in place",
    "R1": "once-flag: RenderData.finalize calls _finalize_render_data_ only under `not self.finalized` and sets the flag in a finally; "
          "__del__ only delegates to finalize; RenderIterator.close does everything under `if not self._closed`, sets _closed last and "
          "finalizes the data only under _finalize_data; the store of the closed flag is dominated by the finalize decision on every path, exceptional ones included (not in a `finally`)",
    "R2": "every creation is finalized or handed over: after `_get_render_data_()` in _init_render_, every exit - normal with finalize=True, "
          "and every exceptional exit whatever the flag - has passed render_data.finalize(); callers passing finalize=False discharge the "
          "obligation: draw() finalizes on every exit after the call; RenderIterator.__init__ does nothing that can fail between obtaining the "
          "data and running the generator up to its first yield, where _iterate has stored it for close()",
    "R3": "error paths close the iterator: every handler of RenderIterator.__next__ calls self.close() before raising, except the "
          "already-closed branch; __del__ calls close(); __del__ calls close() unconditionally",
    "R4": "caller-owned data is left alone: _finalize_data is stored only from the literal True (__init__) and from the `finalize` parameter "
          "(_from_render_data_); _animate_ passes finalize=False; close() finalizes only under that flag",
    "R5": "no render with finalized data: _from_render_data_ rejects finalized data before creating the generator; close() closes the "
          "generator before finalizing the data and deletes it afterwards; __next__ maps a closed iterator to StopIteration",
}
RN, TY, IT = "renderable/_renderable.py", "renderable/_types.py", "render/_iterator.py"


def _is_finalize(n, var="render_data"):
    return n.kind == "stmt" and n.ast is not None and any(
        isinstance(c, ast.Call) and call_name(c) == f"{var}.finalize" for c in ast.walk(n.ast))


def run(ck, m):
    from rules.common import rule_memo_safety
    rule_memo_safety(ck, m, "MEMO", "C10")          # first: a memoised helper also hides the code it wraps from the rules below
    # ---- R1 ----------------------------------------------------------------------------
    fin = m.get(TY, "RenderData.finalize")
    calls = [c for c in body_walk(fin) if isinstance(c, ast.Call) and norm(expand(fin, c.func)).endswith("_finalize_render_data_")]
    ck.ob("R1", fin, len(calls) == 1 and "not self.finalized" in econds(fin, calls[0]),
          "the finalizer must be called exactly once and only when the data is not yet finalized (guard `not self.finalized`)", stmt="RenderData.finalize: finalizer call guarded by not self.finalized")
    sets = [st for t, st in stores_in(ast.Module(body=fin.body, type_ignores=[])) if norm(t) == "self.finalized"]
    in_finally = bool(sets) and all(any(part == "finalbody" for _, part in try_context(s)) for s in sets) and all(norm(s.value) == "True" for s in sets)
    prot = bool(calls) and any(part == "body" and t.finalbody and any(s in [x for x in t.finalbody] for s in sets) for t, part in try_context(calls[0]))
    ck.ob("R1", fin, in_finally and prot, "the flag must be set in the finally of the try that calls the finalizer (a failing finalizer must not be retried, and a second call must be a no-op)",
          stmt="RenderData.finalize: flag set in finally")
    other = [st for st in body_walk(fin) if isinstance(st, (ast.Expr, ast.Assign, ast.AugAssign, ast.Delete)) and not (isinstance(st, ast.Expr) and isinstance(st.value, ast.Constant))
             and "not self.finalized" not in econds(fin, st)]
    ck.ob("R1", fin, not other, f"finalize() does work outside the not-finalized guard: {[short(o, 40) for o in other]}", stmt="RenderData.finalize: everything guarded by not self.finalized")
    dl = m.get(TY, "RenderData.__del__")
    cs = [c for c in body_walk(dl) if isinstance(c, ast.Call)]
    ck.ob("R1", dl, len(cs) == 1 and norm(cs[0]) == "self.finalize()", "__del__ must only delegate to finalize()", stmt="RenderData.__del__ delegates")
    cl = m.get(IT, "RenderIterator.close")
    effects = [st for st in body_walk(cl) if isinstance(st, (ast.Expr, ast.Assign, ast.AugAssign, ast.Delete)) and not (isinstance(st, ast.Expr) and isinstance(st.value, ast.Constant))]
    ung = [st for st in effects if "not self._closed" not in econds(cl, st)]
    ck.ob("R1", cl, bool(effects) and not ung, f"close() does work when the iterator is already closed (idempotence): {[short(o, 40) for o in ung]}", stmt="RenderIterator.close: everything guarded by not self._closed")
    flag = [st for st in effects if norm(st) == "self._closed = True"]
    ck.ob("R1", cl, len(flag) == 1 and all(e.lineno <= flag[0].lineno for e in effects), "`self._closed = True` must be the last effect of close()", stmt="RenderIterator.close: _closed set last")
    # ... and only once the data has been dealt with: on EVERY path (exceptional ones included) that reaches the store of the flag, the decision to
    # finalize has been taken before it. A flag set in a `finally` marks an iterator closed whose close() failed half-way: all later close() calls
    # (exhaustion, error, __del__) are no-ops and the owned render data is never finalized.
    gcl = CFG(cl)
    flag_nodes = [n_ for n_ in gcl.nodes if n_.kind == "stmt" and n_.ast is not None and norm(n_.ast) == "self._closed = True"]
    dec_ = lambda n_: n_.ast is not None and n_.kind in ("test", "stmt") and "self._finalize_data" in norm(getattr(n_.ast, "test", n_.ast) if n_.kind == "test" else n_.ast)
    for fnode in flag_nodes:
        ck.ob("R1", fnode.ast, gcl.dominated_by(fnode, dec_), "`self._closed = True` can be reached without the render data having been dealt with (an exception in the generator's close() or in finalize() "
              "leads to it): the iterator is then marked closed while it still owns un-finalized data, and no later close() will release it", stmt="RenderIterator.close: _closed set only after the finalize decision, on every path")
    fz = [c for c in body_walk(cl) if isinstance(c, ast.Call) and norm(c) == "self._render_data.finalize()"]
    ck.ob("R1", cl, len(fz) == 1 and "self._finalize_data" in econds(cl, fz[0]),
          "close() must finalize the data exactly once and only under `self._finalize_data`", stmt="RenderIterator.close: finalize under _finalize_data")
    # ---- R5 order
    gi = next((st.lineno for st in effects if norm(st) == "self._iterator.close()"), None)
    di = next((st.lineno for st in effects if norm(st) == "del self._iterator"), None)
    fi = fz[0].lineno if fz else None
    ck.ob("R5", cl, gi is not None and fi is not None and gi < fi, "close() must close the generator before finalizing the data (no frame can be rendered with finalized data)",
          stmt="RenderIterator.close: generator closed before finalize")
    ck.ob("R5", cl, di is not None and gi is not None and gi < di, "close() must delete the generator so that a later next() cannot reach _render_", stmt="RenderIterator.close: del self._iterator")

    # ---- R2 ----------------------------------------------------------------------------
    ir = m.get(RN, "Renderable._init_render_#4") if m.find(RN, "Renderable._init_render_#4") else None
    if ir is None:  # the implementation is the last variant (overloads precede it)
        ir = m.variants(RN, "Renderable._init_render_")[-1]
    creates = [st for t, st in stores_in(ast.Module(body=ir.body, type_ignores=[])) if isinstance(t, ast.Name) and isinstance(st, ast.Assign)
               and isinstance(st.value, ast.Call) and (call_name(st.value) or "").endswith("_get_render_data_")]
    ck.need(len(creates) == 1, "_init_render_: creation site `x = self._get_render_data_(...)` not found")
    var = norm(creates[0].targets[0])
    g = CFG(ir)
    cn = g.nodes_of(creates[0])
    ck.need(cn, "_init_render_: CFG node of the creation not found")
    not_own_exc = lambda s, lab, d: not (s in cn and lab.startswith("e:"))  # noqa: E731  (if the creating call raises nothing was created)
    for flag in (True, False):
        fe = flag_edges({"finalize": flag})
        edge_ok = lambda s, lab, d, fe=fe: fe(s, lab, d) and not_own_exc(s, lab, d)  # noqa: E731
        kinds = ("exit_raise_KI", "exit_raise_EX") + (("exit_return",) if flag else ())
        cands, leaks = leak_points(g, cn, lambda n: _is_finalize(n, var), edge_ok, kinds)
        leaked = {id(x.ast) if x is not None else None: (k, p) for x, k, p in leaks}
        for x in dedupe_by_stmt(cands) + ([None] if flag else []):
            key = id(x.ast) if x is not None else None
            bad = leaked.get(key)
            where = f"a failure/interrupt in `{short(x.ast, 60)}`" if x is not None else "normal completion"
            ck.ob("R2", x.ast if x is not None else creates[0], bad is None,
                  f"with finalize={flag}: after {where} the render data created in _init_render_ leaves through {bad[0] if bad else ''} without finalize(): "
                  f"{fmt_path(bad[1]) if bad else ''}" + ("" if flag else " - the caller never receives the data on this path, so nobody can finalize it"),
                  stmt=f"_init_render_[finalize={flag}] fault at: {anon(ir, x.ast)[:110] if x is not None else '<none: normal return>'}")
    # callers with finalize=False
    owners = []
    for rel, q, fn in m.functions():
        for c in body_walk(fn):
            if isinstance(c, ast.Call) and (call_name(c) or "").endswith("_init_render_"):
                f = kw(c, "finalize")
                if f is not None and not (isinstance(f, ast.Constant) and f.value is True):
                    owners.append((rel, q, fn, c))
    ck.expect(len(owners) >= 2, f"expected >= 2 callers of _init_render_(finalize=False), found {len(owners)}")
    for rel, q, fn, c in owners:
        st = enclosing_stmt(c)
        g2 = CFG(fn)
        sn = g2.nodes_of(st)
        own_exc = lambda s, lab, d, sn=sn: not (s in sn and lab.startswith("e:"))  # noqa: E731
        if fn.name == "__init__":
            # hand-over: run the generator to its first yield; nothing fallible in between
            nxt = [n for n in g2.nodes if n.kind == "stmt" and any(isinstance(x, ast.Call) and call_name(x) == "next" for x in ast.walk(n.ast))]
            ck.need(nxt, f"{q}: next(self._iterator) hand-over not found")
            p = g2.search(sn, lambda n: n.kind.startswith("exit_raise"), avoid=lambda n: n in nxt, edge_ok=own_exc)
            ck.ob("R2", st, p is None,
                  f"{q}: between obtaining the render data and handing it to the generator (next()), something can fail: {fmt_path(p) if p else ''} - "
                  f"the data is then owned by nobody (close() cannot reach it)", stmt=f"{q}: nothing fallible between _init_render_ and next()")
            # everything that validates arguments comes before the creation
            pre_raise = [x for x in body_walk(fn) if isinstance(x, ast.Call) and call_name(x) == "self._init"]
            ck.ob("R2", st, all(x.lineno < c.lineno for x in pre_raise) and bool(pre_raise), f"{q}: argument validation (self._init) must precede the creation of render data",
                  stmt=f"{q}: validation before creation")
        else:
            # find the local the data is bound to
            data_var = None
            t0 = st.targets[0] if isinstance(st, ast.Assign) else None
            if isinstance(t0, ast.Tuple) and isinstance(t0.elts[0], ast.Tuple):
                data_var = norm(t0.elts[0].elts[0])
            ck.need(data_var is not None, f"{q}: cannot identify the variable holding the render data")
            cands, leaks = leak_points(g2, sn, lambda n: _is_finalize(n, data_var), own_exc)
            leaked = {id(x.ast) if x is not None else None: (k, p) for x, k, p in leaks}
            for x in dedupe_by_stmt(cands) + [None]:
                key = id(x.ast) if x is not None else None
                bad = leaked.get(key)
                where = f"a failure/interrupt in `{short(x.ast, 60)}`" if x is not None else "normal completion"
                ck.ob("R2", x.ast if x is not None else st, bad is None,
                      f"{q}: after {where} the render data obtained with finalize=False leaves through {bad[0] if bad else ''} without {data_var}.finalize(): {fmt_path(bad[1]) if bad else ''}",
                      stmt=f"{q} fault at: {anon(fn, x.ast)[:110] if x is not None else '<none: normal return>'}")
    itf = m.get(IT, "RenderIterator._iterate")
    before = []
    store = None
    for s_ in itf.body:
        if isinstance(s_, ast.Expr) and isinstance(s_.value, ast.Constant):
            continue
        if norm(s_) == "self._render_data = render_data":
            store = s_
            break
        before.append(s_)
    ck.ob("R2", store or itf, store is not None and not any(may_raise_sync(b) for b in before),
          "_iterate must store the render data for close() before anything that can fail (it runs inside the constructor's next())",
          stmt="_iterate: self._render_data stored before anything fallible")

    # ---- R3 ----------------------------------------------------------------------------
    nx = m.get(IT, "RenderIterator.__next__")
    tr = next((s for s in nx.body if isinstance(s, ast.Try)), None)
    ck.need(tr is not None and len(tr.handlers) >= 1, "RenderIterator.__next__: try with handlers not found")
    caught = {(h.type.attr if isinstance(h.type, ast.Attribute) else getattr(h.type, "id", "?")) if h.type is not None and not isinstance(h.type, ast.Tuple) else
              ("BaseException" if h.type is None else "|".join(norm(e) for e in h.type.elts)) for h in tr.handlers}
    ck.ob("R3", tr, any(c in ("Exception", "BaseException") or "Exception" in c.split("|") for c in caught),
          f"__next__ must handle every Exception raised by the frame generator (to close the iterator and finalize its data); its handlers catch only {sorted(caught)}", stmt="__next__: a handler catches Exception")
    for h in tr.handlers:
        fn_ = ast.FunctionDef(name="_h", args=ast.arguments(posonlyargs=[], args=[], kwonlyargs=[], kw_defaults=[], defaults=[]), body=h.body, decorator_list=[], lineno=h.lineno, col_offset=0)
        gh = CFG(fn_)
        is_close = lambda n: n.kind == "stmt" and n.ast is not None and "self.close()" == norm(n.ast)  # noqa: E731
        closed_branch = flag_edges({})  # no pruning

        def edge(s, lab, d):
            if lab.startswith("e:") and not (s.kind == "stmt" and isinstance(s.ast, ast.Raise)):
                return False
            if s.kind == "test" and lab == "true" and "self._closed" in [norm(v_) for v_ in flatten_boolop(s.ast, ast.And)]:
                return False  # already closed: nothing to close
            if s.kind == "test" and lab == "false" and isinstance(s.ast, ast.UnaryOp) and isinstance(s.ast.op, ast.Not) and norm(s.ast.operand) == "self._closed":
                return False  # (the same case, reached as the false edge of `if not self._closed:`)
            return True
        p = None
        for ex in gh.exits():
            p = p or gh.search([gh.entry], lambda n, ex=ex: n is ex, avoid=is_close, from_succ=False, edge_ok=edge)
        ck.ob("R3", h, p is None, f"handler `except {norm(h.type) if h.type else ''}` of __next__ can be left without closing the iterator ({fmt_path(p) if p else ''}): "
              "after exhaustion or an error the data would stay un-finalized and further control operations would not raise", stmt=f"__next__: except {norm(h.type) if h.type else ''} closes")
    dl = m.find(IT, "RenderIterator.__del__")
    if dl is not None:
        dcl = [c for c in body_walk(dl) if isinstance(c, ast.Call) and norm(c) == "self.close()"]
        ck.ob("R3", dl, len(dcl) >= 1 and not conds(dcl[0]), "__del__ must call close() - unconditionally: close() itself knows whether anything is left to release (a generator that died of a KeyboardInterrupt "
              f"has finished, yet its data is still un-finalized); conditions found: {sorted(conds(dcl[0])) if dcl else 'no call'}", stmt="RenderIterator.__del__ closes")
    else:
        wf = [c for c in m.walk(IT) if isinstance(c, ast.Call) and (call_name(c) or "").endswith("finalize") and "weakref" in (call_name(c) or "") and len(c.args) >= 2]
        strong = [c for c in wf if any(isinstance(x, ast.Name) and x.id in ("self", "new") for a_ in c.args[1:] for x in ast.walk(a_))]
        ck.ob("R3", m.get(IT, "RenderIterator"), bool(wf) and not strong,
              "RenderIterator has no __del__" + (": the weakref.finalize callback references the iterator itself (a bound method / closure over self keeps it alive, so an abandoned iterator is never collected and its render data never finalized)" if strong else " and no weakref.finalize: dropping an unexhausted iterator no longer finalizes its data"),
              stmt="RenderIterator.__del__ closes")

    # ---- R4 ----------------------------------------------------------------------------
    n4 = 0
    for rel, _q, t, st in m.stores():

        if True:
            if isinstance(t, ast.Attribute) and t.attr == "_finalize_data":
                n4 += 1
                q = getattr(st, "_q", "")
                v = norm(st.value)
                ok = (q.endswith("RenderIterator.__init__") and v == "True") or (q.endswith("_from_render_data_") and v == "finalize")
                ck.ob("R4", st, ok, f"`{short(st, 50)}` in {q}: ownership of caller-supplied render data must follow the `finalize` parameter", stmt=f"{q}: {short(st, 50)}")
    ck.expect(n4 >= 2, "stores of _finalize_data not found")
    frd = m.get(IT, "RenderIterator._from_render_data_")
    fdef = dict(zip([a.arg for a in frd.args.kwonlyargs], [norm(d) if d is not None else None for d in frd.args.kw_defaults]))
    ck.ob("R4", frd, "finalize" in fdef, "_from_render_data_ must take a `finalize` keyword", stmt="_from_render_data_: finalize parameter")
    an = m.get(RN, "Renderable._animate_")
    cc = [c for c in body_walk(an) if isinstance(c, ast.Call) and (call_name(c) or "").endswith("_from_render_data_")]
    ck.ob("R4", an, len(cc) == 1 and norm(kw(cc[0], "finalize")) == "False", "_animate_ iterates over data owned by draw(); it must pass finalize=False", stmt="_animate_: finalize=False")

    # ---- R5 ----------------------------------------------------------------------------
    rej = [s for s in frd.body if isinstance(s, ast.If) and norm(s.test) == "render_data.finalized" and any(isinstance(x, ast.Raise) for x in s.body)]
    gen = [st for t, st in stores_in(ast.Module(body=frd.body, type_ignores=[])) if norm(t).endswith("._iterator")]
    ck.ob("R5", frd, len(rej) == 1 and len(gen) == 1 and rej[0].lineno < gen[0].lineno and rej[0] in frd.body,
          "_from_render_data_ must reject finalized render data before creating the generator", stmt="_from_render_data_: reject finalized data first")
    from rules.common import closed_stop
    ae = next((r_ for r_ in body_walk(nx) if closed_stop(r_)), None)
    ok = ae is not None
    ck.ob("R5", ae or nx, ok, "next() on a closed iterator must raise StopIteration", stmt="__next__: closed -> StopIteration")
    for meth in ("seek", "set_frame_duration", "set_padding", "set_render_args", "set_render_size"):
        f = m.get(IT, f"RenderIterator.{meth}")
        b = [s for s in f.body if not (isinstance(s, ast.Expr) and isinstance(s.value, ast.Constant))]
        ok = isinstance(b[0], ast.If) and norm(b[0].test) == "self._closed" and isinstance(b[0].body[0], ast.Raise) and "FinalizedIteratorError" in norm(b[0].body[0])
        ck.ob("R5", f, ok, f"{meth}() on a finalized iterator must raise FinalizedIteratorError before doing anything", stmt=f"{meth}: closed guard first")

    # ---- R6: who may finalize render data ----------------------------------------------------------------------------------
    ALLOWED_FIN = {("render/_iterator.py", "RenderIterator.close"), ("renderable/_renderable.py", "Renderable.draw"), ("renderable/_renderable.py", "Renderable._init_render_"),
                   ("renderable/_types.py", "RenderData.__del__")}
    n_fin = 0
    for rel_, q_, fn_ in m.functions():
        for c in body_walk(fn_):
            if isinstance(c, ast.Call) and isinstance(c.func, ast.Attribute) and c.func.attr == "finalize" and not c.args and ("render_data" in norm(c.func.value) or norm(c.func.value) == "self" and q_.startswith("RenderData")):
                n_fin += 1
                qq = q_.split("#")[0]
                ck.ob("R6", enclosing_stmt(c), (rel_, qq) in ALLOWED_FIN,
                      f"{qq} finalizes render data (`{short(c, 50)}`): only the owner's end-of-life paths may (RenderIterator.close under _finalize_data, draw()'s clean-up, _init_render_); "
                      "finalizing while frames can still be rendered - or data the iterator does not own - breaks 'finalized exactly once, after the last use'", stmt=f"who may finalize: {rel_}::{qq}")
                if rel_ == "render/_iterator.py":
                    ck.ob("R6", enclosing_stmt(c), "self._finalize_data" in econds(fn_, c), f"{qq}: the iterator may finalize only render data it owns (guard `self._finalize_data`)", stmt=f"{qq}: finalize under _finalize_data")
    ck.expect(n_fin >= 4, f"expected >= 4 finalize() call sites, found {n_fin}")



MUTANTS = [
    M("finalize-in-iterate", IT, "RenderIterator._iterate", "                        self.loop = 0\n                        return\n", "                        self.loop = 0\n                        render_data.finalize()\n                        return\n", {"R6"}),
    M("close-finalizes-unowned", IT, "RenderIterator.close", "            if self._finalize_data:\n                self._render_data.finalize()\n", "            self._render_data.finalize()\n", {"R1", "R6"}),
    M("flag-out-of-finally", TY, "RenderData.finalize",
      "            try:\n                self.render_cls._finalize_render_data_(self)\n            finally:\n                self.finalized = True",
      "            self.render_cls._finalize_render_data_(self)\n            self.finalized = True", {"R1"}),
    M("drop-once-guard", TY, "RenderData.finalize", "        if not self.finalized:\n", "        if True:\n", {"R1"}),
    M("revert-fix-init-render", RN, "Renderable._init_render_#4",
      "        except BaseException:\n            # The caller never gets hold of the render data, hence can't finalize it\n            render_data.finalize()\n            raise\n", "", {"R2"}),
    M("except-exception-only", RN, "Renderable._init_render_#4", "        except BaseException:\n", "        except Exception:\n", {"R2"}),
    M("draw-finalize-out-of-finally", RN, "Renderable.draw", "                    termios.tcsetattr(output_fd, termios.TCSANOW, old_attr)\n                render_data.finalize()\n",
      "                    termios.tcsetattr(output_fd, termios.TCSANOW, old_attr)\n        render_data.finalize()\n", {"R2"}),
    M("revert-fix-pretry", RN, "Renderable.draw", "        )\n        try:\n            if hide_cursor:", "        )\n        output.flush()\n        try:\n            if hide_cursor:", {"R2"}),
    M("init-after-create", IT, "RenderIterator.__init__",
      "        self._init(renderable, render_args, padding, loops, cache)\n        self._iterator, self._padding = renderable._init_render_(\n            self._iterate, render_args, padding, iteration=True, finalize=False\n        )\n",
      "        self._iterator, self._padding = renderable._init_render_(\n            self._iterate, render_args, padding, iteration=True, finalize=False\n        )\n        self._init(renderable, render_args, padding, loops, cache)\n", {"R2"}),
    M("handler-no-close", IT, "RenderIterator.__next__", "        except Exception:\n            self.close()\n            raise", "        except Exception:\n            raise", {"R3"}),
    M("own-callers-data", IT, "RenderIterator._from_render_data_", "new._finalize_data = finalize", "new._finalize_data = True", {"R4"}),
    M("animate-takes-ownership", RN, "Renderable._animate_", "            finalize=False,\n", "            finalize=True,\n", {"R4"}),
    M("finalize-before-gen-close", IT, "RenderIterator.close",
      "            self._iterator.close()\n            del self._iterator\n            if self._finalize_data:\n                self._render_data.finalize()\n",
      "            if self._finalize_data:\n                self._render_data.finalize()\n            self._iterator.close()\n            del self._iterator\n", {"R5"}),
    M("late-store-in-iterate", IT, "RenderIterator._iterate", "        self._render_data = render_data\n        self._render_args = render_args\n", "        self._render_args = render_args\n        self._render_data = render_data\n", twin=True),
    M("accept-finalized", IT, "RenderIterator._from_render_data_", "        if render_data.finalized:\n            raise ValueError(\"The render data has been finalized\")\n", "", {"R5"}),
    M("del-closes-conditionally", IT, "RenderIterator.__del__", "            self.close()\n", "            if self.loop:\n                self.close()\n", {"R3"}),
    M("data-del-finalizes-conditionally", TY, "RenderData.__del__", "self.finalize()", "self.finalized or self._namespaces.clear()", {"R1"}),
    M("closed-flag-in-finally", IT, "RenderIterator.close", "            self._iterator.close()\n", "            try:\n                self._iterator.close()\n            finally:\n                self._closed = True\n", {"R1"}),
    M("twin-rename-local", RN, "Renderable._init_render_#4", "terminal_size", "term_size", twin=True, count=0),
]
