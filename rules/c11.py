"""C11 - image iteration matches frame-by-frame rendering and leaks nothing: the resource discipline
(DESIGN.md 4, C11). Frame equality with direct formatting is runtime data - not decided. The ownership rules cover
normal paths and the exceptional paths the code itself declares fallible (convert/resize); on other exceptional paths
CPython's reference counting closes the file when the traceback is dropped, which still satisfies the property's
observable (open-file count back at baseline)."""
from __future__ import annotations

import ast

from tiv.astutil import conds, body_walk, call_name, dotted, enclosing_stmt, guards, kw, names_loaded, norm, short, stores_in, try_context, walk_local, with_context
from tiv.cfg import CFG, fmt_path
from tiv.match import find_stmts, match_expr, match_stmt
from tiv.mutate import M
from tiv.sem import expand, trace, same, same_bool

RULES = {
    "MEMO": "memo safety (shared, rules/common.py): a memoised function in this property's files (or called from them) is a function of its "
            "arguments only (no terminal/ambient/receiver state outside the key) and no caller mutates its result in place",
    "R1": "only _close_image closes a source-derived image: every `.close()` / `with` on an image in term_image/image/* has a receiver created "
          "in that function (Image.open/new/frombytes, convert, resize, BytesIO, open) - or is the single `img.close()` inside _close_image, guarded by "
          "`img is not self._source` (a PIL image supplied by the caller is never closed)",
    "R2": "every renderer releases the image it was given: on every normal path through each _render_image override the image has passed a release "
          "(`if frame_img is not img: self._close_image(img)`, or an unconditional `self._close_image(img)`), n_frames releases in a finally, "
          "_display_animated in its finally (the release condition is decided on the 4 valuations of (frame, image still the one passed in) when it is not the baseline idiom)",
    "R3": "no overwrite before release: in _get_render_data / convert_resize_img every rebinding of `img` to a new image releases the previous one "
          "under `frame_img is not <previous>` - in a `finally` for the fallible steps (convert, resize), before the rebinding for the composite branches",
    "R4": "iterator bookkeeping: the image handed to ImageIterator._animate is recorded (self._img) for close(); close() closes the generator then "
          "releases the image; __next__ closes on every handler; _animate sets image._seek_position before every render and back to 0 at each end of "
          "pass; a generator object that owns an opened image is never discarded or overwritten without releasing that image; shared with C09.R5: frames served from ImageIterator's cache are validated against the current rendered size; size-dependent values of the image are read per frame in _animate, never once before the loops; no method of the image is called once before the frame loops",
    "R5": "plain files and temp files: every object returned by the builtin open() is used in a `with`; from_url creates the temp copy only after "
          "the instance was constructed successfully, and removes it again if writing fails; close() removes the copy iff the source is a URL and "
          "tolerates its absence; the temp directory is removed by an atexit hook",
    "R6": "an animated draw() leaves the image's current frame untouched (saved before, restored in finally) and rendering never turns a dynamic "
          "size into a fixed one (_renderer restores it in finally)",
    "R8": "no seek request is lost: in ImageIterator._animate a value received by `sent = yield ...` reaches the update of the frame number (a store to n that reads "
          "sent) on every path on which it is not None, before the next `yield` overwrites it",
    "R7": "no use after release: once an image has been released (`_close_image(v)` / `v.close()` on a local v) no path through the function reaches an operation on it "
          "(v passed to a call, a method of v called) before v is rebound; identity tests and plain attribute reads (mode, size) are not operations",
}
CM, BL, KT, IT = "image/common.py", "image/block.py", "image/kitty.py", "image/iterm2.py"
FRESH_IMG = ("Image.open", "Image.new", "Image.frombytes", "PIL.Image.frombytes", "PIL.Image.open", "io.BytesIO", "io.StringIO", "open", "BytesIO", "StringIO")


ITER_CTORS = {"ImageIterator", "RenderIterator", "iter"}


def _is_iterator(fn, recv) -> bool:
    """A local name every binding of which is an iterator/generator construction."""
    if not isinstance(recv, ast.Name):
        return False
    bs = [st for t, st in stores_in(ast.Module(body=fn.body, type_ignores=[])) if isinstance(t, ast.Name) and t.id == recv.id]
    return bool(bs) and all(isinstance(getattr(b, "value", None), ast.Call) and ((call_name(b.value) or "").split(".")[-1] in ITER_CTORS or (call_name(b.value) or "").endswith("._animate")) for b in bs)


def _fresh(fn, name):
    bs = [st for t, st in stores_in(ast.Module(body=fn.body, type_ignores=[])) if isinstance(t, ast.Name) and t.id == name]
    if not bs:
        return False
    for b in bs:
        v = getattr(b, "value", None)
        if isinstance(b, ast.With):
            v = next((i.context_expr for i in b.items if i.optional_vars is not None and norm(i.optional_vars) == name), None)
        if not (isinstance(v, ast.Call) and ((call_name(v) or "") in FRESH_IMG or (isinstance(v.func, ast.Attribute) and v.func.attr in ("convert", "resize", "copy")))):
            return False
    return True


def run(ck, m):
    from rules.common import rule_memo_safety
    rule_memo_safety(ck, m, "MEMO", "C11")          # first: a memoised helper also hides the code it wraps from the rules below
    # ---- R1 ----------------------------------------------------------------------------
    n1 = 0
    for rel, q, fn in m.functions():
        if rel not in (CM, BL, KT, IT):
            continue
        if True:
            params = {a.arg for a in fn.args.posonlyargs + fn.args.args + fn.args.kwonlyargs}
            for n in body_walk(fn):
                recv = None
                if isinstance(n, ast.Call) and isinstance(n.func, ast.Attribute) and n.func.attr == "close" and not n.args:
                    recv = n.func.value
                elif isinstance(n, ast.With):
                    for it in n.items:
                        if isinstance(it.context_expr, ast.Name):
                            recv = it.context_expr
                            n1 += 1
                            nm = recv.id
                            ok = _fresh(fn, nm) and nm not in params
                            ck.ob("R1", n, ok, f"{q}: `with {nm}:` closes an object that was not created in this function: a caller's PIL image (or the source image) must only be released through _close_image",
                                  stmt=f"{q}: with {nm}")
                    continue
                if recv is None:
                    continue
                r = norm(recv)
                if r in ("self", "os") or r.endswith(("_animator", "_iterator")) or _is_iterator(fn, recv):
                    continue  # generators / iterators, not images
                n1 += 1
                if q.endswith("BaseImage._close_image"):
                    gs = sorted(conds(n))
                    ck.ob("R1", enclosing_stmt(n), gs == ["img is not self._source"], f"_close_image must close only when `img is not self._source` (the caller's own PIL image is never closed); guards: {gs}", stmt="_close_image: img.close() iff img is not self._source")
                    continue
                ok = isinstance(recv, ast.Name) and _fresh(fn, recv.id) and recv.id not in params
                ck.ob("R1", enclosing_stmt(n), ok, f"{q}: `{r}.close()` closes an object that was not created here: use self._close_image() so that a caller-supplied image survives", stmt=f"{q}: {r}.close()")
    ck.expect(n1 >= 6, f"expected >= 6 close/with sites in term_image/image, found {n1}")
    n_ci = sum(1 for rel in (CM, BL, KT, IT) for n in m.walk(rel) if isinstance(n, ast.Call) and (call_name(n) or "").endswith("._close_image"))
    ck.expect(n_ci >= 12, f"expected >= 12 _close_image calls, found {n_ci}")

    # ---- R2 ----------------------------------------------------------------------------
    def frame_var(fn):
        fi = find_stmts("$$v = img if frame else None", body_walk(fn))
        return norm(fi[0][1]["v"]) if fi else None

    def make_is_release(fv):
        def is_release(n):
            if n.ast is None:
                return False
            if n.kind == "test" and fv and match_expr(f"{fv} is not img", n.ast) is not None:
                return True
            if n.kind == "stmt" and any(isinstance(c, ast.Call) and norm(c.func) == "self._close_image" and c.args and norm(c.args[0]) == "img" for c in ast.walk(n.ast)):
                return True
            return False
        return is_release
    rends = []
    for rel, cls in m.subclasses("BaseImage"):
        for s in cls.body:
            if isinstance(s, ast.FunctionDef) and s.name == "_render_image" and not any(norm(d) == "abstractmethod" for d in s.decorator_list):
                rends.append((rel, cls.name, s))
    ck.expect(len(rends) >= 3, f"expected >= 3 concrete _render_image, found {len(rends)}")
    from tiv.absdom import EvUnk as _EvUnk, ev as _aev
    import itertools as _it
    for rel, cn, fn in rends:
        g = CFG(fn)
        # the conditional release: `if <test>: self._close_image(img)` where <test> holds exactly when the image at hand is not the
        # iterator's frame image (frame is set and the image is still the one passed in). Decided on the 4 valuations of
        # (frame, current image is the one passed in), whatever local the entry image is kept in.
        rel_ifs = [s_ for s_ in body_walk(fn) if isinstance(s_, ast.If) and not s_.orelse and [norm(x) for x in s_.body] == ["self._close_image(img)"]]
        ck.ob("R2", fn, len(rel_ifs) >= 1, f"{cn}._render_image: the conditional release `if <not the iterator's frame image>: self._close_image(img)` not found", stmt=f"{cn}: frame_img = img if frame else None")
        for s_ in rel_ifs:
            cur = ast.Name(id="img", ctx=ast.Load())
            cur_t = norm(trace(fn, cur, use=s_.test))
            tt_src = norm(trace(fn, s_.test, keep=("frame",)))
            verdict = None
            fv0 = frame_var(fn)
            if fv0 is not None and match_expr(f"{fv0} is not img", s_.test) is not None:
                verdict = True          # the baseline idiom: `<v> = img if frame else None` ... `if <v> is not img:` (also where <v> is conditionally None)
            try:
                if verdict:
                    raise SyntaxError
                e_ = ast.parse(tt_src.replace(cur_t, "IMGCUR") if cur_t != "img" else tt_src.replace("img", "IMGCUR").replace("IMGCUR__0", "img__0"), mode="eval").body
                verdict = True
                for fr_, same_ in _it.product((True, False), (True, False)):
                    got = bool(_aev(e_, {"frame": fr_, "img__0": "SRC", "img": "SRC", "IMGCUR": "SRC" if same_ else "NEW"}))
                    if got != (not (fr_ and same_)):
                        verdict = False
            except (_EvUnk, SyntaxError):
                pass
            ck.expect(verdict is not None, f"{cn}._render_image: the release condition `{short(s_.test, 60)}` is not evaluable on (frame, same image)")
            if verdict is not None:
                ck.ob("R2", s_, verdict, f"{cn}: the image must be released exactly when it is not the iterator's frame image (`frame` set and still the image passed in); found `{short(s_.test, 60)}`",
                      stmt=f"{cn}: if frame_img is not img: self._close_image(img)")

        def is_release(n, rel_ifs=rel_ifs):
            if n.ast is None:
                return False
            if n.kind == "test" and any(n.ast is s_.test for s_ in rel_ifs):
                return True
            return n.kind == "stmt" and any(isinstance(c, ast.Call) and norm(c.func) == "self._close_image" and c.args and norm(c.args[0]) == "img" for c in ast.walk(n.ast))
        p = g.search([g.entry], lambda n: n is g.exit_return, avoid=is_release, from_succ=False, edge_ok=lambda s, lab, d: not lab.startswith(("e:", "p:")))
        ck.ob("R2", fn, p is None, f"{cn}._render_image can return normally without releasing the image it was given ({fmt_path(p) if p else ''}): the file opened by _renderer() stays open",
              stmt=f"{cn}._render_image: image released on every normal path")
        # the explicit error path releases before raising
        for r in body_walk(fn):
            if isinstance(r, ast.Raise) and r.exc is not None and "RenderError" in norm(r.exc):
                blk = enclosing_stmt(r)._p
                body = getattr(blk, "body", [])
                ck.ob("R2", r, any(norm(x) == "self._close_image(img)" for x in body if x.lineno < r.lineno), f"{cn}: the declared error path must release the image before raising", stmt=f"{cn}: release before raise RenderError")
    nf = m.get(CM, "BaseImage.n_frames")
    tr = next((t for t in body_walk(nf) if isinstance(t, ast.Try) and t.finalbody), None)
    ck.ob("R2", nf, tr is not None and any(norm(s) == "self._close_image(img)" for s in tr.finalbody) and any(norm(s) == "img = self._get_image()" for s in body_walk(nf) if isinstance(s, ast.Assign) and s.lineno < tr.lineno),
          "n_frames must release the image it opened in a finally", stmt="n_frames: release in finally")
    da = m.get(CM, "BaseImage._display_animated")
    tr = next((s for s in da.body if isinstance(s, ast.Try) and s.finalbody), None)
    ck.ob("R2", da, tr is not None and any(norm(s) == "self._close_image(img)" for s in tr.finalbody), "_display_animated must release the image in its finally", stmt="_display_animated: release in finally")
    rn = m.get(CM, "BaseImage._renderer")
    ck.ob("R2", rn, any(norm(r.value) == "renderer(self._get_image(), *args, **kwargs)" for r in body_walk(rn) if isinstance(r, ast.Return)), "_renderer hands a freshly obtained image to the renderer (which owns it)", stmt="_renderer: renderer(self._get_image(), ...)")

    # ---- R3 ----------------------------------------------------------------------------
    cr = m.get(CM, "BaseImage._get_render_data.convert_resize_img")
    gfv = frame_var(m.get(CM, "BaseImage._get_render_data")) or "frame_img"
    n3 = 0
    for t in body_walk(cr):
        if isinstance(t, ast.Try):
            rb = [s for s in t.body if isinstance(s, ast.Assign) and norm(s.targets[0]) == "img"]
            if not rb:
                continue
            n3 += 1
            blk = t._p.body
            i = blk.index(t)
            prev = blk[i - 1] if i > 0 else None
            pv = match_stmt("$$p = img", prev) if prev is not None else None
            okp = pv is not None
            pn = norm(pv["p"]) if pv else "prev_img"
            fin_ok = any(isinstance(s, ast.If) and match_expr(f"{gfv} is not {pn}", s.test) is not None and [norm(x) for x in s.body] == [f"self._close_image({pn})"] for s in t.finalbody)
            ck.ob("R3", t, okp and fin_ok,
                  f"`{short(rb[0], 40)}` can fail; the previous image must be saved (`{pn} = img`) and released in a `finally` under `frame_img is not {pn}` - otherwise a failing conversion "
                  "leaves the source file open", stmt=f"convert_resize_img: release previous image in finally around `{short(rb[0], 40)}`")
    ck.expect(n3 == 2, f"convert_resize_img: expected 2 guarded rebinding steps (convert, resize), found {n3}")
    grd = m.get(CM, "BaseImage._get_render_data")
    n3b = 0
    # the composited replacements: `img = <X or something made from X>` where X received `.alpha_composite(img)`
    comp_recv = {c.func.value.id for c in body_walk(grd) if isinstance(c, ast.Call) and isinstance(c.func, ast.Attribute) and c.func.attr == "alpha_composite" and isinstance(c.func.value, ast.Name)}
    for s in body_walk(grd):
        if isinstance(s, ast.Assign) and norm(s.targets[0]) == "img" and (names_loaded(expand(grd, s.value)) & comp_recv):
            n3b += 1
            blk = s._p.body
            i = blk.index(s)
            prevs = blk[:i]
            rel = [p for p in prevs if isinstance(p, ast.If) and match_expr(f"{gfv} is not img", p.test) is not None and [norm(x) for x in p.body] == ["self._close_image(img)"]]
            ck.ob("R3", s, len(rel) == 1 and not any(isinstance(x, ast.Assign) and norm(x.targets[0]) == "img" for x in blk[blk.index(rel[0]) + 1:i]) if rel else False,
                  f"`{short(s, 40)}` replaces the image; the previous one must be released (`if frame_img is not img: self._close_image(img)`) just before", stmt=f"_get_render_data: release before `{short(s, 40)}`")
    ck.expect(n3b == 2, f"_get_render_data: expected 2 composite rebindings, found {n3b}")
    fi = find_stmts("$$v = img if frame else None", body_walk(grd))
    ck.ob("R3", grd, len(fi) == 1, "_get_render_data must recognise the iterator's frame image", stmt="_get_render_data: frame_img = img if frame else None")

    # ---- R4 ----------------------------------------------------------------------------
    from rules.common import animate_facts
    an = animate_facts(ck, m)
    first = next(s for s in an.body if not (isinstance(s, ast.Expr) and isinstance(s.value, ast.Constant)))
    ck.ob("R4", first, norm(first) == "self._img = img", "_animate must record the image it owns as its first statement", stmt="_animate: self._img = img first")
    cl = m.get(CM, "ImageIterator.close")
    seq = [norm(s) for t in body_walk(cl) if isinstance(t, ast.Try) for s in t.body]
    ck.ob("R4", cl, seq[:4] == ["self._animator.close()", "del self._animator", "self._image._close_image(self._img)", "del self._img"], f"close() must close the generator, then release the recorded image; found {seq}", stmt="ImageIterator.close: generator closed, image released")
    nx = m.get(CM, "ImageIterator.__next__")
    tr = next((s for s in nx.body if isinstance(s, ast.Try)), None)
    for h in (tr.handlers if tr else []):
        src = [norm(s) for s in walk_local(ast.Module(body=h.body, type_ignores=[])) if isinstance(s, ast.stmt)]
        closes = any(s == "self.close()" for s in src)
        already = h.type is not None and norm(h.type) == "AttributeError"
        ck.ob("R4", h, closes, f"handler `except {norm(h.type) if h.type else ''}` of ImageIterator.__next__ must close the iterator (releasing the image)" + (" on the not-already-closed branch" if already else ""),
              stmt=f"ImageIterator.__next__: except {norm(h.type) if h.type else ''} closes")
    ck.expect(tr is not None and len(tr.handlers) >= 1, "ImageIterator.__next__ handlers not found")
    if tr is not None and tr.handlers:
        caught = {norm(e) for h in tr.handlers for e in ((h.type.elts if isinstance(h.type, ast.Tuple) else [h.type]) if h.type is not None else [ast.Name(id="BaseException")])}
        ck.ob("R4", tr, bool(caught & {"Exception", "BaseException"}) and "StopIteration" in caught | ({"StopIteration"} if caught & {"Exception", "BaseException"} else set()),
              f"ImageIterator.__next__ must handle the end of iteration and every Exception of the frame generator (closing the iterator, which releases the image); its handlers catch only {sorted(caught)}",
              stmt="ImageIterator.__next__: a handler catches Exception")
    rcalls = [c for c in body_walk(an) if isinstance(c, ast.Call) and norm(c.func) == "image._render_image"]
    ck.expect(len(rcalls) == 2, "_animate: the two render calls not found")
    for c in rcalls:
        st = enclosing_stmt(c)
        scope = st
        while scope is not None and not isinstance(scope, ast.If):
            scope = scope._p
        # the nearest preceding statement in the enclosing `if sent is None` block sets the seek position
        outer = c
        while outer is not None and not (isinstance(outer, ast.If) and norm(outer.test) == "sent is None"):
            outer = outer._p
        ok = outer is not None and isinstance(outer.body[0], ast.Assign) and norm(outer.body[0]) == "image._seek_position = n" and outer.body[0].lineno < c.lineno
        ck.ob("R4", st, ok, "the image's current frame must be set to the frame about to be rendered (`image._seek_position = n`) before each render", stmt=f"_animate: _seek_position = n before render at L{'' if False else ''}{[r.lineno for r in rcalls].index(c.lineno) + 1}")
    resets = [s for s in body_walk(an) if isinstance(s, ast.Assign) and len(s.targets) == 2 and {norm(t) for t in s.targets} == {"image._seek_position", "n"} and norm(s.value) == "0"]
    ck.ob("R4", an, len(resets) == 2, f"at each end of pass (EOFError in the first phase, end of a cached pass in the second) the image's current frame must return to 0 together with n; found {len(resets)} of 2 resets", stmt="_animate: _seek_position = n = 0 at both ends of pass")
    if len(resets) == 2:
        in_handler = any(any(isinstance(a, ast.ExceptHandler) and "EOFError" in norm(a.type) for a in _anc(r)) for r in resets)
        in_outer_loop = any(sum(1 for a in _anc(r) if isinstance(a, ast.While)) == 1 and not any(isinstance(a, ast.ExceptHandler) for a in _anc(r)) for r in resets)
        ck.ob("R4", an, in_handler and in_outer_loop, "one reset belongs to the EOFError handler, the other to the end of each cached pass", stmt="_animate: reset sites")
    tail = an.body[-1]
    ck.ob("R4", tail, isinstance(tail, ast.If) and norm(tail.test) == "img is image._source" and [norm(s) for s in tail.body] == ["img.seek(0)"], "after iteration the caller's own PIL image is rewound to frame 0 (only if it is the source)", stmt="_animate: rewind the caller's image only")
    # generators owning an image: creation sites
    ii = m.get(CM, "ImageIterator.__init__")
    creates = [st for t, st in stores_in(ast.Module(body=ii.body, type_ignores=[])) if norm(t) == "self._animator"]
    started = any(isinstance(c, ast.Call) and call_name(c) == "next" and "self._animator" in norm(c) for c in body_walk(ii))
    records = any(norm(t) == "self._img" for t, _ in stores_in(ast.Module(body=ii.body, type_ignores=[])))
    ck.ob("R4", creates[0] if creates else ii, started or records,
          "ImageIterator.__init__ creates the generator over a freshly opened image but the image is only recorded (self._img) when the generator first runs: close() before the first next() cannot release it",
          stmt="ImageIterator.__init__: image recorded before the first next()")
    for rel, q, fn in m.functions():
        for t, st in stores_in(ast.Module(body=fn.body, type_ignores=[])):
            if isinstance(t, ast.Attribute) and t.attr == "_animator" and not q.endswith("ImageIterator.__init__") and not isinstance(st, ast.Delete):
                prev_closed = any(isinstance(c, ast.Call) and norm(c.func) in (f"{norm(t.value)}.close", f"{norm(t)}.close") and c.lineno < st.lineno for c in body_walk(fn))
                ck.ob("R4", st, prev_closed, f"{q}: `{short(st, 60)}` overwrites a generator that owns an opened image without releasing it (the image opened by ImageIterator.__init__ is left to the garbage collector)",
                      stmt=f"{q}: generator attribute `_animator` of a local iterator overwritten (#{sum(1 for t2, s2 in stores_in(ast.Module(body=fn.body, type_ignores=[])) if isinstance(t2, ast.Attribute) and t2.attr == '_animator' and s2.lineno < st.lineno) + 1})")

    # ---- R5 ----------------------------------------------------------------------------
    n5 = 0
    for rel, q, fn in m.functions():
        if rel not in (CM, BL, KT, IT):
            continue
        if True:
            for st in body_walk(fn):
                if isinstance(st, ast.Assign) and isinstance(st.value, ast.Call) and call_name(st.value) == "open" and isinstance(st.targets[0], ast.Name):
                    n5 += 1
                    nm = st.targets[0].id
                    ws = [w for w in body_walk(fn) if isinstance(w, ast.With) and any(norm(i.context_expr) == nm for i in w.items) and w.lineno > st.lineno]
                    g = CFG(fn)
                    sn = g.nodes_of(st)
                    wn = [x for x in g.nodes if x.kind == "with_enter" and norm(x.ast.context_expr) == nm]
                    p = g.search(sn, lambda x: x is g.exit_return, avoid=lambda x: x in wn, edge_ok=lambda s, lab, d: not lab.startswith(("e:", "p:")))
                    ck.ob("R5", st, bool(ws) and p is None, f"{q}: the file opened by `{short(st, 50)}` can reach a normal return without entering a `with {nm}` ({fmt_path(p) if p else ''})", stmt=f"{q}: {short(st, 60)} closed by with")
    ck.expect(n5 >= 3, f"expected >= 3 builtin open() sites, found {n5}")
    fu = m.get(CM, "BaseImage.from_url")
    ctor = next((s for s in body_walk(fu) if isinstance(s, ast.Assign) and norm(s.targets[0]) == "new" and isinstance(s.value, ast.Call) and norm(s.value.func) == "cls"), None)
    mk = next((s for s in body_walk(fu) if isinstance(s, ast.Assign) and isinstance(s.value, ast.Call) and call_name(s.value) == "mkstemp"), None)
    if ctor is not None and mk is None:
        named = [c for c in body_walk(fu) if isinstance(c, ast.Call) and (call_name(c) or "") in ("os.path.join", "os.open", "open") and "_TEMP_DIR" in norm(c)]
        ck.ob("R5", enclosing_stmt(named[0]) if named else fu, False,
              "from_url no longer creates the temporary copy with mkstemp(): a name derived from anything but a fresh unique file (URL, basename, hash ...) is shared by two live images of the same "
              "source, so closing one removes the backing copy of the other - and a failed construction can delete a file it does not own", stmt="from_url: temporary copy is a fresh unique file (mkstemp)")
        return
    ck.need(ctor is not None and mk is not None, "from_url: constructor call / mkstemp not found")
    g = CFG(fu)
    cn, mn = g.nodes_of(ctor), g.nodes_of(mk)
    ok = all(g.dominated_by(x, lambda n: n in cn, edge_ok=lambda s, lab, d: not (s in cn and lab.startswith("e:"))) for x in mn)
    ck.ob("R5", mk, ok and ctor.lineno < mk.lineno, "the temporary copy must be created only after the instance was constructed successfully (a failing constructor must leave no file behind)", stmt="from_url: mkstemp dominated by successful construction")
    wr = next((c for c in body_walk(fu) if isinstance(c, ast.Call) and call_name(c) == "os.write"), None)
    ck.need(wr is not None, "from_url: os.write not found")
    tc = try_context(wr)
    okw = bool(tc) and tc[0][1] == "body" and any(norm(s) == "os.close(fd)" for s in tc[0][0].finalbody) and any(
        any(norm(s) == "os.remove(filepath)" for s in h.body) and isinstance(h.body[-1], ast.Raise) for h in tc[0][0].handlers)
    ck.ob("R5", enclosing_stmt(wr), okw, "writing the temporary copy can fail: the descriptor must be closed in a finally and the file removed before re-raising", stmt="from_url: write protected (close in finally, remove on failure)")
    cl = m.get(CM, "BaseImage.close")
    rm = next((c for c in body_walk(cl) if isinstance(c, ast.Call) and call_name(c) == "os.remove"), None)
    gs = conds(rm) if rm else set()
    tol = rm is not None and any(part == "body" and any(h.type is not None and "FileNotFoundError" in norm(h.type) for h in t.handlers) for t, part in try_context(rm))
    ck.ob("R5", cl, rm is not None and "self._source_type is ImageSource.URL" in gs and "not self._closed" in gs and norm(rm.args[0]) == "self._source" and tol,
          "close() must remove the temporary copy exactly when the source is a URL (once, tolerating a missing file)", stmt="BaseImage.close: remove temp copy iff URL source")
    ct = m.find(CM, "_cleanup_temp_dir")
    ck.ob("R5", ct or cl, ct is not None and any(norm(d) == "atexit.register" for d in ct.decorator_list) and "rmtree(_TEMP_DIR" in norm(ct), "the temp directory must be removed by an atexit hook", stmt="_cleanup_temp_dir registered with atexit")
    ff = m.get(CM, "BaseImage.from_file")
    wimg = next((w for w in body_walk(ff) if isinstance(w, ast.With) and [norm(i.context_expr) for i in w.items] == ["img"]), None)
    ck.ob("R5", ff, wimg is not None and any(norm(s) == "new = cls(img, **kwargs)" for s in wimg.body), "from_file must close the probe image it opened (with img:)", stmt="from_file: with img")

    # every frame is formatted for the image's size *at that frame*: nothing that depends on the image's size (rendered_size / width / height, size) is
    # read outside the frame loops - a decision taken once at the start ("padding is a no-op for this spec") is stale after set_size() or a terminal resize
    SIZE_ATTRS = {"rendered_size", "rendered_width", "rendered_height", "size", "width", "height", "_size"}
    loops8 = [x for x in body_walk(an) if isinstance(x, (ast.While, ast.For))]
    inside8 = {id(y) for lp_ in loops8 for y in ast.walk(lp_)}
    snap8 = [x for x in body_walk(an) if isinstance(x, ast.Attribute) and isinstance(x.ctx, ast.Load) and x.attr in SIZE_ATTRS and norm(x.value) in ("image", "self._image") and id(x) not in inside8]
    # ... nor is anything *computed from the image* once for all frames (a padding computed before the loop): outside the loops no method of the image is called
    snap8 += [x.func for x in body_walk(an) if isinstance(x, ast.Call) and isinstance(x.func, ast.Attribute) and norm(x.func.value) in ("image", "self._image") and id(x) not in inside8
              and x.func.attr not in ("_close_image",)]
    ck.ob("R4", enclosing_stmt(snap8[0]) if snap8 else an, not snap8, f"_animate reads `{norm(snap8[0]) if snap8 else ''}` once, outside the frame loops: frames rendered after the image's size changed are then formatted "
          "(padded / aligned) according to the size at the start of the iteration - they no longer equal formatting that frame directly", stmt="_animate: size-dependent values are read per frame, not before the loops")

    # ---- R8: a value sent to the generator (seek) is consumed before the next yield overwrites it ------------------------------------------
    g8 = CFG(an)
    ynodes = [n_ for n_ in g8.nodes if n_.kind == "stmt" and isinstance(n_.ast, ast.Assign) and isinstance(n_.ast.value, ast.Yield) and any(norm(t_) == "sent" for t_ in n_.ast.targets)]
    ck.expect(len(ynodes) >= 2, f"_animate: `sent = yield frame` sites found: {len(ynodes)}")

    def _consumes(n_):
        return n_.kind == "stmt" and isinstance(n_.ast, (ast.Assign, ast.AugAssign, ast.AnnAssign)) and not isinstance(getattr(n_.ast, "value", None), ast.Yield) \
            and any(isinstance(t_, ast.Name) and t_.id == "n" for t_, _s in stores_in(n_.ast)) and "sent" in names_loaded(n_.ast.value)

    def _edge8(a_, lab, d_):
        if lab.startswith(("e:", "p:")):
            return False
        if a_.kind == "test" and a_.ast is not None:
            t_ = norm(getattr(a_.ast, "test", a_.ast))
            if (t_ == "sent is None" and lab == "true") or (t_ == "sent is not None" and lab == "false"):
                return False          # nothing was sent on this branch
        return True
    for y_ in ynodes:
        p8 = g8.search([y_], lambda n_: n_ in ynodes, avoid=_consumes, edge_ok=_edge8)
        ck.ob("R8", y_.ast, p8 is None, f"a frame number sent to the generator here (seek) can reach the next `yield` without having been stored into the frame counter ({fmt_path(p8) if p8 else ''}): "
              "that request is dropped - the next frame is not the one last asked for", stmt=f"_animate: a sent value is consumed before the next yield (#{ynodes.index(y_) + 1})")

    # ---- R7: no use after release (typestate released -> no operation, over the function's flow graph) ------------------------------------
    from tiv.cfg import CFG as _CFG7, fmt_path as _fmt7

    def _release_of(c):
        if isinstance(c, ast.Call) and isinstance(c.func, ast.Attribute):
            if c.func.attr == "_close_image" and len(c.args) == 1 and isinstance(c.args[0], ast.Name):
                return c.args[0].id
            if c.func.attr == "close" and not c.args and isinstance(c.func.value, ast.Name) and c.func.value.id not in ("self", "cls"):
                return c.func.value.id
        return None
    n7 = 0
    for rel_, q_, fn_ in m.functions():
        if not rel_.startswith("image/"):
            continue
        rels_ = [(c, _release_of(c)) for c in body_walk(fn_) if _release_of(c)]
        if not rels_:
            continue
        g7 = _CFG7(fn_)
        for c, v in rels_:
            n7 += 1

            def _src(n):
                if n.ast is None:
                    return None
                if n.kind == "iter":
                    return n.ast.iter
                if n.kind == "test":
                    return getattr(n.ast, "test", n.ast)
                if n.kind == "with_enter":
                    return n.ast.context_expr
                if n.kind != "stmt" or isinstance(n.ast, (ast.If, ast.While, ast.For, ast.Try, ast.With, ast.FunctionDef, ast.ClassDef)):
                    return None
                return n.ast

            def uses(n, v=v):
                src = _src(n)
                if src is None:
                    return False
                for x in ast.walk(src):
                    if isinstance(x, ast.Name) and x.id == v and isinstance(x.ctx, ast.Load):
                        p_ = getattr(x, "_p", None)
                        if isinstance(p_, ast.Compare) and all(isinstance(o, (ast.Is, ast.IsNot)) for o in p_.ops):
                            continue
                        if isinstance(p_, ast.Call) and _release_of(p_) == v:
                            continue
                        if isinstance(p_, ast.Attribute):
                            pp_ = getattr(p_, "_p", None)
                            if not (isinstance(pp_, ast.Call) and pp_.func is p_) or _release_of(pp_) == v:
                                continue          # a plain attribute read (mode, size, filename), or the release itself
                        elif not isinstance(p_, (ast.Call, ast.keyword, ast.Starred, ast.Return, ast.Yield, ast.Tuple, ast.List)):
                            continue              # neither handed to a call nor given away
                        return True
                return False

            def rebinds(n, v=v):
                if n.ast is not None and n.kind == "with_enter":
                    ov = getattr(n.ast, "optional_vars", None)
                    return ov is not None and any(isinstance(x, ast.Name) and x.id == v for x in ast.walk(ov))
                if n.ast is None or n.kind not in ("stmt", "iter") or isinstance(n.ast, (ast.If, ast.While, ast.Try, ast.With, ast.FunctionDef, ast.ClassDef)):
                    return False
                tg = n.ast.target if isinstance(n.ast, ast.For) else n.ast
                return any(isinstance(x, ast.Name) and x.id == v and isinstance(x.ctx, (ast.Store, ast.Del)) for x in ast.walk(tg))
            p7 = g7.search(g7.nodes_of(enclosing_stmt(c)), uses, avoid=rebinds)
            ck.ob("R7", enclosing_stmt(c), p7 is None, f"{q_}: `{v}` is released here and then operated on ({_fmt7(p7) if p7 else ''}): for a file- or URL-sourced image the released object is closed, "
                  "so the later render raises instead of producing the frame", stmt=f"{rel_}::{q_}: no use of `{v}` after `{short(c, 40)}`")
    ck.expect(n7 >= 8, f"release sites found: {n7}")

    # ---- R6 ----------------------------------------------------------------------------
    tr = next((s for s in da.body if isinstance(s, ast.Try) and s.finalbody), None)
    save = [st for t, st in stores_in(ast.Module(body=da.body, type_ignores=[])) if isinstance(t, ast.Name) and isinstance(st, ast.Assign) and norm(st.value) == "self._seek_position"]
    ck.ob("R6", da, tr is not None and len(save) == 1 and save[0].lineno < tr.lineno and any(norm(s) == f"self._seek_position = {norm(save[0].targets[0])}" for s in tr.finalbody),
          "an animated draw must save the image's current frame before its try and restore it in the finally", stmt="_display_animated: current frame saved and restored")
    from rules.common import rule_renderer_restores_size
    rule_renderer_restores_size(ck, m, "R6")
    writers = set()
    for rel, _q, t, st in m.stores():

        if True:
            if isinstance(t, ast.Attribute) and t.attr == "_size":
                writers.add(f"{rel}::{getattr(st, '_q', '')}")
    allowed = {f"{CM}::BaseImage.size#2", f"{CM}::BaseImage.set_size", "widget/_urwid.py::UrwidImage.render", f"{CM}::BaseImage.size"}
    ck.ob("R6", rn, writers <= allowed, f"`_size` is written in {sorted(writers - allowed)}; only the size setter, set_size and (documented) UrwidImage.render may", stmt="writers of _size")
    # ---- shared with C09.R5: frames served from ImageIterator's cache are the frames a fresh render would give
    from tiv.report import borrow
    import rules.c09 as c09
    borrow(ck, c09, m, "R4", lambda c: c.endswith("ImageIterator._animate"), rids={"R5"}, min_kept=4)


def _anc(n):
    p = getattr(n, "_p", None)
    while p is not None:
        yield p
        p = getattr(p, "_p", None)


MUTANTS = [
    M("raw-close-in-renderer", KT, "KittyImage._render_image", "        if frame_img is not img:\n            self._close_image(img)\n", "        if frame_img is not img:\n            img.close()\n", {"R1", "R2"}),
    M("close-guard-dropped", CM, "BaseImage._close_image", "        if img is not self._source:\n            img.close()", "        if True:\n            img.close()", {"R1"}),
    M("block-no-release", BL, "BlockImage._render_image", "        if frame_img is not img:\n            self._close_image(img)\n", "", {"R2"}),
    M("iterm2-anim-no-release", IT, "ITerm2Image._render_image", "                compressed_image = open(self._source, \"rb\")\n\n            self._close_image(img)\n", "                compressed_image = open(self._source, \"rb\")\n", {"R2"}),
    M("flatten-convert-finally", CM, "BaseImage._get_render_data",
      "                try:\n                    img = img.convert(mode)\n                # Possible for images in some modes e.g \"La\"\n                except Exception as e:\n                    raise RenderError(\"Unable to convert image\") from e\n                finally:\n                    if frame_img is not prev_img:\n                        self._close_image(prev_img)\n",
      "                try:\n                    img = img.convert(mode)\n                # Possible for images in some modes e.g \"La\"\n                except Exception as e:\n                    raise RenderError(\"Unable to convert image\") from e\n                if frame_img is not prev_img:\n                    self._close_image(prev_img)\n", {"R3"}),
    M("composite-no-release", CM, "BaseImage._get_render_data",
      "                bg.alpha_composite(img)\n                if frame_img is not img:\n                    self._close_image(img)\n                img = bg.convert(\"RGB\")", "                bg.alpha_composite(img)\n                img = bg.convert(\"RGB\")", {"R3"}),
    M("drop-img-record", CM, "ImageIterator._animate", "        self._img = img  # For cleanup\n", "", {"R4"}),
    M("drop-second-reset", CM, "ImageIterator._animate", "            image._seek_position = n = 0\n            if repeat > 0:  # Avoid infinitely large negative numbers\n                self._loop_no = repeat = repeat - 1\n\n        # For consistency",
      "            n = 0\n            if repeat > 0:  # Avoid infinitely large negative numbers\n                self._loop_no = repeat = repeat - 1\n\n        # For consistency", {"R4"}),
    M("next-handler-no-close", CM, "ImageIterator.__next__", "        except Exception:\n            self.close()\n            raise", "        except Exception:\n            raise", {"R4"}),
    M("open-without-with", IT, "ITerm2Image._render_image", "        # WHOLE\n        with compressed_image:\n            compressed_image.seek(0, 2)", "        # WHOLE\n        if True:\n            compressed_image.seek(0, 2)", {"R5"}),
    M("mkstemp-before-ctor", CM, "BaseImage.from_url",
      "        # Ensure initialization is successful before writing to file\n        try:\n            new = cls(Image.open(io.BytesIO(response.content)), **kwargs)\n        except UnidentifiedImageError as e:\n            e.args = (f\"The URL {url!r} doesn't link to an identifiable image\",)\n            raise\n\n        fd, filepath = mkstemp(\"-\" + os.path.basename(url), dir=_TEMP_DIR)\n",
      "        fd, filepath = mkstemp(\"-\" + os.path.basename(url), dir=_TEMP_DIR)\n        try:\n            new = cls(Image.open(io.BytesIO(response.content)), **kwargs)\n        except UnidentifiedImageError as e:\n            e.args = (f\"The URL {url!r} doesn't link to an identifiable image\",)\n            raise\n\n", {"R5"}),
    M("revert-fix-k3", CM, "BaseImage.from_url",
      "        try:\n            os.write(fd, response.content)\n        except BaseException:\n            # Don't leave the temporary file behind if it couldn't be written\n            os.remove(filepath)\n            raise\n        finally:\n            os.close(fd)\n",
      "        os.write(fd, response.content)\n        os.close(fd)\n", {"R5"}),
    M("drop-seek-restore", CM, "BaseImage._display_animated", "            self._seek_position = prev_seek_pos\n", "", {"R6"}),
    M("release-before-cached-loops", CM, "ImageIterator._animate", "        if cached:\n            n_frames = len(cache)\n", "        if cached:\n            n_frames = len(cache)\n            image._close_image(img)\n", {"R7"}),
    M("seek-reply-dropped", CM, "ImageIterator._animate", "                sent = yield frame\n                n = n + 1 if sent is None else sent - 1\n", "                sent = yield frame\n                if sent is None:\n                    n += 1\n                else:\n                    n = sent\n                    sent = yield frame\n", {"R8"}),
    M("size-snapshot-before-loops", CM, "ImageIterator._animate", "        sent = None\n        n = 0\n", "        needs_padding = fmt[1] > image.rendered_size[0]\n        sent = None\n        n = 0\n", {"R4"}),
    M("twin-rename-prev", CM, "BaseImage._get_render_data", "prev_img", "old_img", twin=True, count=0),
]
