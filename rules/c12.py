"""C12 - terminal queries report what the terminal said, whatever the timing: agreements between the request written,
the stop predicate, the drain and the parser (DESIGN.md 4, C12). Timing/select/partial reads are schedules over a
device and are not decided."""
from __future__ import annotations

import ast
import re

from tiv import rex
from tiv.astutil import conds, flatten_boolop, body_walk, call_name, dotted, enclosing_stmt, guards, kw, norm, short, stores_in, walk_local, with_context
from tiv.cfg import CFG, fmt_path
from tiv.constfold import UNKNOWN, Folder
from tiv.mutate import M
from tiv.match import match_expr, match_stmt, find_stmts
from tiv.sem import expand, same, same_bool, origin, literals, lit, trace

RULES = {
    "MEMO": "memo safety (shared, rules/common.py): a memoised function in this property's files (or called from them) is a function of its "
            "arguments only (no terminal/ambient/receiver state outside the key) and no caller mutates its result in place; the key under which utils.cached stores a result contains `args` and `kwargs.items()` (keyword values, not only names)",
    "R1": "query sites are siblings: every request passed to query_terminal ends with DA1 (the sentinel every terminal answers); the stop "
          "predicate is either complete (`not s.endswith(b'c')`) - only where no earlier reply can contain 'c' (XTWINOPS, kitty OK) - or prefix "
          "(`not s.endswith(CSI_b)`), in which case the rest of the DA1 reply is drained by read_tty() under `if _queries_enabled` inside the same "
          "`with _tty_lock, _tty_lock` block; input is flushed (TCSAFLUSH) only before the request is written, never by read_tty",
    "R2": "request/response tables agree: XTWINOPS 14<->4 and 16<->6; colour queries 10/11 <-> the c == '10'/'11' dispatch; (height, width) is "
          "reversed exactly once per branch; the response regexes have exactly the documented languages (RGB_SPEC accepts ST and BEL terminators; "
          "decided by regular-language equality on the constant-folded patterns); the window-size swap applies to every source of the text-area size",
    "R3": "colour scaling is per component: inside x_parse_color's comprehension the scale depends on that component's own digit count",
    "R4": "fallbacks never block: query_terminal returns None before touching the terminal when queries are disabled; every caller guards its "
          "use of the response; read_tty is called with `timeout or _query_timeout`; set_query_timeout rejects <= 0 (every termios/tty call of query_terminal runs under `_queries_enabled`, and the value returned when disabled is None); shared with C15.R2: no hand-rolled module-global memo of terminal behaviour in utils.py",
    "R6": "bounded waiting: read_tty's timed loop continues only while (timeout < 0 or elapsed < timeout) and more(input); select() waits at most the "
          "remaining time (timeout - elapsed, or None only for a negative = infinite timeout); the elapsed time is recomputed after every wait; the "
          "non-blocking mode (timeout None) polls with a zero select timeout; VMIN is reset to 0 after the blocking min-read; from each select() no path returns to the loop test without recomputing the elapsed time",
    "R5": "style selection: _styles lists every concrete BaseImage subclass once in the documented preference order (kitty, iterm2, block; "
          "text-based last); auto_image_class returns the first supported class, else the last; support rules use the documented names/versions; decided on the traced condition sets under which `cls._supported = True` is stored (kitty: OK reply to the graphics query and kitty >= 0.20.0 or konsole; iterm2: a truth table over terminal name x version new enough x version parse failed); the terminal name is lower-cased on every return path of get_terminal_name_version; the dotted-integer version parse runs only for konsole; every read of the environment in the value returned by get_terminal_name_version is selected under the negation of the XTVERSION match (the environment is only the fallback); a konsole version test that is not the canonical tuple comparison is decided on concrete konsole versions",
}
U, CS, KT, IT, IM, I = "utils.py", "_ctlseqs.py", "image/kitty.py", "image/iterm2.py", "image/__init__.py", "__init__.py"
MAY_CONTAIN_C = {"TEXT_FG_QUERY_b", "TEXT_BG_QUERY_b", "XTVERSION_b"}
NO_C = {"CELL_SIZE_PX_b", "TEXT_AREA_SIZE_PX_b", "KITTY_SUPPORT_QUERY_b"}


def _concat(e):
    if isinstance(e, ast.BinOp) and isinstance(e.op, ast.Add):
        return _concat(e.left) + _concat(e.right)
    return [e]


def run(ck, m):
    from rules.common import rule_memo_safety
    rule_memo_safety(ck, m, "MEMO", "C12")          # first: a memoised helper also hides the code it wraps from the rules below
    from rules.common import rule_memo_key
    rule_memo_key(ck, m, "MEMO")
    fold = Folder(m.tree(CS))
    env = fold.env
    # ---- R1 ----------------------------------------------------------------------------
    sites = []
    for rel, q, fn in m.functions():
        for c in body_walk(fn):
            if isinstance(c, ast.Call) and (call_name(c) or "").split(".")[-1] == "query_terminal" and fn.name != "query_terminal":
                sites.append((rel, q, fn, c))
    ck.expect(len(sites) >= 4, f"expected >= 4 call sites of query_terminal, found {len(sites)}")
    for rel, q, fn, c in sites:
        req = expand(fn, c.args[0] if c.args else kw(c, "request"))
        more = expand(fn, c.args[1] if len(c.args) > 1 else kw(c, "more"))
        parts = [(dotted(p) or "?").split(".")[-1] for p in _concat(req)]
        ck.ob("R1", enclosing_stmt(c), parts[-1] == "DA1_b", f"{q}: the request {parts} does not end with DA1_b: a terminal that ignores the first queries never completes the read (waits the whole timeout)",
              stmt=f"{q}: request ends with DA1: {'+'.join(parts)}")
        kind = None
        if isinstance(more, ast.Lambda):
            b = norm(more.body)
            arg = more.args.args[0].arg
            if b == f"not {arg}.endswith(b'c')":
                kind = "complete"
            elif b in (f"not {arg}.endswith(ctlseqs.CSI_b)", f"not {arg}.endswith(CSI_b)"):
                kind = "prefix"
        if kind is None and isinstance(more, ast.Lambda):
            # `not s.endswith(X)` with X a constant that is neither the DA1 final byte nor the CSI introducer: the read stops on something
            # that is not (the start of) the LAST requested reply
            mm_ = match_expr(f"not {more.args.args[0].arg}.endswith($x)", more.body)
            if mm_ is not None:
                from tiv.constfold import UNKNOWN as _U

                def _val(e_, depth=3):
                    if isinstance(e_, ast.Constant):
                        return e_.value
                    if isinstance(e_, (ast.Tuple, ast.List)):
                        vs = [_val(x, depth) for x in e_.elts]
                        return _U if any(v is _U for v in vs) else tuple(vs)
                    nm_ = (dotted(e_) or "?").split(".")[-1]
                    if nm_.endswith("_b") and isinstance(env.get(nm_[:-2]), str):
                        return env[nm_[:-2]]
                    if isinstance(env.get(nm_), str):
                        return env[nm_]
                    if depth > 0 and isinstance(e_, ast.Name):
                        d_ = next((st_.value for st_ in m.tree(U).body if isinstance(st_, ast.Assign) and any(norm(t_) == nm_ for t_ in st_.targets)), None)
                        if d_ is not None:
                            return _val(d_, depth - 1)
                    return _U
                xv = _val(mm_["x"])
                if xv is not _U:
                    vals = list(xv) if isinstance(xv, (tuple, list)) else [xv]
                    vals = [v.decode("latin-1") if isinstance(v, bytes) else v for v in vals]
                    okv = all(v in ("c", "\x1b[") for v in vals)
                    ck.ob("R1", enclosing_stmt(c), okv, f"{q}: the read stops at {vals!r}, which is not (the start of) the DA1 reply that ends the request: the DA1 reply may arrive in a later "
                          "burst than the non-blocking drain looks at and stays unread on the terminal, to be misread by the next query or echoed to the user", stmt=f"{q}: stop predicate waits for the DA1 reply")
                    if not okv:
                        continue
        ck.expect(kind is not None, f"{q}: stop predicate `{short(more, 50)}` is not one of the two recognised forms")
        if kind is None:
            continue
        if kind == "complete":
            bad = [p for p in parts if p in MAY_CONTAIN_C]
            unknown = [p for p in parts[:-1] if p not in NO_C and p not in MAY_CONTAIN_C]
            ck.ob("R1", enclosing_stmt(c), not bad, f"{q}: stops at the first 'c', but the reply to {bad} may itself contain a 'c': the read stops inside that reply and the rest stays unread", stmt=f"{q}: complete predicate only with c-free replies")
            ck.expect(not unknown, f"{q}: request parts {unknown} are not in the reply-alphabet table")
        else:
            ws = [w for w in with_context(c) if [norm(i.context_expr) for i in w.items] == ["_tty_lock", "_tty_lock"]]
            ck.ob("R1", enclosing_stmt(c), bool(ws), f"{q}: a two-step (prefix) read must run inside `with _tty_lock, _tty_lock`", stmt=f"{q}: prefix read under the lock")
            drains = [d for d in body_walk(fn) if isinstance(d, ast.Call) and call_name(d) == "read_tty" and not d.args and not d.keywords]
            okd = False
            for d in drains:
                same_lock = bool(ws) and any(w in ws for w in with_context(d))
                guarded = any(norm(t) == "_queries_enabled" and b for t, b in guards(d))
                after = d.lineno > c.lineno
                if same_lock and guarded and after:
                    okd = True
            ck.ob("R1", enclosing_stmt(c), okd, f"{q}: the read stops at the start of the DA1 reply; the rest must be drained by `read_tty()` under `if _queries_enabled` inside the same lock block, "
                  "otherwise reply bytes remain unread on the terminal (or are stolen by another reader)", stmt=f"{q}: DA1 tail drained inside the lock block")
    qt = m.get(U, "query_terminal")
    rt = m.get(U, "read_tty")
    sets_q = [c for c in body_walk(qt) if isinstance(c, ast.Call) and (call_name(c) or "").endswith("tcsetattr")]
    wr = [c for c in body_walk(qt) if isinstance(c, ast.Call) and call_name(c) == "write_tty"]
    fl = [c for c in sets_q if "TCSAFLUSH" in norm(c.args[1])]
    ck.ob("R1", qt, len(wr) == 1 and len(fl) == 1 and fl[0].lineno < wr[0].lineno, "query_terminal must flush pending input (TCSAFLUSH) before - and only before - writing the request", stmt="query_terminal: flush before write")
    for c in body_walk(rt):
        if isinstance(c, ast.Call) and ((call_name(c) or "").endswith("tcsetattr") or (call_name(c) or "").endswith("tcflush")):
            ck.ob("R1", enclosing_stmt(c), (call_name(c) or "").endswith("tcsetattr") and "TCSAFLUSH" not in norm(c),
                  f"read_tty discards queued input (`{short(c, 60)}`): a reply that arrived between the request and the start of the read loop is lost", stmt=f"read_tty: {short(c, 70)} does not flush")
    rd = [c for c in body_walk(qt) if isinstance(c, ast.Call) and call_name(c) == "read_tty"]
    ck.ob("R4", qt, len(rd) == 1 and len(rd[0].args) == 2 and same(qt, rd[0].args[0], "more") and same(qt, rd[0].args[1], "timeout or _query_timeout"),
          "query_terminal must read with `timeout or _query_timeout` (never without a time limit)", stmt="query_terminal: read_tty(more, timeout or _query_timeout)")

    # ---- R2 ----------------------------------------------------------------------------
    resp = env.get("class:Response", {})
    ck.need(resp, "_ctlseqs.Response class constants could not be folded")
    for reqn, ps_req, respn, ps_resp in (("TEXT_AREA_SIZE_PX", 14, "TEXT_AREA_SIZE_PX_re", 4), ("CELL_SIZE_PX", 16, "CELL_SIZE_PX_re", 6)):
        rq, rs = env.get(reqn, UNKNOWN), resp.get(respn, UNKNOWN)
        ck.need(rq is not UNKNOWN and rs is not UNKNOWN, f"{reqn}/{respn} not foldable")
        ck.ob("R2", None, rq == f"\x1b[{ps_req}t", f"{reqn} must be CSI {ps_req} t; folded to {rq!r}", stmt=f"{reqn} == CSI {ps_req} t", construct=f"{CS}::<module>")
        L = rex.compile_pattern(rs, re.ASCII)
        E = rex.compile_pattern(rf"\x1b\[{ps_resp};\d+;\d+t", re.ASCII)
        w, _ = rex.decide([L, E], lambda b: b[0] != b[1], limit=2)
        ck.ob("R2", None, not w, f"{respn} does not have the language of the XTWINOPS reply `CSI {ps_resp} ; h ; w t` (differs on {w!r})", stmt=f"L({respn}) == CSI {ps_resp};h;w t", construct=f"{CS}::Response")
    for n_, ps in (("TEXT_FG_QUERY", 10), ("TEXT_BG_QUERY", 11)):
        ck.ob("R2", None, env.get(n_) == f"\x1b]{ps};?\x1b\\", f"{n_} must be OSC {ps} ; ? ST; folded to {env.get(n_)!r}", stmt=f"{n_} == OSC {ps};? ST", construct=f"{CS}::<module>")
    L = rex.compile_pattern(resp["RGB_SPEC_re"], re.ASCII)
    E = rex.compile_pattern("\x1b\\]\\d+;rgb:[0-9a-fA-F/]+(\x1b\\\\|\x07)", re.ASCII)
    w, st = rex.decide([L, E], lambda b: b[0] != b[1], limit=3)
    ck.ob("R2", None, not w, f"RGB_SPEC_re must match exactly `OSC Ps ; rgb:<hex and /> (ST | BEL)`; differs on {w!r} (e.g. a BEL-terminated reply is no longer recognised)", stmt="L(RGB_SPEC_re) == OSC Ps;rgb:... (ST|BEL)", construct=f"{CS}::Response")
    L = rex.compile_pattern(resp["XTVERSION_re"], re.ASCII)
    E = rex.compile_pattern("\x1bP>\\|\\w+[( ][^)\x1b]+\\)?(\x1b\\\\|\x07)", re.ASCII)
    w, _ = rex.decide([L, E], lambda b: b[0] != b[1], limit=3)
    ck.ob("R2", None, not w, f"XTVERSION_re must match exactly `DCS > | name ( version ) (ST | BEL)`; differs on {w!r}", stmt="L(XTVERSION_re) == DCS>|name(version)(ST|BEL)", construct=f"{CS}::Response")
    g_rgb, n_rgb = rex.group_subpatterns(resp["RGB_SPEC_re"], re.ASCII)
    ck.ob("R2", None, n_rgb == 2, f"RGB_SPEC_re must have exactly 2 groups (Ps, spec) - get_fg_bg_colors unpacks findall() into (c, spec); found {n_rgb}", stmt="RGB_SPEC_re: 2 groups", construct=f"{CS}::Response")
    for nm_, flags_stmt in (("re.compile(regex, re.ASCII)", None),):
        src = norm(m.get(CS, "Response"))
        ck.ob("R2", m.get(CS, "Response"), nm_ in src, "response patterns must be compiled with re.ASCII", stmt="Response: compiled with re.ASCII")
    fg = m.variants(U, "get_fg_bg_colors")[-1]
    disp = {}
    # (the reply-code variable: first element of the loop target over RGB_SPEC_re.findall(...))
    lp_ = next((n for n in body_walk(fg) if isinstance(n, ast.For) and "RGB_SPEC_re.findall" in norm(n.iter) and isinstance(n.target, ast.Tuple) and n.target.elts and isinstance(n.target.elts[0], ast.Name)), None)
    cv_ = lp_.target.elts[0].id if lp_ is not None else "c"
    for n in body_walk(fg):
        if isinstance(n, ast.If) and isinstance(n.test, ast.Compare) and norm(n.test.left) == cv_ and isinstance(n.test.comparators[0], ast.Constant):
            tgt = next((norm(t) for s in n.body for t, _ in stores_in(s)), None)
            disp[n.test.comparators[0].value] = tgt
    ck.ob("R2", fg, disp == {"10": "fg", "11": "bg"}, f"colour replies must be dispatched 10 -> fg, 11 -> bg; found {disp}", stmt="get_fg_bg_colors: 10->fg, 11->bg")
    parts = None
    for rel, q, fn, c in sites:
        if fn.name == "get_fg_bg_colors":
            parts = [(dotted(p) or "?").split(".")[-1] for p in _concat(expand(fn, c.args[0]))]
    ck.ob("R2", fg, parts == ["TEXT_FG_QUERY_b", "TEXT_BG_QUERY_b", "DA1_b"], f"get_fg_bg_colors must request FG then BG then DA1; found {parts}", stmt="get_fg_bg_colors: request table")
    gcs = m.get(U, "get_cell_size")
    branches = {}
    for n in body_walk(gcs):
        if isinstance(n, ast.NamedExpr) and isinstance(n.value, ast.Call) and norm(n.value.func).endswith("_re.match"):
            iff = n._p
            while iff is not None and not isinstance(iff, ast.If):
                iff = iff._p
            branches[norm(n.value.func).split(".")[-2]] = (iff, norm(n.target))
    ck.expect(set(branches) == {"CELL_SIZE_PX_re", "TEXT_AREA_SIZE_PX_re"}, f"get_cell_size: reply-pattern branches recognised: {sorted(branches)}")
    want = {"CELL_SIZE_PX_re": "cell_size", "TEXT_AREA_SIZE_PX_re": "text_area_size"}
    # a local that is later copied into cell_size / text_area_size (`cell_size = <local>`) stands for it
    alias = {}
    for n in body_walk(gcs):
        if isinstance(n, ast.Assign) and len(n.targets) == 1 and isinstance(n.targets[0], ast.Name) and n.targets[0].id in ("cell_size", "text_area_size") and isinstance(n.value, ast.Name) \
                and n.value.id not in ("cell_size", "text_area_size"):
            alias[n.value.id] = n.targets[0].id
    for pat_, (iff, mv) in branches.items():
        stored = [st for s_ in iff.body for t, st in stores_in(s_) if isinstance(t, ast.Name) and (t.id in ("cell_size", "text_area_size") or t.id in alias) and isinstance(st, ast.Assign)]
        # only what is derived from the matched reply counts (resetting the other variable to its "not obtained" constant is not a use of the reply)
        stored = [st for st in stored if any(isinstance(x, ast.Name) and x.id in (mv, "cell_size", "text_area_size") for x in ast.walk(trace(gcs, st.value))) and norm(st.value) != norm(st.targets[0])]
        tgt = {alias.get(norm(t), norm(t)) for st in stored for t in st.targets}
        ck.ob("R2", iff, tgt == {want[pat_]}, f"the reply matched by {pat_} must feed `{want[pat_]}`; the branch stores {sorted(tgt)}", stmt=f"get_cell_size: {pat_} -> {want[pat_]}")
        # (height, width) -> (width, height): reversed exactly once
        verdict = None
        first = next((st for st in stored if alias.get(norm(st.targets[0]), norm(st.targets[0])) == want[pat_]), None)
        if first is not None:
            v = first.value
            if match_expr(f"tuple(map(int, {mv}.groups()))[::-1]", v) is not None:
                verdict = True
            elif match_expr(f"tuple(map(int, {mv}.groups()))", v) is not None:
                verdict = False
            elif isinstance(v, ast.Tuple) and len(v.elts) == 2 and all(isinstance(e, ast.Name) for e in v.elts):
                un = next((st for s_ in iff.body for st in walk_local(s_) if isinstance(st, ast.Assign) and isinstance(st.targets[0], ast.Tuple) and len(st.targets[0].elts) == 2
                           and f"{mv}.groups()" in norm(st.value) and st.lineno < first.lineno), None)
                if un is not None:
                    a_, b_ = [norm(e) for e in un.targets[0].elts]
                    verdict = [norm(e) for e in v.elts] == [b_, a_] if [norm(e) for e in v.elts] in ([a_, b_], [b_, a_]) else None
        ck.expect(verdict is not None, f"get_cell_size: how the {pat_} reply is turned into {want[pat_]} is not in a recognised form")
        if verdict is not None:
            ck.ob("R2", first, verdict, f"XTWINOPS reports (height, width): the groups of the {pat_} reply must be reversed exactly once to give (width, height)", stmt=f"get_cell_size: {pat_} groups reversed once")
    # window-size swap covers every source of text_area_size
    g = CFG(gcs)
    swap_tests = [n for n in g.nodes if n.kind == "test" and norm(n.ast) == "_swap_win_size"]
    uses = [n for n in g.nodes if n.kind == "stmt" and isinstance(n.ast, ast.Assign) and norm(n.ast.targets[0]) == "cell_size" and "floordiv" in norm(n.ast.value)]
    ck.expect(len(swap_tests) >= 1 and len(uses) == 1, "get_cell_size: swap test / cell-size computation not recognised")
    if swap_tests and len(uses) == 1:
        def is_const(v):
            return all(isinstance(x, (ast.Constant, ast.Tuple, ast.List, ast.Load)) for x in ast.walk(v))
        defs = [n for n in g.nodes if n.kind == "stmt" and isinstance(n.ast, ast.Assign) and any(norm(t) == "text_area_size" for t in n.ast.targets)]
        # sources = stores that do not derive the new value from text_area_size itself (swap, Termux scaling) and are not the constant initialiser
        srcdefs = [d for d in defs if not is_const(d.ast.value) and not any(isinstance(x, ast.Name) and x.id == "text_area_size" for x in ast.walk(d.ast.value))]
        ck.expect(len(srcdefs) >= 2, "get_cell_size: the two sources of text_area_size (ioctl, XTWINOPS) not recognised")
        for d in srcdefs:
            p = g.search([d], lambda n: n in uses, avoid=lambda n: n in swap_tests, edge_ok=lambda s, lab, x: not lab.startswith(("e:", "p:")))
            ck.ob("R2", d.ast, p is None, f"the text-area size obtained here reaches the cell-size computation without passing the `_swap_win_size` swap ({fmt_path(p) if p else ''}): "
                  "with enable_win_size_swap() the dimensions from this source stay unswapped", stmt=f"get_cell_size: swap applies to `{short(d.ast, 60)}`")

    # ---- R3 ----------------------------------------------------------------------------
    xp = m.get(CS, "x_parse_color")
    comps = [n for n in body_walk(xp) if isinstance(n, (ast.ListComp, ast.GeneratorExp))]
    ck.need(len(comps) == 1, "x_parse_color: the comprehension over components not found")
    var = norm(comps[0].generators[0].target)
    outside = {n.id for n in ast.walk(comps[0].elt) if isinstance(n, ast.Name)} - {var, "int", "len", "min", "max", "round"}
    lens = [norm(c.args[0]) for c in ast.walk(comps[0].elt) if isinstance(c, ast.Call) and call_name(c) == "len"]
    ck.ob("R3", comps[0], not outside and lens and all(x == var for x in lens),
          f"the scale applied to a colour component must be computed from that component's own width inside the comprehension; it uses {sorted(outside) or lens}: with mixed-width components "
          "(rgb:f/ffff/f) a value exceeds 255", stmt="x_parse_color: per-component scale")
    e_ = comps[0].elt
    # value * 255 // (16**digits - 1): numerator as a polynomial over the opaque atom int(<component>, 16); denominator evaluated for 1..4 digits
    okf = False
    if isinstance(e_, ast.BinOp) and isinstance(e_.op, ast.FloorDiv):
        from tiv import affine as _af
        from tiv.absdom import EvUnk as _EvUnk, ev as _aev
        try:
            num_ok = _af.equal(e_.left, ast.parse(f"255 * int({var}, 16)", mode="eval").body)
            den = ast.parse(norm(e_.right).replace(f"len({var})", "DIGITS"), mode="eval").body
            okf = num_ok and all(_aev(den, {"DIGITS": d_}) == 16 ** d_ - 1 for d_ in (1, 2, 3, 4))
        except (_af.NotPoly, _EvUnk, SyntaxError):
            okf = False
    ck.ob("R3", comps[0], okf, "component must be scaled as value*255 // (16**digits - 1)", stmt="x_parse_color: scale formula")

    # ---- R4 ----------------------------------------------------------------------------
    # with queries disabled the terminal is never touched (every termios/tty call runs under `_queries_enabled`) and None is returned
    from tiv.sem import specialize as _spec
    touch = [c for c in body_walk(qt) if isinstance(c, ast.Call) and ((call_name(c) or "").startswith("termios.") or (call_name(c) or "") in ("write_tty", "read_tty", "os.write", "os.read"))]
    ck.expect(len(touch) >= 4, f"query_terminal: expected >= 4 terminal-touching calls, found {len(touch)}")
    unguarded = [c for c in touch if "_queries_enabled" not in conds(c)]
    rets_dis = [r for r in body_walk(qt) if isinstance(r, ast.Return) and "_queries_enabled" not in conds(r)]
    val_ok = bool(rets_dis) and all(r.value is None or norm(_spec(trace(qt, r.value), {"_queries_enabled": False})) == "None" for r in rets_dis)
    ck.ob("R4", enclosing_stmt(unguarded[0]) if unguarded else qt, not unguarded and val_ok,
          "query_terminal must return None when queries are disabled, before touching the terminal" + (f" (`{short(unguarded[0], 50)}` runs regardless)" if unguarded else ""), stmt="query_terminal: disabled -> None first")
    for rel, q, fn, c in sites:
        st = enclosing_stmt(c)
        var = norm(st.targets[0]) if isinstance(st, ast.Assign) else None
        ck.expect(var is not None, f"{q}: the response is not bound to a variable")
        if var is None:
            continue
        for u in body_walk(fn):
            if isinstance(u, ast.Name) and u.id == var and isinstance(u.ctx, ast.Load) and u.lineno > c.lineno:
                par = u._p
                is_test = (isinstance(par, (ast.If, ast.IfExp)) and par.test is u) or (isinstance(par, ast.BoolOp) and par.values[0] is u) or (isinstance(par, ast.UnaryOp))
                guarded = var in conds(u)        # literal set: `if response:`, `if not response: ... else:`, guard clauses, conjunctions
                ck.ob("R4", enclosing_stmt(u), is_test or guarded, f"{q}: `{var}` is used without checking that a response was received (None when queries are disabled, empty on timeout)", stmt=f"{q}: {short(enclosing_stmt(u), 60)} guards the response")
    sq = m.get(I, "set_query_timeout")
    ck.ob("R4", sq, any(isinstance(s, ast.If) and norm(s.test) == "timeout <= 0.0" and isinstance(s.body[0], ast.Raise) for s in sq.body), "set_query_timeout must reject a non-positive timeout", stmt="set_query_timeout rejects <= 0")

    # ---- R6 ----------------------------------------------------------------------------
    # roles, not names: d = elapsed-time variable (`d = monotonic() - s`), s = clock start, buf = the argument of more()
    upd_all = [(s_, b_) for s_ in body_walk(rt) for b_ in [match_stmt("$$d = monotonic() - $$s", s_)] if b_ is not None]
    more_calls = [c for c in body_walk(rt) if isinstance(c, ast.Call) and call_name(c) == "more"]
    ck.expect(bool(upd_all) and len({norm(b_["d"]) for _, b_ in upd_all}) == 1 and len(more_calls) == 1 and len(more_calls[0].args) == 1 and isinstance(more_calls[0].args[0], ast.Name),
              "read_tty: elapsed-time variable / more(<buffer>) call not recognised")
    if upd_all and len(more_calls) == 1 and isinstance(more_calls[0].args[0], ast.Name) and len({norm(b_["d"]) for _, b_ in upd_all}) == 1:
        dv, sv, buf = norm(upd_all[0][1]["d"]), norm(upd_all[0][1]["s"]), more_calls[0].args[0].id
        timed = more_calls[0]
        while timed is not None and not isinstance(timed, ast.While):
            timed = getattr(timed, "_p", None)
        ck.expect(timed is not None, "read_tty: more() is not called from a loop")
        if timed is not None:
            # continuation condition = loop test AND the negation of every leading `if X: break`
            conds_ = [] if (isinstance(timed.test, ast.Constant) and timed.test.value is True) else [timed.test]
            k = 0
            for s_ in timed.body:
                if isinstance(s_, ast.If) and not s_.orelse and len(s_.body) == 1 and isinstance(s_.body[0], ast.Break):
                    conds_.append(ast.UnaryOp(op=ast.Not(), operand=s_.test))
                    k += 1
                else:
                    break
            rest = timed.body[k:]
            cont = conds_[0] if len(conds_) == 1 else ast.BoolOp(op=ast.And(), values=conds_) if conds_ else ast.Constant(value=True)
            ck.ob("R6", timed, same_bool(rt, cont, f"(timeout < 0 or {dv} < timeout) and more({buf})"),
                  f"the timed loop must run while (timeout < 0 or {dv} < timeout) and more({buf}); found `{short(cont, 120)}`", stmt="read_tty: loop condition bounds the wait")
            sel = [c for c in walk_local(timed) if isinstance(c, ast.Call) and call_name(c) == "select"]
            ck.ob("R6", timed, len(sel) == 1 and len(sel[0].args) == 4 and same(rt, sel[0].args[3], f"None if timeout < 0 else timeout - {dv}"),
                  f"select() must wait at most the remaining time `timeout - {dv}` (None only for an infinite timeout); found `{norm(expand(rt, sel[0].args[3])) if sel and len(sel[0].args) == 4 else None}`", stmt="read_tty: select waits the remaining time only")
            ck.ob("R6", timed, bool(rest) and match_stmt(f"{dv} = monotonic() - {sv}", rest[-1]) is not None, "the elapsed time must be recomputed at the end of every iteration", stmt="read_tty: duration recomputed per iteration")
            # ... on every way round the loop: from each select() no path returns to the loop test without passing the recomputation (a `continue` on a
            # timed-out select would re-enter select with the stale elapsed time, for ever)
            from tiv.cfg import CFG as _CFG6, fmt_path as _fmt6
            g6 = _CFG6(rt)
            upd6 = [n_ for n_ in g6.nodes if n_.kind == "stmt" and n_.ast is not None and match_stmt(f"{dv} = monotonic() - {sv}", n_.ast) is not None]
            head6 = [n_ for n_ in g6.nodes if n_.kind == "test" and (n_.ast is timed.test or n_.ast is timed)]
            for c6 in sel:
                s6 = g6.nodes_of(enclosing_stmt(c6)) or g6.nodes_of(c6)
                p6 = g6.search(s6, lambda n_: n_ in head6, avoid=lambda n_: n_ in upd6, edge_ok=lambda a_, lab, d_: not lab.startswith(("e:", "p:"))) if head6 and s6 else None
                ck.ob("R6", enclosing_stmt(c6), p6 is None, f"after this select() the loop can come round again without recomputing the elapsed time ({_fmt6(p6) if p6 else ''}): the next wait uses a stale "
                      "remaining time, and a read that must end by timeout never ends", stmt="read_tty: elapsed time recomputed on every way round the loop")
            ck.ob("R6", timed, any(isinstance(c, ast.Call) and norm(c) == "os.read(_tty_fd, 1)" for c in walk_local(timed)), "the timed loop reads byte-wise so that the stop predicate sees every byte", stmt="read_tty: byte-wise reads in the timed loop")
            psel = [c for c in body_walk(rt) if isinstance(c, ast.Call) and call_name(c) == "select" and any(norm(t) == "timeout is None" and b_ for t, b_ in guards(c))]
            ck.expect(bool(psel), "read_tty: no select() under `timeout is None` (non-blocking mode) recognised")
            for c in psel:
                ck.ob("R6", enclosing_stmt(c), len(c.args) == 4 and same(rt, c.args[3], "0.0"), "the non-blocking mode must poll with a zero select timeout", stmt="read_tty: non-blocking poll")
            st0 = [s_ for s_ in body_walk(rt) if match_stmt(f"{sv} = monotonic()", s_) is not None]
            ck.ob("R6", rt, len(st0) == 1 and st0[0].lineno < timed.lineno, "the clock must start before the first wait", stmt="read_tty: start = monotonic() before waiting")

            attr_vars = tuple(norm(t) for t, st_ in stores_in(ast.Module(body=rt.body, type_ignores=[])) if isinstance(st_, ast.Assign) and isinstance(t, ast.Name) and norm(st_.value).startswith("termios.tcgetattr("))

            def tgt_text(t):
                return f"{norm(trace(rt, t.value, keep=attr_vars))}[{norm(t.slice)}]" if isinstance(t, ast.Subscript) else norm(t)
            vm = [s_ for s_ in body_walk(rt) if isinstance(s_, ast.Assign) and any(tgt_text(s_.targets[0]) == f"{v_}[6][termios.VMIN]" for v_ in attr_vars)]
            ck.ob("R6", rt, len(vm) == 2 and same(rt, vm[0].value, "0 if timeout is None else min") and same(rt, vm[1].value, "0") and any(norm(t) == "min > 0" and b_ for t, b_ in guards(vm[1])),
                  "VMIN must be `min` only for the initial blocking read and 0 afterwards (a later read must never block on a byte count)", stmt="read_tty: VMIN reset after the min-read")

    # ---- R5 ----------------------------------------------------------------------------
    st_ = next((s for s in m.tree(IM).body if isinstance(s, ast.Assign) and norm(s.targets[0]) == "_styles"), None)
    ck.need(st_ is not None and isinstance(st_.value, ast.Tuple), "_styles tuple not found")
    styles = [norm(e) for e in st_.value.elts]
    concrete = sorted(c.name for rel, c in m.subclasses("BaseImage") if c.name not in ("GraphicsImage", "TextImage"))
    ck.ob("R5", st_, sorted(styles) == concrete and len(set(styles)) == len(styles), f"_styles {styles} must list every concrete render style {concrete} exactly once", stmt="_styles lists every concrete style once")
    ck.ob("R5", st_, styles == ["KittyImage", "ITerm2Image", "BlockImage"], f"automatic selection must prefer kitty, then iterm2, then block; found {styles}", stmt="_styles preference order")
    text_based = {c.name for rel, c in m.subclasses("TextImage")}
    ck.ob("R5", st_, styles[-1] in text_based and not (set(styles[:-1]) & text_based), "the text-based style must be the last resort", stmt="_styles: text-based last")
    ac = m.get(IM, "auto_image_class")
    loop = next((s for s in ac.body if isinstance(s, ast.For)), None)
    lv_ = norm(loop.target) if loop is not None else "?"
    ok = loop is not None and norm(loop.iter) == "_styles" and len(loop.body) == 1 and isinstance(loop.body[0], ast.If) and norm(loop.body[0].test) == f"{lv_}.is_supported()" \
        and len(loop.body[0].body) == 1 and not loop.body[0].orelse and (isinstance(loop.body[0].body[0], ast.Break) or (isinstance(loop.body[0].body[0], ast.Return) and norm(loop.body[0].body[0].value) == lv_)) \
        and not loop.orelse and isinstance(ac.body[-1], ast.Return) and norm(ac.body[-1].value) == lv_
    # second accepted idiom: `*preferred, fallback = _styles`; `for c in preferred: if c.is_supported(): return c`; `[fallback.is_supported()]`; `return fallback`
    okB = False
    un_ = next((s_ for s_ in ac.body if isinstance(s_, ast.Assign) and len(s_.targets) == 1 and isinstance(s_.targets[0], ast.Tuple) and len(s_.targets[0].elts) == 2
                and isinstance(s_.targets[0].elts[0], ast.Starred) and isinstance(s_.targets[0].elts[1], ast.Name) and norm(s_.value) == "_styles"), None)
    if un_ is not None and loop is not None:
        pref_, fb_ = norm(un_.targets[0].elts[0].value), un_.targets[0].elts[1].id
        okB = norm(loop.iter) == pref_ and len(loop.body) == 1 and isinstance(loop.body[0], ast.If) and norm(loop.body[0].test) == f"{lv_}.is_supported()" and not loop.body[0].orelse \
            and len(loop.body[0].body) == 1 and isinstance(loop.body[0].body[0], ast.Return) and norm(loop.body[0].body[0].value) == lv_ and not loop.orelse \
            and isinstance(ac.body[-1], ast.Return) and norm(ac.body[-1].value) == fb_ \
            and all(norm(s_) == f"{fb_}.is_supported()" for s_ in ac.body[ac.body.index(loop) + 1:-1])
    # third accepted idiom: `return next((c for c in _styles if c.is_supported()), _styles[-1])`
    okC = False
    r_ = ac.body[-1] if ac.body and isinstance(ac.body[-1], ast.Return) else None
    v_ = trace(ac, r_.value, use=r_) if r_ is not None and r_.value is not None else None
    if isinstance(v_, ast.Call) and isinstance(v_.func, ast.Name) and v_.func.id == "next" and len(v_.args) == 2 and isinstance(v_.args[0], ast.GeneratorExp):
        ge_ = v_.args[0]
        g0 = ge_.generators[0] if len(ge_.generators) == 1 else None
        okC = g0 is not None and norm(g0.iter) == "_styles" and isinstance(g0.target, ast.Name) and norm(ge_.elt) == g0.target.id \
            and [norm(i_) for i_ in g0.ifs] == [f"{g0.target.id}.is_supported()"] and norm(v_.args[1]) == "_styles[-1]" and loop is None
    ck.ob("R5", ac, ok or okB or okC, "auto_image_class must return the first class of _styles whose is_supported() is true, else the last one", stmt="auto_image_class: first supported else last")
    ks = m.get(KT, "KittyImage.is_supported")
    isup = m.get(IT, "ITerm2Image.is_supported")

    def conj_operands(fn):
        out = set()
        for n in body_walk(fn):
            if isinstance(n, (ast.If, ast.IfExp)):
                for v in flatten_boolop(n.test, ast.And):
                    out.add(norm(v))
            if isinstance(n, ast.BoolOp) and isinstance(n.op, ast.And):
                for v in n.values:
                    out.add(norm(v))
        return out

    def version_bounds(fn):
        out = []
        for n in body_walk(fn):
            if isinstance(n, ast.Compare) and len(n.ops) == 1 and isinstance(n.comparators[0], ast.Tuple) and all(isinstance(e, ast.Constant) for e in n.comparators[0].elts):
                out.append((type(n.ops[0]).__name__, tuple(e.value for e in n.comparators[0].elts)))
        return out
    # the situations in which a style declares itself supported: the conjuncts (guards traced to where their values come from, in
    # negation normal form) under which `cls._supported = True` is stored
    from tiv.sem import tconds
    NAME, VER = "get_terminal_name_version()[0]", "get_terminal_name_version()[1]"

    def support_stores(fn):
        return [st for t, st in stores_in(ast.Module(body=fn.body, type_ignores=[])) if norm(t) == "cls._supported" and norm(st.value) == "True"]
    kst = support_stores(ks)
    ck.expect(len(kst) >= 1, "KittyImage.is_supported: no `cls._supported = True` store found")
    kinds = set()
    for st in kst:
        L = tconds(ks, st)
        okr = all(any("KITTY_RESPONSE_re.match(" in l_ and "KITTY_SUPPORT_QUERY_b" in l_ and l_.endswith(suffix) for l_ in L) for suffix in ("['id'] == '31'", "['message'] == 'OK'"))
        ck.ob("R5", st, okr, f"kitty support needs the OK reply (id 31) to the graphics query (KITTY_SUPPORT_QUERY matched by KITTY_RESPONSE_re); conditions found: {sorted(l_[:70] for l_ in L if 'RESPONSE' in l_ or 'response' in l_)}",
              stmt="KittyImage.is_supported: OK reply")
        if f"{NAME} == 'kitty'" in L:
            kinds.add("kitty")
            ck.ob("R5", st, f"tuple(map(int, {VER}.split('.'))) >= (0, 20, 0)" in L and VER in L, f"kitty itself is supported from version 0.20.0 (dotted-integer comparison); conditions found: {sorted(l_[:70] for l_ in L if VER in l_)}",
                  stmt="KittyImage.is_supported: kitty >= 0.20.0")
        elif f"{NAME} == 'konsole'" in L:
            kinds.add("konsole")
        else:
            ck.ob("R5", st, False, f"kitty style declared supported for a terminal that is neither kitty nor konsole; conditions: {sorted(l_[:60] for l_ in L if NAME in l_)}", stmt="KittyImage.is_supported: version rule")
    ck.ob("R5", ks, kinds == {"kitty", "konsole"}, f"kitty style is supported on kitty >= 0.20.0 or on konsole; found for {sorted(kinds)}", stmt="KittyImage.is_supported: version rule")
    ck.ob("R5", ks, env.get("KITTY_SUPPORT_QUERY", "").startswith("\x1b_Ga=q,") and "i=31" in env.get("KITTY_SUPPORT_QUERY", ""), "the support query must be an a=q command with id 31", stmt="KITTY_SUPPORT_QUERY: a=q, i=31")
    ist = support_stores(isup)
    ck.expect(len(ist) >= 1, "ITerm2Image.is_supported: no `cls._supported = True` store found")
    from tiv.absdom import EvUnk, ev as _aev
    import itertools as _it
    VCHK = f"tuple(map(int, {VER}.split('.'))) >= (22, 4, 0)"
    for st in ist:
        # the whole situation (every traced conjunct except the memo test) as a predicate over (terminal name, version new enough,
        # version parse failed), compared with: iterm2 or wezterm, or konsole with a parseable version >= 22.4.0
        L = sorted(l_ for l_ in tconds(isup, st) if not l_.startswith("cls._supported is"))
        src = " and ".join(f"({l_})" for l_ in L).replace(VCHK, "V").replace("__raised__(ValueError)", "R").replace(NAME, "N")
        verdict, wit = None, None
        try:
            e_ = ast.parse(src, mode="eval").body
            uses_r = any(isinstance(n_, ast.Name) and n_.id == "R" for n_ in ast.walk(e_))
            verdict = True
            for N_, V_, R_ in _it.product(("iterm2", "wezterm", "konsole", "xterm"), (True, False), ((True, False) if uses_r else (False,))):
                got = bool(_aev(e_, {"N": N_, "V": V_, "R": R_}))
                want_ = N_ in ("iterm2", "wezterm") or (N_ == "konsole" and V_ and not R_)
                if got != want_ and wit is None:
                    verdict, wit = False, (N_, V_, R_, got)
        except (EvUnk, SyntaxError) as ex:
            # the version test is not the canonical tuple comparison: decide it on concrete konsole versions instead (the parsed version, under any of
            # the spellings below, is a tuple of integers; tuples compare as Python compares them)
            verdict = None
            src2 = " and ".join(f"({l_})" for l_ in L).replace("__raised__(ValueError)", "R").replace(NAME, "N")
            base_ = f"{VER}.split('.')"
            try:
                e2 = ast.parse(src2, mode="eval").body
                uses_r = any(isinstance(n_, ast.Name) and n_.id == "R" for n_ in ast.walk(e2))
                verdict = True
                for N_, v_, R_ in _it.product(("iterm2", "wezterm", "konsole", "xterm"), ((21, 12, 3), (22, 3, 9), (22, 4, 0), (22, 12, 1), (23, 8, 0), (24, 2, 1), (25, 3, 0)),
                                              ((True, False) if uses_r else (False,))):
                    envv = {"N": N_, "R": R_, f"map(int, {base_})": v_, f"tuple(map(int, {base_}))": v_, f"map(int, {base_}[:2])": v_[:2], f"tuple(map(int, {base_}[:2]))": v_[:2],
                            f"map(int, {base_}[:3])": v_, f"tuple(map(int, {base_}[:3]))": v_, f"list(map(int, {base_}))": v_}
                    got = bool(_aev(e2, envv))
                    want_ = N_ in ("iterm2", "wezterm") or (N_ == "konsole" and v_ >= (22, 4, 0) and not R_)
                    if got != want_ and wit is None:
                        verdict, wit = False, (N_, "konsole version " + ".".join(map(str, v_)), R_, got)
            except (EvUnk, SyntaxError) as ex2:
                verdict = None
                ck.expect(False, f"ITerm2Image.is_supported: support condition `{src[:120]}` not evaluable ({ex2})")
        if verdict is not None:
            ck.ob("R5", st, verdict, "iterm2 style is supported on iterm2, wezterm, or konsole >= 22.4.0; the condition found"
                  + (f" gives {wit[3]} for terminal={wit[0]}, version new enough={wit[1]}, parse failed={wit[2]}" if wit else " agrees"), stmt="ITerm2Image.is_supported: rule")
    parses = [c for c in body_walk(isup) if isinstance(c, ast.Call) and ((call_name(c) or "") == "int" or ((call_name(c) or "") == "map" and c.args and norm(c.args[0]) == "int")) and "version" in norm(c)]
    ck.expect(len(parses) >= 1, "ITerm2Image.is_supported: the dotted-integer version parse not found")
    from tiv.sem import econds as _econds
    for c in parses:
        cds = _econds(isup, c)
        ck.ob("R5", enclosing_stmt(c), bool({"name == 'konsole'", "not name != 'konsole'"} & cds),
              f"the dotted-integer version parse `{short(c, 50)}` runs for terminals other than konsole (conditions: {sorted(cds)[:4]}): iTerm2 betas and WezTerm (date-hash versions) raise ValueError there "
              "and are then reported as unsupported", stmt="ITerm2Image.is_supported: version parsed only for konsole")
    # the terminal name every support test compares with lower-case literals is lower-cased on EVERY return path of its source
    # (the XTVERSION reply and the TERM_PROGRAM fallback alike: WezTerm exports `TERM_PROGRAM=WezTerm`)
    gtnv = m.variants(U, "get_terminal_name_version")[-1]
    nrets = [r for r in body_walk(gtnv) if isinstance(r, ast.Return) and isinstance(r.value, ast.Tuple) and len(r.value.elts) == 2]
    ck.expect(len(nrets) >= 1, "get_terminal_name_version: `return (name, version)` not recognised")
    for r in nrets:
        e0 = r.value.elts[0]
        lowered = (isinstance(e0, ast.Constant) and e0.value is None) or (isinstance(e0, ast.Call) and isinstance(e0.func, ast.Attribute) and e0.func.attr == "lower") \
            or (isinstance(e0, ast.BoolOp) and isinstance(e0.op, ast.And) and isinstance(e0.values[-1], ast.Call) and isinstance(e0.values[-1].func, ast.Attribute) and e0.values[-1].func.attr == "lower") \
            or (isinstance(e0, ast.Name) and any(isinstance(c_, ast.Call) and isinstance(c_.func, ast.Attribute) and c_.func.attr == "lower" for c_ in ast.walk(trace(gtnv, e0))))
        ck.ob("R5", r, lowered, f"get_terminal_name_version returns the name as `{short(e0, 50)}` on this path: it must be lower-cased on every path (the style support tests compare with 'kitty', 'konsole', 'wezterm', 'iterm2')",
              stmt="get_terminal_name_version: name lower-cased on every return")
    # what the terminal replied takes precedence: the environment (TERM_PROGRAM...) is only read into the result where the reply did not match
    # (an inherited / forwarded TERM_PROGRAM names another terminal than the one that answers XTVERSION)
    from tiv.sem import tconds as _tconds5
    def _is_env(x):
        return (isinstance(x, ast.Attribute) and norm(x) in ("os.environ", "environ")) or (isinstance(x, ast.Call) and (call_name(x) or "").split(".")[-1] == "getenv") \
            or (isinstance(x, ast.Name) and x.id == "environ")
    def _env_sel(e, acc):
        """[(conditions under which this sub-expression is what gets selected)] for every environment read inside e"""
        if isinstance(e, ast.IfExp):
            return _env_sel(e.test, acc) + _env_sel(e.body, acc + [norm(e.test)]) + _env_sel(e.orelse, acc + ["not " + norm(e.test)])
        if isinstance(e, ast.BoolOp):
            out = []
            for i_, v_ in enumerate(e.values):
                pre = [("not " if isinstance(e.op, ast.Or) else "") + norm(u_) for u_ in e.values[:i_]]
                out += _env_sel(v_, acc + pre)
            return out
        if _is_env(e):
            return [acc]
        out = []
        for ch_ in ast.iter_child_nodes(e):
            out += _env_sel(ch_, acc)
        return out
    n_env = 0
    for r in nrets:
        tv = trace(gtnv, r.value, use=r)
        ctl = _tconds5(gtnv, r)
        for sel in _env_sel(tv, []):
            n_env += 1
            allc = list(sel) + sorted(ctl)
            no_reply = any(c_.startswith("not ") and "XTVERSION_re" in c_ for c_ in allc)
            ck.ob("R5", r, no_reply, "get_terminal_name_version takes the terminal's identity from the environment on a path where the XTVERSION reply was not (yet) found wanting "
                  f"(conditions: {[c_[:60] for c_ in allc][:4]}): the environment is only the fallback for a missing reply - an inherited or forwarded TERM_PROGRAM otherwise overrides what the terminal itself answers",
                  stmt="get_terminal_name_version: environment read only where the reply did not match")
    ck.expect(n_env >= 1, "get_terminal_name_version: the TERM_PROGRAM fallback not found in the returned value")
    for fn_, nm in ((ks, "KittyImage"), (isup, "ITerm2Image")):
        ini = next((st for t, st in stores_in(ast.Module(body=fn_.body, type_ignores=[])) if norm(t) == "cls._supported" and norm(st.value) == "False"), None)
        ck.ob("R5", fn_, ini is not None, f"{nm}.is_supported must default to not supported when there is no (valid) reply", stmt=f"{nm}.is_supported: defaults to False")

    for fn_q in (fg, m.get(U, "get_terminal_name_version") if m.find(U, "get_terminal_name_version") else None, gcs):
        if fn_q is None:
            continue
        for c in body_walk(fn_q):
            if isinstance(c, ast.Call) and isinstance(c.func, ast.Attribute) and c.func.attr in ("match", "findall", "search", "fullmatch", "finditer") and norm(c.func.value).endswith("_re") and c.args:
                t_ = trace(fn_q, c.args[0])
                qnames = {t2.id for t2, st2 in stores_in(ast.Module(body=fn_q.body, type_ignores=[])) if isinstance(t2, ast.Name) and isinstance(st2, ast.Assign) and isinstance(st2.value, ast.Call)
                          and (call_name(st2.value) or "") == "query_terminal"}
                base = next((x for x in ast.walk(t_) if isinstance(x, ast.Subscript) and isinstance(x.slice, ast.Slice) and ("query_terminal(" in norm(x.value) or norm(x.value) in qnames)), None)
                if base is not None:
                    ck.ob("R2", enclosing_stmt(c), False, f"{fn_q.name}: the reply is cut (`{norm(base)[-60:]}`) before it is parsed: when the read ended for another reason than the expected suffix (timeout, "
                          "unsupported DA1) the cut removes the terminator of the last real reply and the pattern no longer matches", stmt=f"{fn_q.name}: reply parsed as returned by query_terminal")
    # ---- shared with C15.R2: nothing about the terminal is remembered between queries except through the memos enable_queries() invalidates
    from tiv.report import borrow
    import rules.c15 as c15
    borrow(ck, c15, m, "R4", lambda c: c.startswith("utils.py::"), rids={"R2"}, min_kept=3)


MUTANTS = [
    M("drop-da1", U, "get_cell_size", "ctlseqs.CELL_SIZE_PX_b + ctlseqs.TEXT_AREA_SIZE_PX_b + ctlseqs.DA1_b", "ctlseqs.CELL_SIZE_PX_b + ctlseqs.TEXT_AREA_SIZE_PX_b", {"R1"}),
    M("colour-stops-at-c", U, "get_fg_bg_colors#3", "            lambda s: not s.endswith(ctlseqs.CSI_b),", "            lambda s: not s.endswith(b\"c\"),", {"R1"}),
    M("delete-drain", U, "get_terminal_name_version", "        if _queries_enabled:\n            read_tty()  # The rest of the response to DA1\n", "", {"R1"}),
    M("drain-outside-lock", U, "get_fg_bg_colors#3", "        if _queries_enabled:\n            read_tty()  # The rest of the response to DA1\n", "    if _queries_enabled:\n        read_tty()  # The rest of the response to DA1\n", {"R1"}),
    M("read-tty-flushes", U, "read_tty", "        r, w, x = [_tty_fd], [], []\n        termios.tcsetattr(_tty_fd, termios.TCSANOW, new_attr)", "        r, w, x = [_tty_fd], [], []\n        termios.tcsetattr(_tty_fd, termios.TCSAFLUSH, new_attr)", {"R1"}),
    M("swap-4-6", CS, None, "    TEXT_AREA_SIZE_PX_re = XTWINOPS % 4\n    CELL_SIZE_PX_re = XTWINOPS % 6\n", "    TEXT_AREA_SIZE_PX_re = XTWINOPS % 6\n    CELL_SIZE_PX_re = XTWINOPS % 4\n", {"R2"}),
    M("ungrouped-terminator", CS, None, 'ST_or_BEL = f"(?:{ST_escaped}|{BEL})"', 'ST_or_BEL = f"{ST_escaped}|{BEL}"', {"R2"}),
    M("no-bel", CS, None, 'ST_or_BEL = f"(?:{ST_escaped}|{BEL})"', 'ST_or_BEL = f"(?:{ST_escaped})"', {"R2"}),
    M("swap-only-ioctl", U, "get_cell_size",
      "                if 0 not in text_area_size:\n                    got_text_area_size = True\n", "                if 0 not in text_area_size:\n                    got_text_area_size = True\n                    if _swap_win_size:\n                        text_area_size = text_area_size[::-1]\n",
      twin=True, note="adds a second swap (double swap on the ioctl path) - behaviour changes, but R2's dominance clause is about coverage; kept to document that double application is not detected"),
    M("no-reverse", U, "get_cell_size", "cell_size = tuple(map(int, match.groups()))[::-1]", "cell_size = tuple(map(int, match.groups()))", {"R2"}),
    M("revert-fix-scale", CS, "x_parse_color",
      "    r, g, b = [\n        int(component, 16) * 255 // ((1 << len(component) * 4) - 1)\n        for component in rgb\n    ]",
      "    scale = (1 << len(rgb[0]) * 4) - 1\n    r, g, b = [int(component, 16) * 255 // scale for component in rgb]", {"R3"}),
    M("query-when-disabled", U, "query_terminal", "    if not _queries_enabled:\n        return None\n", "", {"R4"}),
    M("reorder-styles", IM, None, "_styles = (KittyImage, ITerm2Image, BlockImage)", "_styles = (ITerm2Image, KittyImage, BlockImage)", {"R5"}),
    M("kitty-version", KT, "KittyImage.is_supported", "version_tuple >= (0, 20, 0)", "version_tuple >= (0, 21, 0)", {"R5"}),
    M("select-full-timeout", U, "read_tty", "None if timeout < 0 else timeout - duration", "None if timeout < 0 else timeout", {"R6"}),
    M("duration-not-updated", U, "read_tty", "                    input.extend(os.read(_tty_fd, 1))\n                duration = monotonic() - start\n", "                    input.extend(os.read(_tty_fd, 1))\n", {"R6"}),
    M("name-not-lowered", U, "get_terminal_name_version", "return (name and name.lower(), version)", "return (name, version)", {"R5"}),
    M("env-before-reply", U, "get_terminal_name_version", "    match = response and ctlseqs.XTVERSION_re.match(response.decode())\n", "    match = response and ctlseqs.XTVERSION_re.match(response.decode())\n    if os.environ.get(\"TERM_PROGRAM\"):\n        return (os.environ[\"TERM_PROGRAM\"].lower(), os.environ.get(\"TERM_PROGRAM_VERSION\"))\n", {"R5"}),
    M("memo-key-names-only", U, "cached", "arguments = (args, tuple(kwargs.items()))", "arguments = (args, tuple(sorted(kwargs)))", {"MEMO"}),
    M("continue-skips-clock", U, "read_tty", "                if select(r, w, x, None if timeout < 0 else timeout - duration)[0]:\n                    input.extend(os.read(_tty_fd, 1))\n", "                if not select(r, w, x, None if timeout < 0 else timeout - duration)[0]:\n                    continue\n                input.extend(os.read(_tty_fd, 1))\n", {"R6"}),
    M("twin-lambda-arg", U, "get_cell_size", "more=lambda s: not s.endswith(b\"c\"),", "more=lambda buf: not buf.endswith(b\"c\"),", twin=True),
]
