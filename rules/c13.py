"""C13 - terminal attributes are always put back exactly as found (DESIGN.md 4, C13)."""
from __future__ import annotations

import ast

from tiv.astutil import (ancestors, assigned_targets, body_walk, call_name, dotted, enclosing_func, enclosing_stmt,
                         guards, names_loaded, norm, short, stores_in, try_context, walk_local)
from tiv.cfg import may_raise_sync
from tiv.mutate import M
from tiv.sem import same, literals, tliterals, origin, _bindings as sem_bindings

RULES = {
    "MEMO": "memo safety (shared, rules/common.py): a memoised function in this property's files (or called from them) is a function of its "
            "arguments only (no terminal/ambient/receiver state outside the key) and no caller mutates its result in place",
    "R1": "every termios.tcsetattr whose attribute argument is not a saved original lies inside the body of a "
          "try whose finalbody calls tcsetattr on the same fd with a saved original (restore on every exit kind)",
    "R2": "the saved original is bound exactly once, from its own tcgetattr call, outside/before the protecting "
          "try; it is never stored into, aug-assigned, aliased or passed to anything but the restoring "
          "tcsetattr; the list that is modified is bound from a different tcgetattr call (no alias/shallow copy)",
    "R3": "save, modification and restore are guarded consistently: guards(save) and guards(restore) are "
          "subsets of guards(modify), and the guard variables are assigned once, before the save",
    "R4": "inside the finalbody nothing that may raise precedes the restore (or it is itself protected)",
    "R5": "every function that changes terminal attributes restores them itself (no modify-and-return), so "
          "nested users (query_terminal -> read_tty) restore in LIFO order",
}


def _tc_calls(fn, name):
    return [c for c in body_walk(fn) if isinstance(c, ast.Call) and (call_name(c) or "").split(".")[-1] == name]


def _bindings(fn, var):
    """Statements binding local `var` in fn (own body)."""
    out = []
    for t, st in stores_in(ast.Module(body=fn.body, type_ignores=[])):
        if isinstance(t, ast.Name) and t.id == var and not isinstance(st, ast.Delete):
            out.append(st)
    return out


def _gset(n):
    return {(norm(t), b) for t, b in guards(n)}


def _protecting_helpers(m):
    """{name: (fn, fd_src, yielded name)} for @contextmanager functions of the shape
    save; try: ... yield [x] ... finally: tcsetattr(fd, when, SAVED)."""
    out = {}
    for rel, q, fn in m.functions():
        if not any((dotted(d) or "").split(".")[-1] == "contextmanager" for d in fn.decorator_list):
            continue
        for y in body_walk(fn):
            if not isinstance(y, ast.Yield):
                continue
            for t, part in try_context(y):
                if part != "body":
                    continue
                rs = [c for st in t.finalbody for c in walk_local(st) if isinstance(c, ast.Call) and (call_name(c) or "").split(".")[-1] == "tcsetattr"]
                if rs and rs[0].args:
                    out[fn.name] = (fn, norm(rs[0].args[0]), norm(y.value) if y.value is not None else None)
    return out


def _helper_guard(c, helpers, fd):
    for w in __import__("tiv.astutil", fromlist=["with_context"]).with_context(c):
        for it in w.items:
            if isinstance(it.context_expr, ast.Call):
                nm = (call_name(it.context_expr) or "").split(".")[-1]
                if nm in helpers and helpers[nm][1] == fd:
                    return nm
    return None


def run(ck, m):
    from rules.common import rule_memo_safety
    rule_memo_safety(ck, m, "MEMO", "C13")          # first: a memoised helper also hides the code it wraps from the rules below
    helpers = _protecting_helpers(m)
    sites = []
    for rel, q, fn in m.functions():
        sets = _tc_calls(fn, "tcsetattr")
        if sets:
            sites.append((rel, q, fn, sets))
    ck.need(len(sites) >= 3, f"expected >= 3 functions calling termios.tcsetattr, found {len(sites)}")
    n_modify = n_restore = 0
    for rel, q, fn, sets in sites:
        gets = _tc_calls(fn, "tcgetattr")
        # classify: restore candidates = tcsetattr inside a finalbody
        restores = [c for c in sets if any(part == "finalbody" for _, part in try_context(c))]
        modifies = [c for c in sets if c not in restores]
        n_modify += len(modifies)
        n_restore += len(restores)

        # R5: a function that modifies must restore
        unprotected = [c for c in modifies if not _helper_guard(c, helpers, norm(c.args[0]) if c.args else "?")]
        ck.ob("R5", fn, bool(restores) or not unprotected,
              "function changes terminal attributes but has no restoring tcsetattr in a finally", stmt=f"def {fn.name}")

        # R2: pristine saved originals (alias chains are followed with sem.origin; renames and helper extraction do not matter)
        def _is_get(e):
            return isinstance(e, ast.Call) and (call_name(e) or "").split(".")[-1] == "tcgetattr"
        saved_calls = {}
        for r in restores:
            a3 = r.args[2] if len(r.args) >= 3 else None
            o = origin(fn, a3) if a3 is not None else None
            ck.ob("R2", enclosing_stmt(r), o is not None and _is_get(o),
                  f"the attributes restored by `{short(r, 60)}` must be exactly what termios.tcgetattr() returned on entry; they come from `{short(o, 50) if o is not None else None}`",
                  stmt=f"{fn.name}: restored value originates from tcgetattr()")
            if o is not None and _is_get(o):
                saved_calls[id(o)] = o
                inside = [t for t, part in try_context(o) if part == "body" and any(t2 is t and p2 == "finalbody" for t2, p2 in try_context(r))]
                ck.ob("R2", enclosing_stmt(o), not inside, "the original attributes are read inside the try that restores them; a failure before the read would restore an unbound/stale value",
                      stmt=f"{fn.name}: saved before the protecting try")
        # every local whose value aliases a saved original
        binds, params = sem_bindings(fn)
        aliases = {nm for nm in binds if id(origin(fn, ast.Name(id=nm, ctx=ast.Load()))) in saved_calls}
        for n in body_walk(fn):
            if isinstance(n, (ast.Subscript, ast.Attribute)) and isinstance(n.ctx, (ast.Store, ast.Del)):
                base = n
                while isinstance(base, (ast.Subscript, ast.Attribute)):
                    base = base.value
                if isinstance(base, ast.Name) and base.id in aliases:
                    st = enclosing_stmt(n)
                    ck.ob("R2", st, False, f"`{short(st, 60)}` modifies the saved original attributes (through `{base.id}`): the restore would then install the modified values", stmt=f"{fn.name}: mutation of the saved original")
        for c in modifies:
            a = c.args[2] if len(c.args) >= 3 else None
            st = enclosing_stmt(c)
            o = origin(fn, a) if a is not None else None
            if o is not None and _is_get(o):
                ck.ob("R2", st, id(o) not in saved_calls,
                      "the attribute list that is modified and installed is the very object saved for the restore (alias): modifying it also changes what is put back", stmt=f"{fn.name}: modified list is not the saved original")
            else:
                # derived from something else: a (shallow) copy of the saved original shares its `cc` sub-list
                derived_from_saved = o is not None and any(isinstance(x, ast.Name) and x.id in aliases for x in ast.walk(o))
                deep = o is not None and isinstance(o, ast.Call) and (call_name(o) or "").endswith("deepcopy")
                ck.ob("R2", st, not derived_from_saved or deep,
                      f"the attribute list that is modified is derived from the saved original by `{short(o, 50) if o is not None else None}` (a shallow copy shares the control-character sub-list that read_tty writes into): "
                      "the restore would put back modified VMIN/VTIME", stmt=f"{fn.name}: modified list is independent of the saved original")
                ck.expect(derived_from_saved or deep or (o is not None and isinstance(o, ast.Call)), f"{q}: cannot determine where the installed attribute list `{short(a, 30)}` comes from")

        # R1 / R3 / R4
        for c in modifies:
            st = enclosing_stmt(c)
            fd = norm(c.args[0]) if c.args else "?"
            prot = None
            for t, part in try_context(c):
                if part != "body":
                    continue
                for r in restores:
                    if any(t2 is t and p2 == "finalbody" for t2, p2 in try_context(r)) and r.args and same(fn, r.args[0], c.args[0]):
                        prot = (t, r)
                        break
                if prot:
                    break
            if prot is None and _helper_guard(c, helpers, fd):
                ck.ob("R1", st, True, f"protected by context manager {_helper_guard(c, helpers, fd)}()", stmt=st)
                continue
            ck.ob("R1", st, prot is not None,
                  f"tcsetattr({fd}, ..., modified attrs) is not inside the body of a try whose finally restores the saved attributes of {fd}: "
                  "an exception or interrupt after it leaves the terminal modified", stmt=st)
            if not prot:
                continue
            t, r = prot
            is_cm = any((dotted(d) or "").split(".")[-1] == "contextmanager" for d in getattr(fn, "decorator_list", []))     # (there the yield IS the protected region of the caller's `with`)
            ys_ = [] if is_cm else [y for b_ in t.body for y in walk_local(b_) if isinstance(y, (ast.Yield, ast.YieldFrom))]
            ck.ob("R1", enclosing_stmt(ys_[0]) if ys_ else st, not ys_,
                  "the protected region yields: while the generator is suspended the terminal stays modified, and the restoring `finally` only runs when the consumer exhausts or closes the generator "
                  "(a consumer that stops early, or keeps a reference, leaves the terminal modified indefinitely)", stmt=f"{fn.name}: no yield between modification and restore")
            # everything the restoring clean-up reads is bound before the try is entered: a name first assigned inside the try body is
            # unbound when the body was interrupted earlier, and the `finally` then dies (UnboundLocalError) before it restores
            bound_in_try = {t_.id for b_ in t.body for t_, _s in stores_in(b_) if isinstance(t_, ast.Name)}
            bound_before = {t_.id for t_, s_ in stores_in(ast.Module(body=fn.body, type_ignores=[])) if isinstance(t_, ast.Name) and s_.lineno < t.lineno and not any(a_ is t for a_ in ancestors(s_))}
            params_ = {a_.arg for a_ in ast.walk(fn.args) if isinstance(a_, ast.arg)}
            late = sorted({n_.id for f_ in t.finalbody for n_ in walk_local(f_) if isinstance(n_, ast.Name) and isinstance(n_.ctx, ast.Load)} & (bound_in_try - bound_before - params_))
            ck.ob("R1", enclosing_stmt(r), not late, f"the restoring `finally` reads {late}, first assigned inside the try body: when the body is interrupted before that assignment the clean-up "
                  "raises UnboundLocalError and the attributes are never restored", stmt=f"{fn.name}: the restoring finally reads only names bound before the try")
            gm, gr = tliterals(fn, c), tliterals(fn, r)      # (traced: a guard on a value derived from another condition implies it)
            ck.ob("R3", enclosing_stmt(r), gr <= gm,
                  f"the restore is guarded by {sorted(gr - gm)} which the modification is not: the restore can be skipped after a modification",
                  stmt=f"restore-guard: {short(enclosing_stmt(r), 90)} vs modify {short(st, 60)}")
            o_ = origin(fn, r.args[2]) if len(r.args) >= 3 else None
            for b in ([enclosing_stmt(o_)] if o_ is not None and isinstance(o_, ast.Call) else []):
                gs = tliterals(fn, b)
                ck.ob("R3", b, gs <= gm,
                      f"the save is guarded by {sorted(gs - gm)} which the modification is not: a modification can happen without a saved original",
                      stmt=f"save-guard: {short(b, 80)} vs modify {short(st, 60)}")
        for r in restores:
            # R4: statements before the restore in its finalbody
            for t, part in try_context(r):
                if part != "finalbody":
                    continue
                rst = enclosing_stmt(r)
                top = rst
                while top._p is not t:
                    top = top._p
                idx = t.finalbody.index(top)
                for prev in t.finalbody[:idx]:
                    for n in walk_local(prev):
                        if isinstance(n, ast.stmt) and not isinstance(n, (ast.If, ast.Try, ast.With, ast.For, ast.While)):
                            protected = any(p == "body" and (tt.handlers and any(h.type is None or norm(h.type) in ("BaseException",) for h in tt.handlers))
                                            for tt, p in try_context(n) if tt is not t)
                            ck.ob("R4", n, protected or not may_raise_sync(n),
                                  f"`{short(n, 60)}` may raise inside the finally before the terminal attributes are restored "
                                  f"({short(rst, 60)}): the restore is then skipped", stmt=n)
                        elif isinstance(n, (ast.If, ast.While)) and may_raise_sync(n.test):
                            ck.ob("R4", n, False, f"condition `{short(n.test, 60)}` may raise before the restore", stmt=n.test)
                # the restore itself counts as an instance even with nothing before it
                ck.ob("R4", rst, True, "restore reached", stmt=f"restore: {short(rst, 100)}")
                break
    ck.expect(n_modify >= 4, f"expected >= 4 modifying tcsetattr calls, found {n_modify}")
    ck.expect(n_restore >= 3, f"expected >= 3 restoring tcsetattr calls, found {n_restore}")
    ck.extra["modifying_calls"] = n_modify
    ck.extra["restoring_calls"] = n_restore



U, R = "utils.py", "renderable/_renderable.py"

MUTANTS = [
    M("hoist-set-query", U, "query_terminal",
      "    try:\n        termios.tcsetattr(_tty_fd, termios.TCSAFLUSH, new_attr)\n",
      "    termios.tcsetattr(_tty_fd, termios.TCSAFLUSH, new_attr)\n    try:\n", {"R1"}),
    M("alias-new-old", U, "query_terminal", "new_attr = termios.tcgetattr(_tty_fd)", "new_attr = old_attr", {"R2"}),
    M("shallow-copy", U, "read_tty", "new_attr = termios.tcgetattr(_tty_fd)", "new_attr = old_attr[:]", {"R2"}),
    M("restore-new", U, "read_tty", "termios.tcsetattr(_tty_fd, termios.TCSANOW, old_attr)", "termios.tcsetattr(_tty_fd, termios.TCSANOW, new_attr)", {"R1", "R2", "R5"}),
    M("restore-other-flag", R, "Renderable.draw",
      "                if not_echo_input:\n                    termios.tcsetattr(output_fd, termios.TCSANOW, old_attr)",
      "                if not_echo_input and hide_cursor:\n                    termios.tcsetattr(output_fd, termios.TCSANOW, old_attr)", {"R3"}),
    M("finally-to-except", U, "read_tty", "    finally:\n        termios.tcsetattr", "    except OSError:\n        termios.tcsetattr", {"R1", "R5"}),
    M("mutate-old", U, "query_terminal", "new_attr[3] &= ~termios.ECHO", "old_attr[3] &= ~termios.ECHO", {"R2"}),
    M("restore-reads-late-name", U, "query_terminal",
      "        write_tty(request)\n        return read_tty(more, timeout or _query_timeout)\n    finally:\n        termios.tcsetattr(_tty_fd, termios.TCSANOW, old_attr)",
      "        write_tty(request)\n        when = termios.TCSANOW\n        return read_tty(more, timeout or _query_timeout)\n    finally:\n        termios.tcsetattr(_tty_fd, when, old_attr)", {"R1"}),
    M("yield-while-modified", U, "query_terminal", "        return read_tty(more, timeout or _query_timeout)\n", "        yield read_tty(more, timeout or _query_timeout)\n", {"R1"}),
    M("fallible-before-restore", U, "read_tty", "    finally:\n        termios.tcsetattr", "    finally:\n        input.extend(b'')\n        termios.tcsetattr", {"R4"}),
    M("set-before-try-draw", R, "Renderable.draw",
      "            new_attr[3] &= ~termios.ECHO\n", "            new_attr[3] &= ~termios.ECHO\n            termios.tcsetattr(output_fd, termios.TCSAFLUSH, new_attr)\n", {"R1"}),
    M("twin-rename", U, "query_terminal", "old_attr", "saved_attr", twin=True, count=2),
    M("twin-reorder", U, "read_tty", "    input = bytearray()\n    try:", "    input = bytearray()\n    deadline = None\n    try:", twin=True),
]
