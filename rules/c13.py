"""C13 - terminal attributes are always put back exactly as found (DESIGN.md 4, C13)."""
from __future__ import annotations

import ast

from tiv.astutil import (assigned_targets, body_walk, call_name, dotted, enclosing_func, enclosing_stmt,
                         guards, names_loaded, norm, short, stores_in, try_context, walk_local)
from tiv.cfg import may_raise_sync
from tiv.mutate import M

RULES = {
    "R1": "every termios.tcsetattr whose attribute argument is not a saved original lies inside the body of a "
          "try whose finalbody calls tcsetattr on the same fd with a saved original (restore on every exit kind)",
    "R2": "the saved original is bound exactly once, from its own tcgetattr call, outside/before the protecting "
          "try; it is never stored into, aug-assigned, aliased or passed to anything but the restoring "
          "tcsetattr; the list that is modified is bound from a different tcgetattr call (no alias/shallow copy)",
    "R3": "save, modification and restore are guarded consistently: guards(save) and guards(restore) are "
          "subsets of guards(modify), and the guard variables are assigned once, before the save",
    "R4": "inside the finalbody nothing that may raise precedes the restore (or it is itself protected)",
    "R5": "every function that changes terminal attributes restores them itself (no modify-and-return), so "
          "nested users (query_terminal -> read_tty) restore in LIFO order",
}


def _tc_calls(fn, name):
    return [c for c in body_walk(fn) if isinstance(c, ast.Call) and (call_name(c) or "").split(".")[-1] == name]


def _bindings(fn, var):
    """Statements binding local `var` in fn (own body)."""
    out = []
    for t, st in stores_in(ast.Module(body=fn.body, type_ignores=[])):
        if isinstance(t, ast.Name) and t.id == var and not isinstance(st, ast.Delete):
            out.append(st)
    return out


def _gset(n):
    return {(norm(t), b) for t, b in guards(n)}


def _protecting_helpers(m):
    """{name: (fn, fd_src, yielded name)} for @contextmanager functions of the shape
    save; try: ... yield [x] ... finally: tcsetattr(fd, when, SAVED)."""
    out = {}
    for rel, q, fn in m.functions():
        if not any((dotted(d) or "").split(".")[-1] == "contextmanager" for d in fn.decorator_list):
            continue
        for y in body_walk(fn):
            if not isinstance(y, ast.Yield):
                continue
            for t, part in try_context(y):
                if part != "body":
                    continue
                rs = [c for st in t.finalbody for c in walk_local(st) if isinstance(c, ast.Call) and (call_name(c) or "").split(".")[-1] == "tcsetattr"]
                if rs and rs[0].args:
                    out[fn.name] = (fn, norm(rs[0].args[0]), norm(y.value) if y.value is not None else None)
    return out


def _helper_guard(c, helpers, fd):
    for w in __import__("tiv.astutil", fromlist=["with_context"]).with_context(c):
        for it in w.items:
            if isinstance(it.context_expr, ast.Call):
                nm = (call_name(it.context_expr) or "").split(".")[-1]
                if nm in helpers and helpers[nm][1] == fd:
                    return nm
    return None


def run(ck, m):
    helpers = _protecting_helpers(m)
    sites = []
    for rel, q, fn in m.functions():
        sets = _tc_calls(fn, "tcsetattr")
        if sets:
            sites.append((rel, q, fn, sets))
    ck.need(len(sites) >= 3, f"expected >= 3 functions calling termios.tcsetattr, found {len(sites)}")
    n_modify = n_restore = 0
    for rel, q, fn, sets in sites:
        gets = _tc_calls(fn, "tcgetattr")
        # classify: restore candidates = tcsetattr inside a finalbody
        restores = [c for c in sets if any(part == "finalbody" for _, part in try_context(c))]
        saved_names = set()
        for r in restores:
            if len(r.args) >= 3 and isinstance(r.args[2], ast.Name):
                saved_names.add(r.args[2].id)
        modifies = [c for c in sets if not (len(c.args) >= 3 and isinstance(c.args[2], ast.Name) and c.args[2].id in saved_names and c in restores)]
        n_modify += len(modifies)
        n_restore += len(restores)

        # R5: a function that modifies must restore
        unprotected = [c for c in modifies if not _helper_guard(c, helpers, norm(c.args[0]) if c.args else "?")]
        ck.ob("R5", fn, bool(restores) or not unprotected,
              "function changes terminal attributes but has no restoring tcsetattr in a finally", stmt=f"def {fn.name}")

        # R2: pristine saved originals
        for old in sorted(saved_names):
            binds = _bindings(fn, old)
            ok_bind = (len(binds) == 1 and isinstance(binds[0], (ast.Assign, ast.AnnAssign))
                       and isinstance(binds[0].value, ast.Call)
                       and (call_name(binds[0].value) or "").split(".")[-1] == "tcgetattr"
                       and len(assigned_targets(binds[0])) == 1)
            ck.ob("R2", binds[0] if binds else fn, ok_bind,
                  f"saved original `{old}` must be bound exactly once directly from termios.tcgetattr(fd) "
                  f"(found {len(binds)} binding(s): {[short(b, 60) for b in binds]})",
                  stmt=f"bind {old}: " + "; ".join(short(b, 80) for b in binds))
            # binding is not inside the protecting try body (must precede it)
            for b in binds:
                inside = [t for t, part in try_context(b) if any(r for r in restores if t in [x for x, p in try_context(r) if p == "finalbody"])]
                ck.ob("R2", b, not inside, f"`{old}` is saved inside the try that restores it; a failure before the save would restore an unbound/stale value",
                      stmt=f"save-before-try {old}: {short(b, 80)}")
            # uses of OLD: only as 3rd argument of the restoring tcsetattr
            for n in body_walk(fn):
                if isinstance(n, ast.Name) and n.id == old and isinstance(n.ctx, ast.Load):
                    p = n._p
                    is_restore_arg = isinstance(p, ast.Call) and p in restores and len(p.args) >= 3 and p.args[2] is n
                    st = enclosing_stmt(n)
                    ck.ob("R2", st, is_restore_arg,
                          f"saved original `{old}` is read outside the restore ({short(st, 70)}): it may be aliased, copied shallowly or mutated",
                          stmt=f"use {old}: {short(st, 100)}")
                if isinstance(n, (ast.Subscript, ast.Attribute)) and isinstance(n.ctx, (ast.Store, ast.Del)):
                    base = n
                    while isinstance(base, (ast.Subscript, ast.Attribute)):
                        base = base.value
                    if isinstance(base, ast.Name) and base.id == old:
                        st = enclosing_stmt(n)
                        ck.ob("R2", st, False, f"store into the saved original `{old}`", stmt=f"mutate {old}: {short(st, 100)}")
        # the modified lists must come from their own tcgetattr
        for c in modifies:
            a = c.args[2] if len(c.args) >= 3 else None
            st = enclosing_stmt(c)
            if isinstance(a, ast.Name):
                binds = _bindings(fn, a.id)
                via = [b for b in binds if isinstance(b, ast.With) and any(
                    isinstance(i.context_expr, ast.Call) and (call_name(i.context_expr) or "").split(".")[-1] in helpers for i in b.items)]
                if via and len(via) == len(binds):
                    hname = next((call_name(i.context_expr) or "").split(".")[-1] for i in via[0].items if isinstance(i.context_expr, ast.Call))
                    hfn, _fd, yielded = helpers[hname]
                    hb = _bindings(hfn, yielded) if yielded else []
                    okh = bool(hb) and all(isinstance(b, (ast.Assign, ast.AnnAssign)) and isinstance(b.value, ast.Call)
                                           and (call_name(b.value) or "").split(".")[-1] == "tcgetattr" for b in hb)
                    ck.ob("R2", st, okh, f"the list yielded by {hname}() must come from its own tcgetattr() call", stmt=f"modified-list {a.id} via {hname}")
                    continue
                ok = bool(binds) and all(
                    isinstance(b, (ast.Assign, ast.AnnAssign)) and isinstance(b.value, ast.Call)
                    and (call_name(b.value) or "").split(".")[-1] == "tcgetattr" for b in binds)
                ck.ob("R2", st, ok,
                      f"the attribute list `{a.id}` that is modified and installed must be bound from its own "
                      f"termios.tcgetattr() call, not derived from the saved original ({[short(b, 60) for b in binds]})",
                      stmt=f"modified-list {a.id}: " + "; ".join(short(b, 80) for b in binds))
            else:
                ck.ob("R2", st, False, "tcsetattr installs an attribute expression that is not a named local", stmt=st)

        # R1 / R3 / R4
        for c in modifies:
            st = enclosing_stmt(c)
            fd = norm(c.args[0]) if c.args else "?"
            prot = None
            for t, part in try_context(c):
                if part != "body":
                    continue
                for r in restores:
                    if any(t2 is t and p2 == "finalbody" for t2, p2 in try_context(r)) and r.args and norm(r.args[0]) == fd:
                        prot = (t, r)
                        break
                if prot:
                    break
            if prot is None and _helper_guard(c, helpers, fd):
                ck.ob("R1", st, True, f"protected by context manager {_helper_guard(c, helpers, fd)}()", stmt=st)
                continue
            ck.ob("R1", st, prot is not None,
                  f"tcsetattr({fd}, ..., modified attrs) is not inside the body of a try whose finally restores the saved attributes of {fd}: "
                  "an exception or interrupt after it leaves the terminal modified", stmt=st)
            if not prot:
                continue
            t, r = prot
            gm, gr = _gset(c), _gset(r)
            ck.ob("R3", enclosing_stmt(r), gr <= gm,
                  f"the restore is guarded by {sorted(gr - gm)} which the modification is not: the restore can be skipped after a modification",
                  stmt=f"restore-guard: {short(enclosing_stmt(r), 90)} vs modify {short(st, 60)}")
            old = r.args[2].id if len(r.args) >= 3 and isinstance(r.args[2], ast.Name) else None
            for b in (_bindings(fn, old) if old else []):
                gs = _gset(b)
                ck.ob("R3", b, gs <= gm,
                      f"the save is guarded by {sorted(gs - gm)} which the modification is not: a modification can happen without a saved original",
                      stmt=f"save-guard: {short(b, 80)} vs modify {short(st, 60)}")
            for tst, _b in guards(c):
                for nm in names_loaded(tst):
                    bs = _bindings(fn, nm)
                    if bs or nm in {a.arg for a in fn.args.args + fn.args.kwonlyargs}:
                        ok = len(bs) <= 1 and all(b.lineno < t.lineno for b in bs)
                        if nm in {a.arg for a in fn.args.args + fn.args.kwonlyargs} and not bs:
                            ok = True
                        if any((tt, pp) for tt, pp in try_context(c) if tt is t) and norm(tst) in {g for g, _ in gr}:
                            ck.ob("R3", tst, ok, f"guard variable `{nm}` is reassigned between save, modification and restore",
                                  stmt=f"guard-var {nm} in {fn.name}")
        for r in restores:
            # R4: statements before the restore in its finalbody
            for t, part in try_context(r):
                if part != "finalbody":
                    continue
                rst = enclosing_stmt(r)
                top = rst
                while top._p is not t:
                    top = top._p
                idx = t.finalbody.index(top)
                for prev in t.finalbody[:idx]:
                    for n in walk_local(prev):
                        if isinstance(n, ast.stmt) and not isinstance(n, (ast.If, ast.Try, ast.With, ast.For, ast.While)):
                            protected = any(p == "body" and (tt.handlers and any(h.type is None or norm(h.type) in ("BaseException",) for h in tt.handlers))
                                            for tt, p in try_context(n) if tt is not t)
                            ck.ob("R4", n, protected or not may_raise_sync(n),
                                  f"`{short(n, 60)}` may raise inside the finally before the terminal attributes are restored "
                                  f"({short(rst, 60)}): the restore is then skipped", stmt=n)
                        elif isinstance(n, (ast.If, ast.While)) and may_raise_sync(n.test):
                            ck.ob("R4", n, False, f"condition `{short(n.test, 60)}` may raise before the restore", stmt=n.test)
                # the restore itself counts as an instance even with nothing before it
                ck.ob("R4", rst, True, "restore reached", stmt=f"restore: {short(rst, 100)}")
                break
    ck.expect(n_modify >= 4, f"expected >= 4 modifying tcsetattr calls, found {n_modify}")
    ck.expect(n_restore >= 3, f"expected >= 3 restoring tcsetattr calls, found {n_restore}")
    ck.extra["modifying_calls"] = n_modify
    ck.extra["restoring_calls"] = n_restore


U, R = "utils.py", "renderable/_renderable.py"
MUTANTS = [
    M("hoist-set-query", U, "query_terminal",
      "    try:\n        termios.tcsetattr(_tty_fd, termios.TCSAFLUSH, new_attr)\n",
      "    termios.tcsetattr(_tty_fd, termios.TCSAFLUSH, new_attr)\n    try:\n", {"R1"}),
    M("alias-new-old", U, "query_terminal", "new_attr = termios.tcgetattr(_tty_fd)", "new_attr = old_attr", {"R2"}),
    M("shallow-copy", U, "read_tty", "new_attr = termios.tcgetattr(_tty_fd)", "new_attr = old_attr[:]", {"R2"}),
    M("restore-new", U, "read_tty", "termios.tcsetattr(_tty_fd, termios.TCSANOW, old_attr)", "termios.tcsetattr(_tty_fd, termios.TCSANOW, new_attr)", {"R1", "R2", "R5"}),
    M("restore-other-flag", R, "Renderable.draw",
      "                if not_echo_input:\n                    termios.tcsetattr(output_fd, termios.TCSANOW, old_attr)",
      "                if not_echo_input and hide_cursor:\n                    termios.tcsetattr(output_fd, termios.TCSANOW, old_attr)", {"R3"}),
    M("finally-to-except", U, "read_tty", "    finally:\n        termios.tcsetattr", "    except OSError:\n        termios.tcsetattr", {"R1", "R5"}),
    M("mutate-old", U, "query_terminal", "new_attr[3] &= ~termios.ECHO", "old_attr[3] &= ~termios.ECHO", {"R2"}),
    M("fallible-before-restore", U, "read_tty", "    finally:\n        termios.tcsetattr", "    finally:\n        input.extend(b'')\n        termios.tcsetattr", {"R4"}),
    M("set-before-try-draw", R, "Renderable.draw",
      "            new_attr[3] &= ~termios.ECHO\n", "            new_attr[3] &= ~termios.ECHO\n            termios.tcsetattr(output_fd, termios.TCSAFLUSH, new_attr)\n", {"R1"}),
    M("twin-rename", U, "query_terminal", "old_attr", "saved_attr", twin=True, count=2),
    M("twin-reorder", U, "read_tty", "    input = bytearray()\n    try:", "    input = bytearray()\n    deadline = None\n    try:", twin=True),
]
