"""C14 - terminal access is serialized across threads and processes: the lock *discipline* (DESIGN.md 4, C14).
Mutual exclusion under every interleaving is not decided (schedule exploration is another technique family)."""
from __future__ import annotations

import ast

from tiv.astutil import body_walk, call_name, dotted, enclosing_stmt, norm, short, stores_in, walk_local
from tiv.cfg import CFG
from tiv.mutate import M
from tiv.sem import origin, trace

RULES = {
    "MEMO": "memo safety (shared, rules/common.py): a memoised function in this property's files (or called from them) is a function of its "
            "arguments only (no terminal/ambient/receiver state outside the key) and no caller mutates its result in place",
    "L1": "lock_tty_wrapper is one `with` whose items are TWO loads of the module-global `_tty_lock` (not a value captured "
          "at decoration time) around `return func(*args, **kwargs)`; every other `with` on `_tty_lock`/`_cell_size_lock` in "
          "utils.py outside the Process wrappers uses the same two-item form (hand-over of a swapped lock)",
    "L2": "every function that reads, writes or reconfigures the terminal through `_tty_fd` (os.read/os.write/select/termios.*) is "
          "decorated with lock_tty; exemptions: fcntl.ioctl(TIOCGWINSZ), os.get_terminal_size (size probes), comparisons",
    "L3": "the global `_tty_lock` is bound only at module level (threading.RLock()), in _process_start_wrapper - inside "
          "`with _tty_lock:` and only to multiprocessing.RLock() - and in _process_run_wrapper; same shape for "
          "`_cell_size_lock`; both constructors are re-entrant locks; the terminal locks are taken and released by `with` only (no explicit acquire / release, no os.register_at_fork hooks)",
    "L4": "on every normal path through _process_start_wrapper `self._tty_lock` and `self._cell_size_cache` are assigned "
          "before the wrapped start is called; _process_run_wrapper installs them before the wrapped run; both are patched "
          "into Process at import under `_tty_fd != -1`; every store to self._tty_lock / self._cell_size_cache binds the module global of the same name (the child is handed the very lock the parent goes on using), None only inside an exception handler",
    "L6": "a multi-step exchange is one critical section: in every function that takes `with _tty_lock, _tty_lock` explicitly, every call "
          "of a lock_tty-synchronised terminal function (query_terminal/read_tty/write_tty) is inside that with block; and the decision to swap a "
          "lock in _process_start_wrapper (the isinstance test) is evaluated while holding the lock it swaps",
    "L5": "every terminal-I/O method that UrwidImageScreen overrides (draw_screen, flush, get_available_raw_input, write, ...) is decorated with lock_tty; no_redecorate sets its mark on the object the decorator returned, not on the one it was given",
}

U = "utils.py"
IO_LAST = {"read", "write", "select", "tcsetattr", "tcgetattr", "tcdrain", "tcflush", "tcflow", "tcsendbreak", "readv", "writev"}
EXEMPT = {"fcntl.ioctl", "os.get_terminal_size", "ioctl", "get_terminal_size"}
SCREEN_IO = {"draw_screen", "flush", "get_available_raw_input", "write", "get_input", "get_input_nonblocking", "_getch", "_getch_nodelay",
             "set_mouse_tracking", "set_input_timeouts", "clear_images_now"}


def _decorators(fn):
    return {(dotted(d) or "").split(".")[-1] for d in fn.decorator_list}


def _with_items(w):
    return [norm(i.context_expr) for i in w.items]


def run(ck, m):
    from rules.common import rule_memo_safety
    rule_memo_safety(ck, m, "MEMO", "C14")          # first: a memoised helper also hides the code it wraps from the rules below
    tree = m.tree(U)
    lock_tty = m.get(U, "lock_tty")
    wrapper = m.get(U, "lock_tty.lock_tty_wrapper")

    # the terminal locks are taken and released by `with` only: an explicit acquire() / release() (directly, or handed to os.register_at_fork) can be
    # unbalanced - e.g. the one acquisition before a fork released both in the parent and in the child's copy of a process-shared lock
    for rel_, q_, fn_ in list(m.functions()) + [(U, "<module>", tree)]:
        for c_ in (body_walk(fn_) if fn_ is not tree else [x for st_ in tree.body if not isinstance(st_, (ast.FunctionDef, ast.ClassDef)) for x in ast.walk(st_)]):
            if isinstance(c_, ast.Call) and isinstance(c_.func, ast.Attribute) and c_.func.attr in ("acquire", "release") and any(
                    nm_ in norm(c_.func.value) for nm_ in ("_tty_lock", "_cell_size_lock")):
                ck.ob("L3", enclosing_stmt(c_), False, f"{q_}: `{short(c_, 50)}` takes / releases a terminal lock outside a `with`: acquisitions and releases can then be unbalanced "
                      "(a release in a forked child of a lock the parent releases too lets parent and child hold it together)", stmt=f"{rel_}::{q_}: terminal locks only through `with`")
            if isinstance(c_, ast.Call) and norm(c_.func).endswith("register_at_fork"):
                ck.ob("L3", enclosing_stmt(c_), False, f"{q_}: fork hooks on the terminal locks: the process-shared lock is one semaphore for parent and children - releasing it `after_in_child` "
                      "releases the parent's acquisition a second time", stmt=f"{rel_}::{q_}: no fork hooks on the terminal locks")
    # a decorator guarded by no_redecorate marks what it RETURNS, never what it was given: a mark on the plain function makes a second `lock_tty(f)` return
    # f itself - unsynchronized
    nrw = m.find(U, "no_redecorate.no_redecorate_wrapper")
    ck.expect(nrw is not None, "no_redecorate.no_redecorate_wrapper not found")
    if nrw is not None:
        marks = [c_ for c_ in body_walk(nrw) if isinstance(c_, ast.Call) and norm(c_.func) == "setattr" and len(c_.args) == 3]
        ck.expect(len(marks) >= 1, "no_redecorate_wrapper: the marking setattr not found")
        for c_ in marks:
            tv_ = norm(trace(nrw, c_.args[0], use=c_))
            ck.ob("L5", enclosing_stmt(c_), tv_.startswith("decor("), f"no_redecorate marks `{tv_[:50]}` instead of the object the decorator returned: the undecorated function then carries the mark, "
                  "and decorating it again returns it undecorated (a `lock_tty` handler registered twice runs without the lock)", stmt="no_redecorate: the mark goes on the decorator's result")

    # ---- L1 ---------------------------------------------------------------------------
    body = [s for s in wrapper.body if not (isinstance(s, ast.Expr) and isinstance(s.value, ast.Constant))]
    w = body[0] if body else None
    ok_shape = len(body) == 1 and isinstance(w, ast.With)
    ck.ob("L1", wrapper, ok_shape, "lock_tty_wrapper must consist of a single `with` statement", stmt="lock_tty_wrapper: single with")
    if ok_shape:
        items = _with_items(w)
        ck.ob("L1", w, items == ["_tty_lock", "_tty_lock"],
              f"the wrapper must acquire `_tty_lock` twice (`with _tty_lock, _tty_lock:`) so that a thread that waited on a lock "
              f"swapped by Process.start() also takes the new one; found items {items}", stmt="lock_tty_wrapper: with " + ", ".join(items))
        inner = [s for s in w.body]
        ret_ok = (len(inner) == 1 and isinstance(inner[0], ast.Return) and isinstance(inner[0].value, ast.Call)
                  and norm(inner[0].value) == "func(*args, **kwargs)")
        ck.ob("L1", inner[0] if inner else w, ret_ok, "the body of the with must be exactly `return func(*args, **kwargs)`",
              stmt="lock_tty_wrapper: body " + "; ".join(short(s, 60) for s in inner))
    # `_tty_lock` must be the module global inside the wrapper: not a parameter, not assigned in lock_tty or the wrapper
    captured = []
    for f in (lock_tty, wrapper):
        params = {a.arg for a in f.args.args + f.args.kwonlyargs + f.args.posonlyargs}
        if "_tty_lock" in params:
            captured.append(f"parameter of {f.name}")
        for t, st in stores_in(ast.Module(body=f.body, type_ignores=[])):
            if isinstance(t, ast.Name) and t.id == "_tty_lock":
                captured.append(f"assigned in {f.name}: {short(st, 50)}")
    ck.ob("L1", wrapper, not captured,
          f"`_tty_lock` is not the module global inside the wrapper ({captured}): a lock captured at decoration time never sees the swap",
          stmt="lock_tty_wrapper: _tty_lock is global")
    ret = [s for s in lock_tty.body if isinstance(s, ast.Return)]
    ck.ob("L1", lock_tty, bool(ret) and all(norm(r.value) == "lock_tty_wrapper" for r in ret),
          "lock_tty must return the locking wrapper", stmt="lock_tty: return lock_tty_wrapper")
    # sibling forms
    n_sib = 0
    for rel in (U,):
        for rel_, q, fn in m.functions():
            if rel_ != rel or not isinstance(fn, ast.FunctionDef) or q in ("_process_start_wrapper", "_process_run_wrapper", "lock_tty.lock_tty_wrapper"):
                continue
            for n in body_walk(fn):
                if isinstance(n, ast.With):
                    items = _with_items(n)
                    for lk in ("_tty_lock", "_cell_size_lock"):
                        if lk in items:
                            n_sib += 1
                            ck.ob("L1", n, items.count(lk) == 2,
                                  f"`with {', '.join(items)}` acquires `{lk}` once; the swapped-lock hand-over needs the two-item form",
                                  stmt=f"{fn.name}: with " + ", ".join(items))
    ck.expect(n_sib >= 3, f"expected >= 3 sibling two-item with statements in utils.py, found {n_sib}")

    # ---- L2 ---------------------------------------------------------------------------
    n_io = 0
    for rel, q, fn in m.functions():
        uses_fd = any(isinstance(n, ast.Name) and n.id == "_tty_fd" and isinstance(n.ctx, ast.Load) for n in body_walk(fn))
        if not uses_fd:
            continue
        for c in body_walk(fn):
            if not isinstance(c, ast.Call):
                continue
            cn = call_name(c) or ""
            last = cn.split(".")[-1]
            if cn in EXEMPT or last not in IO_LAST:
                continue
            if last in ("read", "write") and not cn.startswith("os."):
                continue  # buffer.write etc.
            n_io += 1
            ck.ob("L2", enclosing_stmt(c), "lock_tty" in _decorators(fn),
                  f"`{cn}` touches the terminal (function uses `_tty_fd`) but `{fn.name}` is not decorated with @lock_tty",
                  stmt=f"{fn.name}: {short(c, 80)}")
    ck.expect(n_io >= 12, f"expected >= 12 terminal I/O calls on _tty_fd, found {n_io}")
    # who else touches `_tty_fd` from other modules
    for rel in m.files:

        for n in m.walk(rel):
            if isinstance(n, ast.Attribute) and n.attr == "_tty_fd":
                ck.ob("L2", enclosing_stmt(n), False, f"`{norm(n)}` accesses the terminal descriptor outside utils.py",
                      stmt=f"{rel}: {short(enclosing_stmt(n), 80)}")

    # ---- L3 ---------------------------------------------------------------------------
    imports = {}
    for st in tree.body:
        if isinstance(st, ast.ImportFrom):
            for a in st.names:
                imports[a.asname or a.name] = f"{st.module}.{a.name}"
    for lk in ("_tty_lock", "_cell_size_lock"):
        writers = []
        for rel, _q, t, st in m.stores():

            if True:
                if (isinstance(t, ast.Name) and t.id == lk and rel == U) or (isinstance(t, ast.Attribute) and t.attr == lk and not (
                        isinstance(t.value, ast.Name) and t.value.id == "self")):
                    q = getattr(st, "_q", "") or "<module>"
                    # a Name store inside a function only rebinds the global if declared global there
                    if isinstance(t, ast.Name) and q != "<module>":
                        fn = m.file(rel).defs.get(q)
                        if not any(isinstance(g, ast.Global) and lk in g.names for g in ast.walk(fn)):
                            continue
                    writers.append((rel, q, st))
        allowed = {"<module>", "_process_start_wrapper", "_process_run_wrapper"}
        for rel, q, st in writers:
            ck.ob("L3", st, rel == U and q in allowed,
                  f"`{lk}` is rebound in {rel}::{q}; only module initialisation and the two Process wrappers may do that",
                  stmt=f"{q}: {short(st, 90)}")
        ck.expect(len(writers) >= 3, f"expected >= 3 bindings of {lk}, found {len(writers)}")
    # module-level constructors are re-entrant
    for st in tree.body:
        if isinstance(st, ast.Assign) and any(isinstance(t, ast.Name) and t.id in ("_tty_lock", "_cell_size_lock") for t in st.targets):
            ctor = call_name(st.value) if isinstance(st.value, ast.Call) else None
            ck.ob("L3", st, ctor is not None and imports.get(ctor, ctor) == "threading.RLock",
                  f"module-level lock must be threading.RLock() (re-entrant); found {short(st.value, 40)} -> {imports.get(ctor or '', ctor)}", stmt=st)
    start = m.get(U, "_process_start_wrapper")
    for t, st in stores_in(ast.Module(body=start.body, type_ignores=[])):
        if isinstance(t, ast.Name) and t.id == "_tty_lock":
            val = origin(start, st.value)
            ctor = call_name(val) if isinstance(val, ast.Call) else None
            ck.ob("L3", st, imports.get(ctor or "", "") == "multiprocessing.RLock",
                  f"the process-shared lock must be multiprocessing.RLock(); found {short(st.value, 40)}", stmt=st)
            inside = any(isinstance(a, ast.With) and "_tty_lock" in _with_items(a) for a in _anc(st))
            ck.ob("L3", st, inside, "`_tty_lock` is swapped outside `with _tty_lock:`: another thread may hold the old lock while a new one is installed",
                  stmt=f"swap-under-lock: {short(st, 70)}")
        if isinstance(t, ast.Name) and t.id == "_cell_size_lock":
            inside = any(isinstance(a, ast.With) and "_cell_size_lock" in _with_items(a) for a in _anc(st))
            ck.ob("L3", st, inside, "`_cell_size_lock` is swapped outside `with _cell_size_lock:`", stmt=f"swap-under-lock: {short(st, 70)}")

    # ---- L6 ---------------------------------------------------------------------------
    locked_fns = {fn.name for rel, q, fn in m.functions() if rel == U and "lock_tty" in _decorators(fn)}
    n6 = 0
    for rel_, q, fn in m.functions():
        if rel_ != U or not isinstance(fn, ast.FunctionDef) or q in ("_process_start_wrapper", "lock_tty.lock_tty_wrapper"):
            continue
        ws = [n for n in body_walk(fn) if isinstance(n, ast.With) and "_tty_lock" in _with_items(n)]
        if not ws:
            continue
        for c in body_walk(fn):
            if isinstance(c, ast.Call) and (call_name(c) or "").split(".")[-1] in locked_fns:
                n6 += 1
                inside = any(a in ws for a in _anc(c))
                ck.ob("L6", enclosing_stmt(c), inside,
                      f"`{short(c, 50)}` is part of {fn.name}'s multi-step terminal exchange but runs outside its `with _tty_lock, _tty_lock` block: another "
                      f"synchronised reader can be scheduled between the steps and receive part of this caller's reply", stmt=f"{fn.name}: {short(c, 60)} inside the lock block")
    ck.expect(n6 >= 4, f"expected >= 4 terminal calls inside explicit lock blocks, found {n6}")
    for t, st in stores_in(ast.Module(body=start.body, type_ignores=[])):
        if isinstance(t, ast.Name) and t.id in ("_tty_lock", "_cell_size_lock"):
            lk = t.id
            for a in _anc(st):
                if isinstance(a, ast.If) and lk in {n.id for n in ast.walk(a.test) if isinstance(n, ast.Name)}:
                    under = any(isinstance(x, ast.With) and lk in _with_items(x) for x in _anc(a))
                    ck.ob("L6", a, under, f"the test `{short(a.test, 50)}` that decides whether `{lk}` is swapped is evaluated before the lock is held (check-then-lock): two racing "
                          f"Process.start() calls can both pass it and install two different locks", stmt=f"_process_start_wrapper: `{short(a.test, 50)}` under with {lk}")

    # ---- L4 ---------------------------------------------------------------------------
    for fn, attrs in ((start, ("_tty_lock", "_cell_size_cache")),):
        g = CFG(fn)
        rets = [n for n in g.nodes if n.kind == "stmt" and isinstance(n.ast, ast.Return)]
        ck.need(rets, "_process_start_wrapper has no return")
        for attr in attrs:
            def stores_attr(n, attr=attr):
                if n.kind != "stmt" or n.ast is None:
                    return False
                return any(isinstance(t, ast.Attribute) and t.attr == attr and isinstance(t.value, ast.Name) and t.value.id == "self"
                           for t, _ in stores_in(n.ast))
            for r in rets:
                p = g.search([g.entry], lambda n, r=r: n is r, avoid=stores_attr, from_succ=False,
                             edge_ok=lambda s, lab, d: not lab.startswith("e:") or d.kind in ("dispatch", "handler"))
                ck.ob("L4", r.ast, p is None,
                      f"there is a path to the wrapped Process.start() on which `self.{attr}` was never assigned: the child would fail in "
                      f"_process_run_wrapper / run unsynchronised", stmt=f"_process_start_wrapper: self.{attr} assigned before start")
    # what the child is handed IS the lock / cache the parent goes on using: every store to self._tty_lock / self._cell_size_cache binds the module global
    # of the same name (directly, chained with the rebinding of the global, or through a local that is also stored into the global); the only other
    # value is the "not supported on this platform" None inside an exception handler
    for attr in ("_tty_lock", "_cell_size_cache"):
        glob_vals = {norm(trace(start, st.value, use=st)) for t, st in stores_in(ast.Module(body=start.body, type_ignores=[]))
                     if isinstance(t, ast.Name) and t.id == attr and getattr(st, "value", None) is not None}
        glob_srcs = {norm(st.value) for t, st in stores_in(ast.Module(body=start.body, type_ignores=[])) if isinstance(t, ast.Name) and t.id == attr and getattr(st, "value", None) is not None}
        for t, st in stores_in(ast.Module(body=start.body, type_ignores=[])):
            if not (isinstance(t, ast.Attribute) and t.attr == attr and isinstance(t.value, ast.Name) and t.value.id == "self" and getattr(st, "value", None) is not None):
                continue
            if any(isinstance(a, ast.ExceptHandler) for a in _anc(st)) and isinstance(st.value, ast.Constant) and st.value.value is None:
                continue
            chained = isinstance(st, ast.Assign) and any(isinstance(x, ast.Name) and x.id == attr for x in st.targets)
            v_ = norm(st.value)
            tv_ = norm(trace(start, st.value, use=st))
            ok_ = chained or v_ == attr or tv_ == attr or v_ in glob_srcs or (tv_ in glob_vals and not isinstance(st.value, ast.Constant))
            ck.ob("L4", st, ok_, f"`{short(st, 60)}`: the child process must be handed the very lock / cache the parent uses from now on (the global `{attr}`); any other value - None on some "
                  f"condition, a second new lock - leaves the child unsynchronised with its parent for its whole life (the hand-over happens once, at start)",
                  stmt=f"_process_start_wrapper: `{short(st, 50)}` hands over the global {attr}")
    runw = m.get(U, "_process_run_wrapper")
    rets = [s for s in runw.body if isinstance(s, ast.Return)]
    for lk, src in (("_tty_lock", "self._tty_lock"), ("_cell_size_cache", "self._cell_size_cache")):
        sts = [st for t, st in stores_in(ast.Module(body=runw.body, type_ignores=[])) if isinstance(t, ast.Name) and t.id == lk and norm(trace(runw, st.value, use=st)) == src]
        ok = bool(sts) and bool(rets) and all(s.lineno < rets[-1].lineno for s in sts)
        ck.ob("L4", runw, ok, f"_process_run_wrapper must install `{lk} = {src}` before calling the wrapped run()", stmt=f"_process_run_wrapper: install {lk}")
    has_global = {"_tty_lock", "_cell_size_cache", "_cell_size_lock"} <= {nm for g_ in body_walk(runw) if isinstance(g_, ast.Global) for nm in g_.names}
    ck.ob("L4", runw, has_global, "_process_run_wrapper must declare the lock names global (otherwise it binds locals)", stmt="_process_run_wrapper: global decl")
    has_global = {"_tty_lock", "_cell_size_cache", "_cell_size_lock"} <= {nm for g_ in body_walk(start) if isinstance(g_, ast.Global) for nm in g_.names}
    ck.ob("L4", start, has_global, "_process_start_wrapper must declare the lock names global", stmt="_process_start_wrapper: global decl")
    patched = {}
    for n in ast.walk(tree):
        if isinstance(n, ast.Assign) and len(n.targets) == 1 and norm(n.targets[0]) in ("Process.start", "Process.run"):
            patched[norm(n.targets[0])] = n
    for nm, wrap in (("Process.start", "_process_start_wrapper"), ("Process.run", "_process_run_wrapper")):
        n = patched.get(nm)
        # at import: a module-level statement (helpers called at module level are inlined there); the wrapped original traced through locals
        from tiv.astutil import enclosing_func
        tv = norm(trace(tree, n.value)) if n is not None and enclosing_func(n) is None else ""
        ok = n is not None and wrap in tv and f"wraps({nm})" in tv
        ck.ob("L4", n or tree, ok, f"{nm} must be replaced by wraps({nm})({wrap}) at import", stmt=f"patch {nm}")

    # ---- L5 ---------------------------------------------------------------------------
    scr = m.get("widget/_urwid.py", "UrwidImageScreen")
    n5 = 0
    for st in scr.body:
        if isinstance(st, ast.FunctionDef) and st.name in SCREEN_IO:
            n5 += 1
            ck.ob("L5", st, "lock_tty" in _decorators(st),
                  f"UrwidImageScreen.{st.name} performs terminal I/O but is not decorated with @lock_tty", stmt=f"UrwidImageScreen.{st.name}")
    ck.expect(n5 >= 4, f"expected >= 4 I/O overrides in UrwidImageScreen, found {n5}")

    # the lock is migrated exactly when it still is the thread-only lock: decided from the lock object itself (state that survives
    # re-import in a spawn/forkserver child and is adopted together with the lock), never from a separate flag
    from tiv.sem import econds as _econds
    mk = [c for c in body_walk(start) if isinstance(c, ast.Call) and (call_name(c) or "").split(".")[-1] in ("mp_RLock", "RLock", "Array")]
    ck.expect(len(mk) >= 2, f"_process_start_wrapper: creation of the multiprocessing lock / array not found ({len(mk)})")
    for c in mk:
        cds = _econds(start, c)
        ck.ob("L4", enclosing_stmt(c), any(x.startswith("isinstance(_tty_lock, _rlock_type)") or x.startswith("isinstance(_cell_size_lock, _rlock_type)") for x in cds),
              f"`{short(c, 40)}` (migration to a multiprocessing primitive) is not decided by `isinstance(<lock>, _rlock_type)` (conditions: {sorted(cds)[:3]}): a flag kept beside the lock is lost when a "
              "spawn/forkserver child re-imports the module and adopts only the lock, so the child would create a second, unrelated lock for its own children", stmt=f"_process_start_wrapper: {short(c, 30)} iff the lock is still thread-only")



def _anc(n):
    p = getattr(n, "_p", None)
    while p is not None:
        yield p
        p = getattr(p, "_p", None)


W = "widget/_urwid.py"
MUTANTS = [
    M("handover-none-when-queries-off", U, "_process_start_wrapper", "        else:\n            self._tty_lock = _tty_lock\n", "        else:\n            self._tty_lock = _tty_lock if _queries_enabled else None\n", {"L4"}),
    M("single-item-with", U, "lock_tty", "with _tty_lock, _tty_lock:", "with _tty_lock:", {"L1"}),
    M("captured-lock", U, "lock_tty", "    @wraps(func)\n    def lock_tty_wrapper", "    _tty_lock = globals()['_tty_lock']\n\n    @wraps(func)\n    def lock_tty_wrapper", {"L1"}),
    M("undecorate-write-tty", U, "write_tty", "@unix_tty_only\n@lock_tty\n", "@unix_tty_only\n", {"L2"}),
    M("rebind-outside-with", U, "_process_start_wrapper",
      "    with _tty_lock:\n        if isinstance(_tty_lock, _rlock_type):\n            try:\n                self._tty_lock = _tty_lock = mp_RLock()",
      "    if True:\n        if isinstance(_tty_lock, _rlock_type):\n            try:\n                self._tty_lock = _tty_lock = mp_RLock()", {"L3"}),
    M("drop-else-branch", U, "_process_start_wrapper", "        else:\n            self._tty_lock = _tty_lock\n", "", {"L4"}),
    M("plain-lock", U, None, "from threading import RLock\n", "from threading import Lock as RLock\n", {"L3"}),
    M("undecorate-screen-write", W, "UrwidImageScreen.write", "    @lock_tty\n    def write", "    def write", {"L5"}),
    M("fg-bg-single", U, "get_fg_bg_colors#3", "with _tty_lock, _tty_lock:", "with _tty_lock:", {"L1"}),
    M("new-writer", "__init__.py", "enable_queries", "        utils._queries_enabled = True\n", "        utils._queries_enabled = True\n        utils._tty_lock = utils.RLock()\n", {"L3"}),
    M("run-wrapper-no-install", U, "_process_run_wrapper", "        _tty_lock = self._tty_lock\n", "        pass\n", {"L4", "L3"}),
    M("drain-outside-lock", U, "get_terminal_name_version", "        if _queries_enabled:\n            read_tty()  # The rest of the response to DA1\n", "    if _queries_enabled:\n        read_tty()  # The rest of the response to DA1\n", {"L6"}),
    M("explicit-release", U, "write_tty", "    os.write(_tty_fd, data)\n", "    os.write(_tty_fd, data)\n    _tty_lock.release()\n", {"L3"}),
    M("mark-the-input", U, "no_redecorate", "            obj = decor(*args, **kwargs)\n            setattr(obj, f\"_{decor.__name__}_wrapped_\", ...)\n", "            setattr(obj, f\"_{decor.__name__}_wrapped_\", ...)\n            obj = decor(*args, **kwargs)\n", {"L5"}),
    M("twin-comment", U, "lock_tty", "            # logging.debug(f\"{func.__name__} acquired TTY lock\", stacklevel=3)\n", "", twin=True),
]
