"""C15 - cached terminal facts never outlive the condition they were computed under: invalidation obligations
(DESIGN.md 4, C15). Values after a resize history are runtime data and are not decided."""
from __future__ import annotations

import ast

from tiv.astutil import (value_cases, conds, body_walk, call_name, dotted, enclosing_stmt, guards, norm, short, stores_in, walk_local,
                         with_context)
from tiv.callgraph import CallGraph
from tiv.cfg import CFG, fmt_path
from tiv.mutate import M
from tiv.sem import trace

RULES = {
    "MEMO": "memo safety (shared, rules/common.py): a memoised function in this property's files (or called from them) is a function of its "
            "arguments only (no terminal/ambient/receiver state outside the key) and no caller mutates its result in place; the key under which utils.cached stores a result contains `args` and `kwargs.items()` (keyword values, not only names)",
    "R1": "every function that stores to utils._swap_win_size, or stores True to utils._queries_enabled, resets "
          "utils._cell_size_cache[:] to zeros inside `with utils._cell_size_lock` on every normal path after the store; the "
          "store of _queries_enabled=True precedes the invalidations (a concurrent reader must not re-fill a cache with a "
          "queries-disabled result after it was cleared); get_cell_size reads _swap_win_size only under _cell_size_lock",
    "R2": "every memo of a value derived from a terminal query (a function decorated with cached/terminal_size_cached, "
          "or a hand-rolled `if X is None: X = ...` memo, from which query_terminal is reachable in the call graph) is "
          "invalidated by enable_queries()",
    "R3": "the memo decorators are atomic: lookup, call of the wrapped function and store happen inside one `with lock` on "
          "an RLock created once per decorated function; invalidate takes the same lock; terminal_size_cached stores the "
          "terminal size it compared; every value stored by terminal_size_cached (into a variable or an entry) is the pair (value, the terminal size compared); the stamp is the library's get_terminal_size(); only utils.get_terminal_size calls shutil's",
    "R4": "get_cell_size: the cache key compared and the key stored are the same get_terminal_size() value read once under "
          "_cell_size_lock, and every path that computes a size reaches the store before returning (hit edges are recognised from the traced tests; every return reachable without a hit edge is dominated by the store)",
    "R5": "set_cell_ratio stores a number for FIXED/explicit ratios and None for DYNAMIC; get_cell_ratio returns the stored "
          "value if truthy and otherwise recomputes from get_cell_size(); _cell_ratio has no other writer",
}

U, I = "utils.py", "__init__.py"


def _is_cache_reset(st):
    """`utils._cell_size_cache[:] = (0,) * 4` (any all-zero constant sequence expression)."""
    if not isinstance(st, ast.Assign) or len(st.targets) != 1:
        return False
    t = st.targets[0]
    if not (isinstance(t, ast.Subscript) and (dotted(t.value) or "").split(".")[-1] == "_cell_size_cache" and isinstance(t.slice, ast.Slice)
            and t.slice.lower is None and t.slice.upper is None):
        return False
    try:
        v = eval(compile(ast.Expression(st.value), "<const>", "eval"), {"__builtins__": {}}, {})  # constant expression only
    except Exception:
        return False
    return isinstance(v, (tuple, list)) and len(v) == 4 and all(x == 0 for x in v)


def _under_lock(n, lock_last):
    return any(any((dotted(i.context_expr) or "").split(".")[-1] == lock_last for i in w.items) for w in with_context(n))


def run(ck, m):
    from rules.common import rule_memo_safety
    rule_memo_safety(ck, m, "MEMO", "C15")          # first: a memoised helper also hides the code it wraps from the rules below
    from rules.common import rule_memo_key
    rule_memo_key(ck, m, "MEMO")
    cg = CallGraph(m)
    # ---- R1 -----------------------------------------------------------------------------
    writers = []
    for rel, q, fn in m.functions():
        for t, st in stores_in(ast.Module(body=fn.body, type_ignores=[])):
            d = dotted(t) or ""
            last = d.split(".")[-1]
            if last == "_swap_win_size" and (d != last or _declares_global(fn, last)):
                writers.append((rel, q, fn, st, "swap"))
            elif last == "_queries_enabled" and (d != last or _declares_global(fn, last)):
                if isinstance(st, ast.Assign) and isinstance(st.value, ast.Constant) and st.value.value is False:
                    continue
                writers.append((rel, q, fn, st, "enable"))
    ck.expect(len(writers) >= 3, f"expected >= 3 writers of _swap_win_size/_queries_enabled(True), found {len(writers)}")
    for rel, q, fn, st, kind in writers:
        g = CFG(fn)
        snodes = g.nodes_of(st)
        ck.need(snodes, f"CFG node for {short(st)} not found")
        resets = [n for n in g.nodes if n.kind == "stmt" and _is_cache_reset(n.ast) and _under_lock(n.ast, "_cell_size_lock")]
        rids = {n.id for n in resets}
        p = g.search(snodes, lambda n: n is g.exit_return, avoid=lambda n: n.id in rids,
                     edge_ok=lambda s, lab, d: not lab.startswith("e:"))
        ck.ob("R1", st, p is None,
              f"`{short(st, 50)}` changes a setting the cell-size cache depends on, but a normal path to return does not reset "
              f"utils._cell_size_cache[:] under utils._cell_size_lock: the next get_cell_size() at an unchanged terminal size returns the stale value",
              stmt=f"{q}: {short(st, 60)} -> cache reset")
        if kind == "enable":
            inval = [n for n in g.nodes if n.kind == "stmt" and (n.id in rids or "_invalidate_cache" in norm(n.ast))]
            for n in inval:
                ok = g.dominated_by(n, lambda x: x in snodes)
                ck.ob("R1", n.ast, ok,
                      f"`{short(n.ast, 50)}` runs before queries are re-enabled: a concurrent call may re-fill the cache with a "
                      f"queries-disabled result that then survives", stmt=f"{q}: flag-before {short(n.ast, 70)}")
    # readers of _swap_win_size
    readers = {q for rel, q, fn in m.functions() for n in body_walk(fn)
               if isinstance(n, ast.Name) and n.id == "_swap_win_size" and isinstance(n.ctx, ast.Load)}
    ck.ob("R1", m.get(U, "get_cell_size"), readers == {"get_cell_size"},
          f"_swap_win_size is read by {sorted(readers)}; only get_cell_size (whose cache the toggles reset) may depend on it",
          stmt="readers of _swap_win_size")

    # ... and it is read under the lock the toggles take to reset the cache: a value read before waiting for the lock may be the one
    # from before a toggle (which flipped the flag and cleared the cache meanwhile) and would re-populate the cache for the old setting
    gcs0 = m.get(U, "get_cell_size")
    sw_reads = [n for n in body_walk(gcs0) if isinstance(n, ast.Name) and n.id == "_swap_win_size" and isinstance(n.ctx, ast.Load)]
    ck.expect(len(sw_reads) >= 1, "get_cell_size: no read of _swap_win_size found")
    for n in sw_reads:
        ck.ob("R1", enclosing_stmt(n), _under_lock(n, "_cell_size_lock"), "get_cell_size reads `_swap_win_size` outside `_cell_size_lock`: a toggle (flag flip + cache reset) can complete between this read and the "
              "cache store, which then records a cell size computed with the old setting", stmt="get_cell_size: _swap_win_size read under the cache lock")

    # ---- R2 -----------------------------------------------------------------------------
    enable = m.get(I, "enable_queries")
    enable_src = norm(enable)
    invalidated = set()
    for c in body_walk(enable):
        if isinstance(c, ast.Call) and call_name(c) == "getattr" and len(c.args) >= 2 and isinstance(c.args[1], ast.Constant) \
                and "invalidate" in str(c.args[1].value):
            invalidated.add((dotted(c.args[0]) or "").split(".")[-1])
        if isinstance(c, ast.Call) and "invalidate" in (call_name(c) or ""):
            parts = (call_name(c) or "").split(".")
            if len(parts) >= 2:
                invalidated.add(parts[-2])
    n_memo = 0
    for rel, q, fn in m.functions():
        decos = {(dotted(d) or "").split(".")[-1] for d in fn.decorator_list}
        if decos & {"cached", "terminal_size_cached"}:
            path = cg.reaches(fn, "query_terminal")
            if path:
                n_memo += 1
                ck.ob("R2", fn, fn.name in invalidated,
                      f"`{q}` memoizes a value derived from a terminal query ({' -> '.join(path)}) but enable_queries() does not "
                      f"invalidate it: a result obtained while queries were disabled is kept", stmt=f"memo @cached {rel}::{q}")
        # hand-rolled memo: a store to an attribute cell X that only runs while `X is None` (enclosing `if X is None:` or a guard clause
        # `if X is not None: return X`)
        seen_cells = set()
        for t, st in stores_in(ast.Module(body=fn.body, type_ignores=[])):
            if not isinstance(t, ast.Attribute):
                continue
            cell = norm(t)
            if cell in seen_cells or f"{cell} is None" not in conds(st):
                continue
            seen_cells.add(cell)
            path = cg.reaches(fn, "query_terminal")
            if not path:
                continue
            n_memo += 1
            attr = t.attr
            reset = any(isinstance(t2, ast.Attribute) and t2.attr == attr for t2, _ in stores_in(ast.Module(body=enable.body, type_ignores=[])))
            ck.ob("R2", st, reset,
                  f"`{cell}` memoizes a verdict derived from a terminal query ({' -> '.join(path)}) and enable_queries() does not "
                  f"reset it: a verdict computed while queries were disabled is permanent", stmt=f"memo {rel}::{q}: {cell}")
    ck.expect(n_memo >= 5, f"expected >= 5 query-derived memos (2 decorated + 3 hand-rolled), found {n_memo}")

    # ---- R3 -----------------------------------------------------------------------------
    # roles of the decorators' closure variables: `lock` = the name bound to RLock() in the decorator body, `cache` = the memo container
    # (the dict / None bound next to it) - renamed in the model's private copy so the rule text does not depend on their spelling
    from rules.common import memo_decorator_roles
    memo_decorator_roles(ck, m)
    cached = m.get(U, "cached")
    cw = m.get(U, "cached.cached_wrapper")
    inv = m.get(U, "cached.invalidate")
    lock_binds = [st for t, st in stores_in(ast.Module(body=cached.body, type_ignores=[])) if isinstance(t, ast.Name) and t.id == "lock"]
    ck.ob("R3", cached, len(lock_binds) == 1 and isinstance(lock_binds[0].value, ast.Call) and call_name(lock_binds[0].value) == "RLock",
          "`cached` must create exactly one RLock per decorated function (in the decorator body, not per call)", stmt="cached: lock = RLock()")
    for n in body_walk(cw):
        if isinstance(n, ast.Name) and n.id == "cache" or (isinstance(n, ast.Call) and call_name(n) == "func"):
            st = enclosing_stmt(n)
            ck.ob("R3", st, _under_lock(n, "lock"),
                  f"`{short(n, 40)}` in cached_wrapper happens outside `with lock`: two concurrent first calls can both miss and both run the body",
                  stmt=f"cached_wrapper: {short(n, 50)} under lock")
    # a miss inside the lock must be decided inside the lock: the call of func is in the handler of a lookup that is itself under the lock
    fcalls = [n for n in body_walk(cw) if isinstance(n, ast.Call) and call_name(n) == "func"]
    for fc in fcalls:
        w = [x for x in with_context(fc) if any(dotted(i.context_expr) == "lock" for i in x.items)]
        lookups = [s for s in walk_local(w[0]) if isinstance(s, ast.Subscript) and dotted(s.value) == "cache" and isinstance(s.ctx, ast.Load)] if w else []
        in_tests = [s for s in walk_local(w[0]) if isinstance(s, ast.Compare) and any(isinstance(o, (ast.In, ast.NotIn)) for o in s.ops)
                    and "cache" in norm(s)] if w else []
        ck.ob("R3", enclosing_stmt(fc), bool(lookups or in_tests),
              "the wrapped function is called under the lock without re-checking the cache under that same lock (double-checked miss)",
              stmt="cached_wrapper: lookup and call under the same lock")
    ck.ob("R3", inv, any(isinstance(s, ast.With) and any(dotted(i.context_expr) == "lock" for i in s.items) and "cache.clear()" in norm(s) for s in inv.body),
          "cached.invalidate must clear the cache under the same lock", stmt="cached.invalidate under lock")
    tsc = m.get(U, "terminal_size_cached")
    tw = m.get(U, "terminal_size_cached.terminal_size_cached_wrapper")
    lock_binds = [st for t, st in stores_in(ast.Module(body=tsc.body, type_ignores=[])) if isinstance(t, ast.Name) and t.id == "lock"]
    ck.ob("R3", tsc, len(lock_binds) == 1 and call_name(getattr(lock_binds[0], "value", None)) == "RLock", "terminal_size_cached: one RLock per decorated function",
          stmt="terminal_size_cached: lock = RLock()")
    n_ts_store = 0
    for n in body_walk(tw):
        if isinstance(n, ast.Call) and call_name(n) == "func":
            ck.ob("R3", enclosing_stmt(n), _under_lock(n, "lock"), "func() called outside the lock in terminal_size_cached_wrapper", stmt="ts_wrapper: func under lock")
        if isinstance(n, ast.Assign) and (any(isinstance(t, ast.Name) and t.id == "cache" for t in n.targets)
                                          or (any(isinstance(t, (ast.Subscript, ast.Attribute)) for t in n.targets)
                                              and any(isinstance(c_, ast.Call) and call_name(c_) == "func" for c_ in ast.walk(trace(tw, n.value, use=n))))):
            # (whatever it is stored into - a variable, an entry per argument tuple - every stored value carries the size it was computed under:
            # one stamp shared by several entries is refreshed by any of them and then vouches for all the others)
            n_ts_store += 1
            pair_ = n.value
            if isinstance(pair_, ast.Call) and isinstance(pair_.func, ast.Name) and len(pair_.args) == 2 and not pair_.keywords:
                # a two-field NamedTuple that did not exist in the baseline (`_Entry(value, size)`) is the pair with field names
                k_ = next((c_ for c_ in m.tree(U).body if isinstance(c_, ast.ClassDef) and c_.name == pair_.func.id and any("NamedTuple" in norm(b_) for b_ in c_.bases)), None)
                if k_ is not None and sum(1 for x_ in k_.body if isinstance(x_, ast.AnnAssign)) == 2:
                    pair_ = ast.copy_location(ast.Tuple(elts=list(pair_.args), ctx=ast.Load()), pair_)
            ok = _under_lock(n, "lock") and isinstance(pair_, ast.Tuple) and len(pair_.elts) == 2
            key = norm(pair_.elts[1]) if ok else None
            cmp_ok = ok and any(isinstance(c, ast.Compare) and key in [norm(c.left)] + [norm(x) for x in c.comparators] for c in body_walk(tw))
            bound_once = ok and sum(1 for t, _ in stores_in(ast.Module(body=tw.body, type_ignores=[])) if norm(t) == key) == 1
            ck.ob("R3", n, ok and cmp_ok and bound_once,
                  "terminal_size_cached must store, under the lock, the pair (value, terminal size) with the very terminal size it compared",
                  stmt="ts_wrapper: store (value, ts)")
            if ok:
                src_ = norm(trace(tw, pair_.elts[1], use=n))
                ck.ob("R3", n, src_ == "get_terminal_size()", f"the stamp of terminal_size_cached must be the library's `get_terminal_size()` (the size of the *active* terminal); it is `{src_[:60]}` - "
                      "another source (shutil's, which looks at stdout / COLUMNS / LINES) does not change when the active terminal is resized, so the memo is served for ever", stmt="ts_wrapper: stamp = get_terminal_size()")
    ck.expect(n_ts_store >= 1, "terminal_size_cached_wrapper: the statement that stores the computed value not recognised")

    for rel_, q_, fn_ in m.functions():
        for c_ in body_walk(fn_):
            if isinstance(c_, ast.Call) and isinstance(c_.func, ast.Name) and c_.func.id == "_get_terminal_size" and rel_ == U:
                ck.ob("R3", enclosing_stmt(c_), q_.split(".")[0] == "get_terminal_size", f"{q_} calls shutil's get_terminal_size (`_get_terminal_size`) directly: only utils.get_terminal_size may - every other "
                      "reader needs the size of the active terminal", stmt=f"{q_}: no direct use of shutil.get_terminal_size")
    # ---- R4 -----------------------------------------------------------------------------
    gcs = m.get(U, "get_cell_size")
    tsb = [st for t, st in stores_in(ast.Module(body=gcs.body, type_ignores=[])) if isinstance(t, ast.Name) and t.id == "terminal_size"]
    ck.ob("R4", gcs, len(tsb) == 1 and call_name(getattr(tsb[0], "value", None)) == "get_terminal_size" and _under_lock(tsb[0], "_cell_size_lock"),
          "get_cell_size must read the terminal size exactly once, under _cell_size_lock", stmt="get_cell_size: terminal_size read once under lock")
    stores = [n for n in body_walk(gcs) if isinstance(n, ast.Assign) and isinstance(n.targets[0], ast.Subscript)
              and dotted(n.targets[0].value) == "_cell_size_cache"]
    ck.ob("R4", gcs, len(stores) == 1 and norm(stores[0].value).startswith("terminal_size +") and _under_lock(stores[0], "_cell_size_lock"),
          "the cache store must record the compared terminal size: `_cell_size_cache[:] = terminal_size + cell_size` under the lock",
          stmt="get_cell_size: store keyed by terminal_size")
    cmps = [c for c in body_walk(gcs) if isinstance(c, ast.Compare) and "_cell_size_cache" in norm(c)]
    ck.ob("R4", gcs, len(cmps) == 1 and norm(cmps[0].left) == "terminal_size" and "_cell_size_cache[:2]" in norm(cmps[0]),
          "the cache-hit test must compare the terminal size read in this call with the stored key `_cell_size_cache[:2]`", stmt="get_cell_size: compare key")
    if stores and cmps:
        # every return that is not taken on a cache hit (its traced conditions do not include `terminal_size == stored key`) must come
        # after the cache store on every path
        from tiv.sem import _bool, tconds
        g = CFG(gcs)
        snode = g.nodes_of(stores[0])
        hit = _bool(ast.parse("terminal_size == tuple(_cell_size_cache[:2])", mode="eval").body)
        from tiv.sem import truth_nnf
        hit_edges = set()          # (test node, label) taken exactly when the stored key matched
        for tn in [n_ for n_ in g.nodes if n_.kind == "test" and n_.ast is not None]:
            tt = trace(gcs, tn.ast, keep=("terminal_size",))
            for lab, neg in (("true", False), ("false", True)):
                f_ = truth_nnf(tt, neg=neg)
                if any(_bool(v_) == hit for v_ in (f_.values if isinstance(f_, ast.BoolOp) and isinstance(f_.op, ast.And) else [f_])):
                    hit_edges.add((tn, lab))
        ck.expect(len(hit_edges) >= 1, "get_cell_size: no branch taken under the cache-hit condition recognised")
        for r in [x for x in body_walk(gcs) if isinstance(x, ast.Return)]:
            rn_ = g.nodes_of(r)
            p = g.search([g.entry], lambda x: x in rn_, avoid=lambda x: x in snode, from_succ=False,
                         edge_ok=lambda a, lab, d: not lab.startswith(("e:", "p:")) and (a, lab) not in hit_edges)
            ck.ob("R4", r, p is None,
                  f"a return of a freshly computed (or failed) cell size is reachable without updating the cache ({fmt_path(p) if p else ''}): the entry for an older terminal size is never evicted",
                  stmt="get_cell_size: every miss path stores before returning")

    # ---- R5 -----------------------------------------------------------------------------
    scr = m.get(I, "set_cell_ratio")
    gcr = m.get(I, "get_cell_ratio")
    wr = []
    for rel, _q, t, st in m.stores():

        if True:
            if (dotted(t) or "").split(".")[-1] == "_cell_ratio":
                wr.append((rel, getattr(st, "_q", "") or "<module>", st))
    for rel, q, st in wr:
        ck.ob("R5", st, rel == I and q in ("<module>", "set_cell_ratio"), f"`_cell_ratio` written in {rel}::{q}", stmt=f"writer {rel}::{q}: {short(st, 60)}")
    n_cases = 0
    for t, st in stores_in(ast.Module(body=scr.body, type_ignores=[])):
        if isinstance(t, ast.Name) and t.id == "_cell_ratio":
            for cs, v in value_cases(st):
                n_cases += 1
                auto = "isinstance(ratio, AutoCellRatio)" in cs
                fixed = auto and "ratio is AutoCellRatio.FIXED" in cs
                is_none = isinstance(v, ast.Constant) and v.value is None
                if fixed:
                    ck.ob("R5", st, not is_none and "get_cell_size()" in norm(trace(scr, v)), "FIXED must snapshot the ratio computed from get_cell_size() now", stmt="set_cell_ratio FIXED")
                elif auto:
                    ck.ob("R5", st, is_none, f"DYNAMIC must store None so that get_cell_ratio() recomputes on every call; stores `{short(v, 40)}`", stmt="set_cell_ratio DYNAMIC")
                else:
                    ck.ob("R5", st, norm(v) == "ratio", "an explicit ratio must be stored unchanged", stmt="set_cell_ratio explicit")
    ck.expect(n_cases == 3, f"set_cell_ratio: expected the 3 cases FIXED / DYNAMIC / explicit, found {n_cases}")
    ret = [s for s in body_walk(gcr) if isinstance(s, ast.Return)]
    ok = False
    if len(ret) == 1:
        rv_ = trace(gcr, ret[0].value)
        ok = isinstance(rv_, ast.BoolOp) and isinstance(rv_.op, ast.Or) and norm(rv_.values[0]) == "_cell_ratio" and "get_cell_size()" in norm(rv_.values[1])
    elif len(ret) == 2:
        from tiv.sem import econds
        forms = [(econds(gcr, r), norm(trace(gcr, r.value))) for r in ret]
        ok = any("_cell_ratio" in c and v == "_cell_ratio" for c, v in forms) and any("not _cell_ratio" in c and "get_cell_size()" in v for c, v in forms)
    ck.ob("R5", gcr, ok, "get_cell_ratio must return the stored ratio if set, else recompute from get_cell_size()", stmt="get_cell_ratio")
    ck.min_instances("R5", 5)
    ck.min_instances("R3", 8)

    # module-level state (hand-rolled memos included): which function may rebind which global of utils / the package root
    GLOBAL_WRITERS = {(U, "_cell_size_cache"): {"_process_run_wrapper", "_process_start_wrapper"}, (U, "_cell_size_lock"): {"_process_run_wrapper", "_process_start_wrapper"},
                      (U, "_tty_lock"): {"_process_run_wrapper", "_process_start_wrapper"}, (I, "_cell_ratio"): {"set_cell_ratio"}}
    for rel_, _q2, fn_ in m.functions():
        if rel_ not in (U, I) or not isinstance(fn_, ast.FunctionDef):
            continue
        if True:
            gl = {n_ for g_ in ast.walk(fn_) if isinstance(g_, ast.Global) for n_ in g_.names}
            for n_ in ast.walk(fn_):
                if isinstance(n_, ast.Name) and isinstance(n_.ctx, ast.Store) and n_.id in gl:
                    okw = fn_.name in GLOBAL_WRITERS.get((rel_, n_.id), set())
                    ck.ob("R2", enclosing_stmt(n_), okw, f"{fn_.name} rebinds the module global `{n_.id}` - process-wide state remembered between calls (a hand-rolled memo) that is keyed to nothing and that none of the "
                          "invalidation points (enable_queries, enable/disable_win_size_swap, a terminal resize) resets", stmt=f"module state writers: {rel_}::{n_.id} by {fn_.name}")

    REBOUND = {"_cell_size_cache", "_cell_size_lock", "_tty_lock"}
    for rel_ in m.files:
        if rel_ == U:
            continue
        for n_ in ast.walk(m.tree(rel_)):
            if isinstance(n_, ast.ImportFrom) and (n_.module or "").endswith("utils"):
                bad = [a_.name for a_ in n_.names if a_.name in REBOUND]
                ck.ob("R1", n_, not bad, f"{rel_} imports {bad} from utils by name: these module globals are REBOUND (to a shared Array / multiprocessing lock) when a subprocess is started, so a by-name "
                      "import keeps the orphaned old object - resetting or locking it no longer affects the live cache", stmt=f"{rel_}: rebinding utils globals only through the module ({', '.join(bad) or 'ok'})")


def _declares_global(fn, name):
    return any(isinstance(g, ast.Global) and name in g.names for g in ast.walk(fn))


def _anc(n):
    p = getattr(n, "_p", None)
    while p is not None:
        yield p
        p = getattr(p, "_p", None)


MUTANTS = [
    M("drop-reset-enable-swap", I, "enable_win_size_swap", "        with utils._cell_size_lock:\n            utils._cell_size_cache[:] = (0,) * 4\n", "", {"R1"}),
    M("reset-outside-lock", I, "disable_win_size_swap", "        with utils._cell_size_lock:\n            utils._cell_size_cache[:] = (0,) * 4\n",
      "        utils._cell_size_cache[:] = (0,) * 4\n", {"R1"}),
    M("drop-invalidate", I, "enable_queries", '        getattr(utils.get_fg_bg_colors, "_invalidate_cache")()\n', "", {"R2"}),
    M("new-cached-query-fn", "image/common.py", "TextImage._is_on_kitty", "    @staticmethod\n    def _is_on_kitty", "    @staticmethod\n    @no_redecorate\n    def _is_on_kitty", twin=True),
    M("recache-is-on-kitty", "image/common.py", None, "    @staticmethod\n    def _is_on_kitty() -> bool:", "    @staticmethod\n    @cached\n    def _is_on_kitty() -> bool:", {"R2"}),
    M("call-outside-lock", U, "cached",
      "        with lock:\n            try:\n                return cache[arguments]\n            except KeyError:\n                return cache.setdefault(arguments, func(*args, **kwargs))",
      "        with lock:\n            try:\n                return cache[arguments]\n            except KeyError:\n                pass\n        return cache.setdefault(arguments, func(*args, **kwargs))", {"R3"}),
    M("ts-store-other-key", U, "terminal_size_cached", "cache = (func(*args, **kwargs), ts)", "cache = (func(*args, **kwargs), get_terminal_size())", {"R3"}),
    M("dynamic-stores-ratio", I, "set_cell_ratio", "        else:\n            _cell_ratio = None", "        else:\n            _cell_ratio = truediv(*(get_cell_size() or (1, 2)))", {"R5"}),
    M("early-return-no-store", U, "get_cell_size", "        _cell_size_cache[:] = terminal_size + cell_size\n",
      "        if 0 in cell_size:\n            return None\n        _cell_size_cache[:] = terminal_size + cell_size\n", {"R4"}),
    M("flag-after-invalidate", I, "enable_queries",
      "        utils._queries_enabled = True\n        getattr(utils.get_fg_bg_colors, \"_invalidate_cache\")()\n        getattr(utils.get_terminal_name_version, \"_invalidate_cache\")()\n        with utils._cell_size_lock:\n            utils._cell_size_cache[:] = (0,) * 4\n",
      "        getattr(utils.get_fg_bg_colors, \"_invalidate_cache\")()\n        getattr(utils.get_terminal_name_version, \"_invalidate_cache\")()\n        with utils._cell_size_lock:\n            utils._cell_size_cache[:] = (0,) * 4\n        utils._queries_enabled = True\n", {"R1"}),
    M("memo-key-names-only", U, "cached", "arguments = (args, tuple(kwargs.items()))", "arguments = (args, tuple(sorted(kwargs)))", {"MEMO"}),
    M("stamp-from-shutil", U, "terminal_size_cached", "            ts = get_terminal_size()\n", "            ts = _get_terminal_size()\n", {"R3"}),
    M("twin-zero-list", I, "enable_win_size_swap", "utils._cell_size_cache[:] = (0,) * 4", "utils._cell_size_cache[:] = [0, 0, 0, 0]", twin=True),
]
