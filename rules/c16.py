"""C16 - render-argument sets obey their precedence, compatibility and immutability laws (DESIGN.md 4, C16).
Results for arbitrary class trees are metaclass execution (not decided); the laws that make them hold are effects
and agreements, decided here."""
from __future__ import annotations

import ast

from tiv.astutil import names_loaded, body_walk, call_name, conds, dotted, enclosing_stmt, guards, norm, short, stores_in, walk_local
from tiv.mutate import M

RULES = {
    "MEMO": "memo safety (shared, rules/common.py): a memoised function in this property's files (or called from them) is a function of its "
            "arguments only (no terminal/ambient/receiver state outside the key) and no caller mutates its result in place",
    "R1": "immutability is an effect property: outside constructors (__new__/__init__/__init_subclass__) no method of RenderArgs, "
          "ArgsNamespace, Frame, AlignedPadding, ExactPadding stores to an attribute/item of self, a parameter or a class, and no method "
          "calls a mutator (update/setdefault/pop/clear/append/__setitem__ as a statement) on a container that is not fresh in that method; update() returns self by what was given (no field / namespace), never under an equality comparison of values",
    "R2": "shared default tables are read-only: every binding of _ALL_DEFAULT_ARGS, _RENDER_DATA_MRO, _FIELDS and _namespaces is a "
          "MappingProxyType(...) over a mapping built for that binding; RenderArgs.__init__ works on a .copy() of the class defaults",
    "R3": "the interning shortcut cannot re-initialise a shared object: the single mutating statement of RenderArgs.__init__ is dominated by "
          "both early returns, and the 'default namespaces only' condition of __new__ and __init__ is the same expression modulo cls <-> type(self); the render class of a *set* of render arguments (`<x>.render_cls`) is never looked up in a namespace table (_namespaces, _ALL_DEFAULT_ARGS)",
    "R4": "precedence is the order of three writes in __init__: class defaults (canonical order) first, then a non-default initial set, then "
          "each namespace in argument order (last wins) after its compatibility test; __new__ rejects an incompatible initial set before any return",
    "R5": "eq/hash agree: every cell read by __hash__ is compared by __eq__ (ArgsNamespace and RenderArgs); __hash__ contains no identity test (`is`, id()) while __eq__ compares by value",
    "R7": "derived sets carry what they were derived from: RenderArgs.update returns RenderArgs(self.render_cls, self, <all given namespaces, unfiltered>), "
          "RenderArgs.convert returns self only for the same class and otherwise a RenderArgs built from self's namespaces, ArgsNamespace.to_render_args returns "
          "RenderArgs(<class>, self) - no shortcut bypasses the constructor's precedence and compatibility rules; convert returns a set only on a path where issubclass between the two render classes holds",
    "R6": "namespace-class rules are enforced before the class exists: the metaclass raises precede super().__new__; association writes are "
          "preceded by the already-associated test; unknown fields are rejected before any store",
}
TY, RN, PD = "renderable/_types.py", "renderable/_renderable.py", "padding.py"
CTORS = {"__new__", "__init__", "__init_subclass__", "__post_init__"}
MUTATORS = {"update", "setdefault", "pop", "popitem", "clear", "append", "extend", "insert", "remove", "add", "discard", "__setitem__", "__delitem__", "sort", "reverse"}
FRESH_CALLS = {"dict", "list", "set", "copy", "as_dict", "__new__", "tuple", "sorted", "fromkeys", "deepcopy"}


def _fresh_locals(fn):
    fresh = {}
    params = {a.arg for a in fn.args.posonlyargs + fn.args.args + fn.args.kwonlyargs}
    if fn.args.vararg:
        params.add(fn.args.vararg.arg)
    if fn.args.kwarg:
        params.add(fn.args.kwarg.arg)
    aliases = {}
    for t, st in stores_in(ast.Module(body=fn.body, type_ignores=[])):
        if isinstance(t, ast.Name) and isinstance(st, (ast.Assign, ast.AnnAssign)) and st.value is not None:
            v = st.value
            ok = isinstance(v, (ast.Dict, ast.List, ast.Set, ast.DictComp, ast.ListComp, ast.SetComp)) or (
                isinstance(v, ast.Call) and (call_name(v) or "").split(".")[-1] in FRESH_CALLS) or (
                isinstance(v, ast.Call) and isinstance(v.func, ast.Attribute) and v.func.attr == "__new__")
            if not ok and isinstance(v, ast.Name) and v.id != t.id:
                aliases.setdefault(t.id, set()).add(v.id)       # `x = y`: as fresh as y (decided below)
                fresh.setdefault(t.id, True)
                continue
            fresh[t.id] = fresh.get(t.id, True) and ok
    # a local bound to another local of this function that only ever holds objects built here is as fresh as that one
    changed = True
    while changed:
        changed = False
        for k, srcs in aliases.items():
            if fresh.get(k) and not all(fresh.get(s_) and s_ not in params for s_ in srcs):
                fresh[k] = False
                changed = True
    return {k for k, v in fresh.items() if v and k not in params}, params


def _base_name(e):
    while isinstance(e, (ast.Attribute, ast.Subscript)):
        e = e.value
    if isinstance(e, ast.Call) and call_name(e) == "type" and e.args:
        return "type(" + (_base_name(e.args[0]) or "?") + ")"
    if isinstance(e, ast.Call) and call_name(e) == "super":
        return "super()"
    return e.id if isinstance(e, ast.Name) else None


def run(ck, m):
    from rules.common import rule_memo_safety
    rule_memo_safety(ck, m, "MEMO", "C16")          # first: a memoised helper also hides the code it wraps from the rules below
    # ---- R1 ----------------------------------------------------------------------------
    n1 = 0
    for rel, cname in ((TY, "RenderArgs"), (TY, "ArgsNamespace"), (TY, "Frame"), (PD, "AlignedPadding"), (PD, "ExactPadding"), (PD, "Padding")):
        cls = m.get(rel, cname)
        for fn in cls.body:
            if not isinstance(fn, ast.FunctionDef) or fn.name in CTORS:
                continue
            n1 += 1
            fresh, params = _fresh_locals(fn)
            bad = []
            for t, st in stores_in(ast.Module(body=fn.body, type_ignores=[])):
                if isinstance(t, (ast.Attribute, ast.Subscript)):
                    b = _base_name(t)
                    if b is None or b in fresh:
                        continue
                    bad.append(f"store `{short(st, 60)}`")
            for c in body_walk(fn):
                if isinstance(c, ast.Call) and isinstance(c.func, ast.Attribute) and c.func.attr in MUTATORS:
                    is_stmt = isinstance(c._p, ast.Expr)
                    b = _base_name(c.func.value)
                    if is_stmt and (b is None or b not in fresh):
                        bad.append(f"mutator `{short(c, 60)}` on a container that is not fresh here")
                if isinstance(c, ast.Call) and call_name(c) in ("setattr", "delattr", "object.__setattr__"):
                    tgt = c.args[0] if c.args else None
                    if _base_name(tgt) not in fresh:
                        bad.append(f"`{short(c, 60)}`")
                if isinstance(c, ast.Call) and isinstance(c.func, ast.Attribute) and c.func.attr in ("__init__", "__setattr__") and _base_name(c.func.value) == "super()":
                    # super(X, obj).__init__(...) re-initialises obj: only allowed on a fresh object
                    sup = c.func.value
                    obj = sup.args[1] if isinstance(sup, ast.Call) and len(sup.args) == 2 else None
                    if obj is None or _base_name(obj) not in fresh:
                        bad.append(f"`{short(c, 60)}` (re)initialises an existing object")
            if fn.name == "__setattr__":
                bad = [b for b in bad if "raise" not in b]
            ck.ob("R1", fn, not bad, f"{cname}.{fn.name} is not a pure method of an immutable class: {bad}", stmt=f"{cname}.{fn.name}: no mutation of existing objects")
            # methods that derive a new object return self or a constructor result
            if cname in ("RenderArgs", "ArgsNamespace") and fn.name in ("update", "convert", "__or__", "__ror__", "__pos__", "to_render_args"):
                for r in body_walk(fn):
                    if isinstance(r, ast.Return) and r.value is not None:
                        def _ok_ret(v):
                            if isinstance(v, ast.IfExp):
                                return _ok_ret(v.body) and _ok_ret(v.orelse)
                            return norm(v) in ("self", "NotImplemented") or (isinstance(v, ast.Call) and (call_name(v) or "").split(".")[-1] in ("RenderArgs", "__or__")) or (
                                isinstance(v, ast.Name) and v.id in fresh)
                        v = r.value
                        ok = _ok_ret(v)
                        ck.ob("R1", r, ok, f"{cname}.{fn.name} must return self (no change) or a newly constructed object; returns `{short(v, 50)}`", stmt=f"{cname}.{fn.name}: {short(r, 70)}")
            # "nothing changed" is decided by what was GIVEN (no field, no namespace), never by comparing the given values with the current ones: equality is
            # not identity (True == 1 == 1.0, 0.0 == False, equal containers are distinct objects) - an update that is skipped because the values compare equal leaves
            # a field holding an object of another type / identity than the one just given
            if cname in ("RenderArgs", "ArgsNamespace") and fn.name == "update":
                from tiv.astutil import guards as _guards
                from tiv.sem import trace as _trace
                for r in body_walk(fn):
                    if isinstance(r, ast.Return) and r.value is not None and norm(r.value) == "self":
                        cmp_ = [t_ for t_, _b in _guards(r) for x in ast.walk(_trace(fn, t_)) if isinstance(x, ast.Compare) and any(isinstance(o, (ast.Eq, ast.NotEq)) for o in x.ops)
                                and not any(isinstance(c_, ast.Constant) and isinstance(c_.value, int) for c_ in [x.left] + x.comparators)]
                        ck.ob("R1", r, not cmp_, f"{cname}.update returns self under a comparison of values (`{short(cmp_[0], 70) if cmp_ else ''}`): values that compare equal are not the same value "
                              "(True == 1, 0.0 == False, an equal but distinct list): the field keeps the old object although another one was given", stmt=f"{cname}.update: `return self` decided by what was given, not by ==")
    ck.expect(n1 >= 25, f"expected >= 25 non-constructor methods of the immutable classes, found {n1}")
    # __setattr__ of ArgsNamespace always raises
    sa = m.get(TY, "ArgsNamespace.__setattr__")
    ck.ob("R1", sa, len(sa.body) >= 1 and isinstance([s for s in sa.body if not isinstance(s, ast.Expr)][0], ast.Raise), "ArgsNamespace.__setattr__ must unconditionally raise", stmt="ArgsNamespace.__setattr__ raises")
    for rel, cname in ((PD, "AlignedPadding"), (PD, "ExactPadding")):
        c = m.get(rel, cname)
        ok = any(isinstance(d, ast.Call) and call_name(d) == "dataclass" and any(k.arg == "frozen" and getattr(k.value, "value", None) is True for k in d.keywords) for d in c.decorator_list)
        ck.ob("R1", c, ok, f"{cname} must be a frozen dataclass", stmt=f"{cname}: @dataclass(frozen=True)")

    # ---- R2 ----------------------------------------------------------------------------
    TABLES = {"_ALL_DEFAULT_ARGS", "_RENDER_DATA_MRO", "_FIELDS", "_namespaces"}
    n2 = 0
    for rel in (TY, RN, "render/_iterator.py"):
        for _r, _q, t, st in m.stores(rel):
            name = None
            if isinstance(t, ast.Attribute) and t.attr in TABLES:
                name = t.attr
            elif isinstance(t, ast.Subscript) and isinstance(t.slice, ast.Constant) and t.slice.value in TABLES:
                name = t.slice.value
            elif isinstance(t, ast.Name) and t.id in TABLES and isinstance(st, (ast.Assign, ast.AnnAssign)) and getattr(st, "value", None) is not None:
                name = t.id
            if name is None or isinstance(st, ast.Delete) or getattr(st, "value", None) is None:
                continue
            n2 += 1
            v = st.value
            ok = isinstance(v, ast.Call) and call_name(v) == "MappingProxyType" and len(v.args) == 1
            ck.ob("R2", st, ok, f"`{short(st, 70)}` binds {name} to something other than a MappingProxyType: the shared table becomes mutable", stmt=f"{getattr(st, '_q', '')}: {short(st, 80)}")
            if ok:
                a = v.args[0]
                fn = None
                q = getattr(st, "_q", "")
                fresh_here = set()
                if q and isinstance(m.file(rel).defs.get(q), ast.FunctionDef):
                    fresh_here, _ = _fresh_locals(m.file(rel).defs[q])
                built = isinstance(a, (ast.Dict, ast.DictComp)) or (isinstance(a, ast.Call) and (call_name(a) or "").split(".")[-1] in FRESH_CALLS) or (
                    isinstance(a, ast.Name) and (a.id in fresh_here or a.id == "namespaces"))
                ck.ob("R2", st, built, f"the mapping wrapped for {name} (`{short(a, 40)}`) is not built for this binding; aliasing an existing dict lets later writes show through the proxy",
                      stmt=f"{q}: proxy over a fresh mapping: {short(a, 50)}")
    ck.expect(n2 >= 8, f"expected >= 8 bindings of the shared tables, found {n2}")
    init = m.get(TY, "RenderArgs.__init__")
    sup_calls = [c for c in body_walk(init) if isinstance(c, ast.Call) and norm(c.func) == "super().__init__" and len(c.args) == 2 and isinstance(c.args[1], ast.Name)]
    ck.need(len(sup_calls) == 1, "RenderArgs.__init__: `super().__init__(render_cls, <dict>)` not found")
    DV = sup_calls[0].args[1].id
    nd = [st for t, st in stores_in(ast.Module(body=init.body, type_ignores=[])) if isinstance(t, ast.Name) and t.id == DV]
    ck.ob("R2", nd[0] if nd else init, len(nd) == 1 and norm(nd[0].value) == "render_cls._ALL_DEFAULT_ARGS.copy()",
          "RenderArgs.__init__ must start from a copy of the class's default table (`render_cls._ALL_DEFAULT_ARGS.copy()`): canonical order, and the shared table is never written",
          stmt="RenderArgs.__init__: <dict> = render_cls._ALL_DEFAULT_ARGS.copy()")

    # ---- R3 ----------------------------------------------------------------------------
    new = m.get(TY, "RenderArgs.__new__")
    mut = [c for c in body_walk(init) if isinstance(c, ast.Call) and norm(c.func) == "super().__init__"]
    ck.need(len(mut) == 1, "RenderArgs.__init__: the super().__init__ call not found")
    mline = mut[0].lineno
    ret_interned = [s for s in body_walk(init) if isinstance(s, ast.Return) and any("_interned" in norm(t) and b for t, b in guards(s))]
    ret_self = [s for s in init.body if isinstance(s, ast.If) and norm(s.test) == "init_render_args is self" and isinstance(s.body[0], ast.Return)]
    ck.ob("R3", init, len(ret_interned) == 1 and ret_interned[0].lineno < mline, "the early return for an already initialised interned default must precede the (re)initialisation", stmt="RenderArgs.__init__: return if already interned")
    ck.ob("R3", init, len(ret_self) == 1 and ret_self[0].lineno < mline, "the early return for `init_render_args is self` (object returned by __new__) must precede the (re)initialisation", stmt="RenderArgs.__init__: return if init_render_args is self")
    # the 'default namespaces only' situation must be the same in __new__ (where the interned object is returned) and in __init__
    # (where its re-initialisation is skipped): compared as the traced conjuncts (tiv.sem.tconds) that mention namespaces / init_render_args
    from tiv.sem import _bool, tconds, trace as _trace
    ret_new = [s_ for s_ in body_walk(new) if isinstance(s_, ast.Return) and s_.value is not None and "_interned" in norm(_trace(new, s_.value)) and "init_render_args" not in norm(_trace(new, s_.value))]
    ck.need(len(ret_new) == 1 and len(ret_interned) == 1, "default-only conditions of __new__/__init__ not recognised")

    def default_only(fn, node):
        out = set()
        for l_ in tconds(fn, node, keep=("namespaces", "init_render_args", "render_cls")):
            if "namespaces" in l_ or "init_render_args" in l_:
                out.add(_bool(ast.parse(l_.replace("type(self)", "cls"), mode="eval").body))
        return out
    dn, di = default_only(new, ret_new[0]), default_only(init, ret_interned[0])
    # what __new__ knows only because it validated its arguments first (`if <bad>: raise`) is not part of the situation test
    from tiv.sem import truth_nnf
    KEEPN = ("namespaces", "init_render_args", "render_cls")
    for s_ in new.body:
        if isinstance(s_, ast.If) and s_.body and isinstance(s_.body[-1], ast.Raise) and not s_.orelse:
            f_ = truth_nnf(_trace(new, s_.test, keep=KEEPN), neg=True)
            for v_ in (f_.values if isinstance(f_, ast.BoolOp) and isinstance(f_.op, ast.And) else [f_]):
                dn.discard(_bool(v_))
    ck.expect(len(dn) >= 2, f"RenderArgs.__new__: default-only conditions recognised: {len(dn)}")
    ck.ob("R3", ret_new[0], dn == di,
          f"the 'default namespaces only' test differs between __new__ and __init__ ({len(dn ^ di)} differing condition(s)): an object returned from the intern table by "
          f"__new__ would be re-initialised by __init__ (or vice versa)", stmt="RenderArgs: default-only condition of __new__ == __init__")

    # ---- R4 ----------------------------------------------------------------------------
    upd = [c for c in body_walk(init) if isinstance(c, ast.Call) and norm(c.func) == f"{DV}.update"]
    loop = next((s for s in init.body if isinstance(s, ast.For) and "namespaces" in norm(s.iter)), None)
    ck.need(loop is not None, "RenderArgs.__init__: loop over namespaces not found")
    ck.ob("R4", init, len(upd) == 1 and norm(upd[0].args[0]) == "init_render_args._namespaces" and (nd and nd[0].lineno < upd[0].lineno < loop.lineno),
          "the initial set's namespaces must be written after the defaults and before the explicit namespaces", stmt="RenderArgs.__init__: defaults < initial set < namespaces")
    ck.ob("R4", loop, norm(loop.iter) in ("enumerate(namespaces)", "namespaces"), f"namespaces must be applied in argument order (last wins); found `{norm(loop.iter)}`", stmt="RenderArgs.__init__: argument order")
    test = next((s for s in loop.body if isinstance(s, ast.If) and any(isinstance(x, ast.Raise) for x in s.body)), None)
    # (keys compared as traced expressions: the namespace's render class may be held in a loop local)
    write = next((s for s in loop.body if isinstance(s, ast.Assign) and isinstance(s.targets[0], ast.Subscript) and norm(s.targets[0].value) == DV
                  and norm(_trace(init, s.targets[0].slice, keep=(DV, "namespace"))) == "namespace._RENDER_CLS"), None)
    ck.ob("R4", loop, test is not None and write is not None and test.lineno < write.lineno and norm(_trace(init, test.test, keep=(DV, "namespace"))) == f"namespace._RENDER_CLS not in {DV}"
          and "IncompatibleArgsNamespaceError" in norm(test.body[0]) and norm(write.value) == "namespace",
          "each namespace must be tested for compatibility (its render class is a key of the dict) before it is written, raising IncompatibleArgsNamespaceError", stmt="RenderArgs.__init__: compatibility test before write")
    inc = next((s for s in new.body if isinstance(s, ast.If) and any(isinstance(x, ast.Raise) and "IncompatibleRenderArgsError" in norm(x) for x in s.body)), None)
    first_ret = min([r.lineno for r in body_walk(new) if isinstance(r, ast.Return)] or [0])
    ck.ob("R4", new, inc is not None and inc.lineno < first_ret and "not issubclass(render_cls, init_render_args.render_cls)" in norm(inc.test),
          "__new__ must reject an initial set of an unrelated/descendant class before any return", stmt="RenderArgs.__new__: incompatible initial set rejected first")

    # ---- R5 ----------------------------------------------------------------------------
    def cells(fn):
        out = set()
        for n in body_walk(fn):
            if isinstance(n, ast.Attribute) and isinstance(n.ctx, ast.Load):
                d = dotted(n)
                if d and d.startswith(("self.", "type(self).")):
                    out.add(".".join(d.split(".")[:2]))
            if isinstance(n, ast.Call) and call_name(n) == "type" and n.args and norm(n.args[0]) == "self" and not isinstance(n._p, ast.Attribute):
                out.add("type(self)")
            if isinstance(n, ast.Call) and call_name(n) == "getattr" and n.args and norm(n.args[0]) == "self":
                out.add("getattr(self, <field of _FIELDS>)")
        return out
    for cname in ("ArgsNamespace", "RenderArgs"):
        h, e = cells(m.get(TY, f"{cname}.__hash__")), cells(m.get(TY, f"{cname}.__eq__"))
        ck.ob("R5", m.get(TY, f"{cname}.__hash__"), bool(h) and h <= e, f"{cname}.__hash__ reads {sorted(h - e)} which __eq__ does not compare: equal objects can hash differently", stmt=f"{cname}: hash cells subset of eq cells")

        # equality is by value: a hash that depends on object identity (`is`, id()) separates objects that compare equal
        hfn = m.get(TY, f"{cname}.__hash__")
        ident = [x for x in body_walk(hfn) if (isinstance(x, ast.Compare) and any(isinstance(o, (ast.Is, ast.IsNot)) for o in x.ops) and not any(isinstance(c_, ast.Constant) and c_.value is None for c_ in [x.left] + x.comparators))
                 or (isinstance(x, ast.Call) and call_name(x) == "id")]
        ck.ob("R5", enclosing_stmt(ident[0]) if ident else hfn, not ident, f"{cname}.__hash__ depends on object identity (`{short(ident[0], 50) if ident else ''}`) while __eq__ compares by value: an equal object that is "
              "not the very same one hashes differently (dict / set lookups with equal keys fail)", stmt=f"{cname}: __hash__ does not test identity")

    # the render class of a *set* of render arguments may own no namespace class: whether it is compatible with another class is a question for the
    # class hierarchy (issubclass); the namespace tables (`_namespaces`, `_ALL_DEFAULT_ARGS`) list only the classes that own one
    n_tbl = 0
    for rel_, q_, fn_ in m.functions():
        if rel_ != TY:
            continue
        for x in body_walk(fn_):
            if isinstance(x, ast.Compare) and len(x.ops) == 1 and isinstance(x.ops[0], (ast.In, ast.NotIn)):
                rt = norm(_trace(fn_, x.comparators[0], use=x))
                lt = _trace(fn_, x.left, use=x)
                if "._ALL_DEFAULT_ARGS" in rt or "._namespaces" in rt:
                    n_tbl += 1
                    set_cls = isinstance(lt, ast.Attribute) and lt.attr == "render_cls"
                    ck.ob("R3", enclosing_stmt(x), not set_cls, f"{q_}: `{short(x, 60)}` looks the render class of a set of render arguments up in a namespace table: a class without render arguments of its own is in no such "
                          "table although it is a perfectly good ancestor - compatibility of render classes is decided with issubclass()", stmt=f"{q_}: set render class not looked up in a namespace table: {short(x, 40)}")
    ck.extra["namespace_table_tests"] = n_tbl

    # ---- R7: derived sets carry everything they were derived from ---------------------------------
    # update(), convert() and to_render_args() build their result with the RenderArgs constructor (whose precedence rules R4 checks) from
    # *all* their inputs: `self` (or the namespaces selected from it) is always among the constructor's arguments, the given
    # namespaces are passed on unfiltered, and there is no shortcut that returns something else.
    def ctor_returns(fn):
        out = []
        for r in body_walk(fn):
            if isinstance(r, ast.Return) and r.value is not None:
                out.append((r, _trace(fn, r.value, keep=("namespaces", "render_cls", "fields", "render_cls_or_namespace"))))
        return out
    upd_fn = m.variants(TY, "RenderArgs.update")[-1]
    n7 = 0
    def _branches(e):
        return _branches(e.body) + _branches(e.orelse) if isinstance(e, ast.IfExp) else [e]
    for r, v0 in ctor_returns(upd_fn):
      for v in _branches(v0):
        n7 += 1
        ok7 = isinstance(v, ast.Call) and norm(v.func) == "RenderArgs" and len(v.args) >= 2 and norm(v.args[0]) == "self.render_cls" and norm(v.args[1]) == "self" \
            and not any(isinstance(x, (ast.ListComp, ast.GeneratorExp, ast.SetComp)) or (isinstance(x, ast.Call) and norm(x.func) in ("filter", "set", "frozenset", "sorted", "reversed", "dict.fromkeys")) \
                        or (isinstance(x, ast.Subscript) and isinstance(x.slice, ast.Slice) and "namespaces" in names_loaded(x.value)) for a_ in v.args[2:] for x in ast.walk(a_))
        ck.ob("R7", r, ok7, f"RenderArgs.update must return RenderArgs(self.render_cls, self, <every given namespace, in order>); found `{short(v, 80)}` - a filtered or short-cut result loses "
                "last-given precedence (an earlier duplicate wins once the later, 'unchanged' one is dropped)", stmt="RenderArgs.update: constructor with self and all namespaces")
    conv = m.get(TY, "RenderArgs.convert")
    for r, v in ctor_returns(conv):
        if norm(v) == "self":
            ck.ob("R7", r, "render_cls is self.render_cls" in conds(r), "RenderArgs.convert may return `self` only for its own render class", stmt="RenderArgs.convert: self only for the same class")
            continue
        n7 += 1
        def from_self(e, seen=None):
            """`self` is in the backward slice of e: through local bindings, loop targets and what is appended to local containers."""
            seen = set() if seen is None else seen
            for n_ in ast.walk(e):
                if isinstance(n_, ast.Name):
                    if n_.id == "self":
                        return True
                    if n_.id in seen:
                        continue
                    seen.add(n_.id)
                    for x in body_walk(conv):
                        srcs = []
                        if isinstance(x, (ast.Assign, ast.AnnAssign)) and getattr(x, "value", None) is not None and any(isinstance(t_, ast.Name) and t_.id == n_.id for t_ in ast.walk(x.targets[0] if isinstance(x, ast.Assign) else x.target)):
                            srcs.append(x.value)
                        if isinstance(x, ast.For) and any(isinstance(t_, ast.Name) and t_.id == n_.id for t_ in ast.walk(x.target)):
                            srcs.append(x.iter)
                        if isinstance(x, ast.Call) and isinstance(x.func, ast.Attribute) and isinstance(x.func.value, ast.Name) and x.func.value.id == n_.id and x.func.attr in ("append", "extend", "add", "update", "insert"):
                            srcs.extend(x.args)
                        if any(from_self(s_, seen) for s_ in srcs):
                            return True
            return False
        # whether the two render classes are related is a question for the class hierarchy: every converted set is returned under an `issubclass` test that
        # holds (sharing a namespace with the target only says the two classes have a common ancestor - siblings and cousins do too)
        from tiv.sem import tconds as _tc7
        rel7 = [c_ for c_ in _tc7(conv, r, keep=("render_cls",)) if c_.replace(" ", "") in ("issubclass(render_cls,self.render_cls)", "issubclass(self.render_cls,render_cls)")]
        ck.ob("R7", r, bool(rel7), f"RenderArgs.convert returns `{short(v, 60)}` without `issubclass(...)` between the two render classes being known to hold on that path: "
              "a target that is neither parent nor child (a sibling sharing an ancestor's namespace) is accepted instead of raising ValueError", stmt="RenderArgs.convert: result only for a parent or child (issubclass holds)")
        carries = isinstance(v, ast.Call) and norm(v.func) == "RenderArgs" and len(v.args) >= 2 and any(from_self(a_) for a_ in v.args[1:])
        ck.ob("R7", r, carries, f"RenderArgs.convert must build its result from this set's namespaces (`RenderArgs(render_cls, self)` / the namespaces of the common classes); found `{short(v, 70)}` - "
              "the values held for ancestor classes are lost", stmt="RenderArgs.convert: result carries self's namespaces")
    tra = m.get(TY, "ArgsNamespace.to_render_args")
    for r, v in ctor_returns(tra):
        n7 += 1
        ck.ob("R7", r, isinstance(v, ast.Call) and norm(v.func) == "RenderArgs" and len(v.args) == 2 and norm(v.args[1]) == "self",
              f"ArgsNamespace.to_render_args must return RenderArgs(<class>, self) (the constructor validates compatibility); found `{short(v, 70)}`", stmt="ArgsNamespace.to_render_args: RenderArgs(cls, self)")
    ck.expect(n7 >= 4, f"derived-set constructors found: {n7}")

    # ---- R6 ----------------------------------------------------------------------------
    for q, exc in (("ArgsDataNamespaceMeta.__new__", "RenderArgsDataError"), ("ArgsNamespaceMeta.__new__", "RenderArgsError")):
        fn = m.get(TY, q)
        sup = [c for c in body_walk(fn) if isinstance(c, ast.Call) and norm(c.func) == "super().__new__"]
        ck.need(len(sup) >= 1, f"{q}: super().__new__ not found")
        rs = [r for r in body_walk(fn) if isinstance(r, ast.Raise) and r.exc is not None and exc in norm(r.exc)]
        # "after creation" = reachable from a statement that calls super().__new__ (a base-case early return may create the class elsewhere)
        from tiv.cfg import CFG as _CFG
        g_ = _CFG(fn)
        sup_nodes = [n_ for n_ in g_.nodes if n_.ast is not None and n_.kind in ("stmt", "test") and any(c_ in sup for c_ in ast.walk(n_.ast))]
        def _after(r_):
            rn_ = g_.nodes_of(r_)
            return g_.search(sup_nodes, lambda x: x in rn_, edge_ok=lambda a, lab, d: not lab.startswith(("e:", "p:"))) is not None
        post = [r for r in rs if _after(r)]
        pre = [r for r in rs if r not in post]
        # raises after creation are only allowed if they guard an association write that follows them
        bad_post = [r for r in post if "already has" not in norm(r)]
        ck.ob("R6", fn, bool(pre) and not bad_post, f"{q}: rule violations must be raised before the class object is created ({[short(r, 50) for r in bad_post]} come after super().__new__)",
              stmt=f"{q}: {exc} raises precede class creation")
        ck.extra.setdefault("metaclass_raises", {})[q] = len(rs)
    adn = m.get(TY, "ArgsDataNamespaceMeta.__new__")
    msgs = " ".join(norm(r) for r in body_walk(adn) if isinstance(r, ast.Raise))
    for frag in ("Multiple base classes", "Cannot both inherit and define fields", "Cannot reassociate", "has no fields", "Unassociated namespace class with fields"):
        ck.ob("R6", adn, frag in msgs, f"ArgsDataNamespaceMeta.__new__ no longer rejects: {frag}", stmt=f"namespace rule: {frag}")
    for q, attr in (("ArgsNamespaceMeta.__new__", "Args"), ("DataNamespaceMeta.__new__", "_Data_")):
        fn = m.get(TY, q)
        w = [st for t, st in stores_in(ast.Module(body=fn.body, type_ignores=[])) if norm(t) == f"render_cls.{attr}"]
        t_ = [s for s in body_walk(fn) if isinstance(s, ast.If) and norm(s.test) == f"render_cls.{attr}" and isinstance(s.body[0], ast.Raise)]
        ck.ob("R6", fn, len(w) == 1 and len(t_) == 1 and t_[0].lineno < w[0].lineno, f"{q}: re-association must be rejected before `render_cls.{attr}` is written", stmt=f"{q}: already-associated test before write")
    for q, exc in (("ArgsNamespace.__getattr__", "UnknownArgsFieldError"), ("ArgsNamespace.__setattr__", "AttributeError"), ("DataNamespace.__getattr__", "UnknownDataFieldError")):
        fn = m.get(TY, q)
        ck.ob("R6", fn, any(isinstance(r, ast.Raise) and exc in norm(r) for r in body_walk(fn)), f"{q} must raise {exc}", stmt=f"{q} raises {exc}")
    for q, first_effect in (("ArgsNamespace.update", "__new__"), ("ArgsNamespace.__init__", "super().__init__")):
        fn = m.get(TY, q)
        r = [x for x in body_walk(fn) if isinstance(x, ast.Raise) and "UnknownArgsFieldError" in norm(x)]
        eff = [c for c in body_walk(fn) if isinstance(c, ast.Call) and first_effect in norm(c.func)]
        ck.ob("R6", fn, bool(r) and bool(eff) and r[0].lineno < eff[0].lineno, f"{q}: unknown fields must be rejected before the new object is built", stmt=f"{q}: unknown fields rejected first")

    # the metaclass collects defaults / data namespaces from EVERY render class in the MRO: the walk may skip, never stop
    for rel_, q_, fn_ in m.functions():
        if not (q_.startswith("RenderableMeta.") or q_.startswith("RenderArgs.") or q_.startswith("RenderData.")):
            continue
        for lp in body_walk(fn_):
            if isinstance(lp, ast.For) and ("__mro__" in norm(lp.iter) or "mro()" in norm(lp.iter)):
                brk = [b_ for b_ in walk_local(lp) if isinstance(b_, (ast.Break, ast.Return))]
                ck.ob("R2", lp, not brk, f"{q_}: the walk over the MRO can stop early (`{short(brk[0], 30) if brk else ''}`): render classes that follow a non-render class (a mixin, Generic[...]) in the MRO "
                      "would contribute no default / data namespaces", stmt=f"{q_}: MRO walk visits every class")

    def init_tests(fn_):
        return sorted({norm(c) for c in body_walk(fn_) if isinstance(c, ast.Call) and call_name(c) == "isinstance" and c.args and norm(c.args[0]) in ("init_or_namespace", "init_render_args")})
    ia, ib = init_tests(new), init_tests(init)
    ck.ob("R3", new, ia == ib and bool(ia), f"__new__ and __init__ classify the overloaded second argument differently ({ia} vs {ib}): what __new__ takes for a namespace is not checked for compatibility "
          "while __init__ merges it as an initial set", stmt="RenderArgs.__new__/__init__: same classification of init_or_namespace")


MUTANTS = [
    M("update-skip-when-equal", TY, "ArgsNamespace.update", "        new = type(self).__new__(type(self))\n", "        if all(getattr(self, k) == v for k, v in fields.items()):\n            return self\n        new = type(self).__new__(type(self))\n", {"R1"}),
    M("update-in-place", TY, "RenderArgs.update#3", "        return RenderArgs(\n            self.render_cls,", "        self._namespaces = dict(self._namespaces)\n        return RenderArgs(\n            self.render_cls,", {"R1", "R2"}),
    M("ns-update-in-place", TY, "ArgsNamespace.update", "        new = type(self).__new__(type(self))\n", "        new = self\n", {"R1"}),
    M("no-copy-defaults", TY, "RenderArgs.__init__", "render_cls._ALL_DEFAULT_ARGS.copy()", "dict(init_render_args._namespaces) if init_render_args else render_cls._ALL_DEFAULT_ARGS.copy()", {"R2", "R4"}),
    M("plain-dict-table", RN, "RenderableMeta.__new__", "new_cls._ALL_DEFAULT_ARGS = MappingProxyType(all_default_args)", "new_cls._ALL_DEFAULT_ARGS = all_default_args", {"R2"}),
    M("mutate-old-table", TY, "ArgsNamespaceMeta.__new__", "                render_cls._ALL_DEFAULT_ARGS = MappingProxyType(\n                    {render_cls: args_cls(), **render_cls._ALL_DEFAULT_ARGS}\n                )",
      "                render_cls._ALL_DEFAULT_ARGS = MappingProxyType(render_cls._ALL_DEFAULT_ARGS)", {"R2"}),
    M("weaken-new-cond", TY, "RenderArgs.__new__", "or cls._interned.get(init_render_args.render_cls) is init_render_args", "or cls._interned.get(init_render_args.render_cls) == init_render_args", {"R3"}),
    M("drop-self-return", TY, "RenderArgs.__init__", "        if init_render_args is self:\n            return\n", "", {"R3"}),
    M("swap-fill-order", TY, "RenderArgs.__init__", "for index, namespace in enumerate(namespaces):", "for index, namespace in enumerate(reversed(namespaces)):", {"R4"}),
    M("write-before-test", TY, "RenderArgs.__init__",
      "            if namespace._RENDER_CLS not in namespaces_dict:", "            if namespace._RENDER_CLS not in render_cls.__mro__:", {"R4"}),
    M("hash-on-type", TY, "ArgsNamespace.__hash__", "                type(self)._RENDER_CLS,\n                tuple(", "                type(self),\n                tuple(", {"R5"}),
    M("raise-after-create", TY, "ArgsDataNamespaceMeta.__new__", "            if len(bases) > 1:\n                raise RenderArgsDataError(\"Multiple base classes\")\n", "", {"R6"}),
    M("no-reassoc-test", TY, "ArgsNamespaceMeta.__new__", "                if render_cls.Args:\n", "                if False:\n", {"R6"}),
    M("update-drops-rest", TY, "RenderArgs.update#3", "if render_cls else namespaces),", "if render_cls else namespaces[:1]),", {"R7"}),
    M("convert-child-empty", TY, "RenderArgs.convert", "            return RenderArgs(render_cls, self)\n", "            return RenderArgs(render_cls)\n", {"R7"}),
    M("to-render-args-no-self", TY, "ArgsNamespace.to_render_args", "return RenderArgs(render_cls or type(self)._RENDER_CLS, self)", "return RenderArgs(render_cls or type(self)._RENDER_CLS)", {"R7"}),
    M("hash-by-identity", TY, "RenderArgs.__hash__", "return hash((self.render_cls, tuple(self._namespaces.values())))", "return hash((self.render_cls, tuple(None if ns is self.render_cls._ALL_DEFAULT_ARGS[c] else ns for c, ns in self._namespaces.items())))", {"R5"}),
    M("set-class-in-table", TY, "ArgsNamespace.__or__", "            if issubclass(other_render_cls, self_render_cls):\n                return RenderArgs(other_render_cls, other, self)", "            if self_render_cls in other._namespaces:\n                return RenderArgs(other_render_cls, other, self)\n            if other.render_cls in self_render_cls._ALL_DEFAULT_ARGS:\n                return RenderArgs(self_render_cls, other, self)", {"R3"}),
    M("convert-by-shared-namespace", TY, "RenderArgs.convert", "        if issubclass(self.render_cls, render_cls):\n", "        if issubclass(self.render_cls, render_cls) or any(c in render_cls._ALL_DEFAULT_ARGS for c in self._namespaces):\n", {"R7"}),
    M("twin-rename", TY, "RenderArgs.__init__", "namespaces_dict", "ns_dict", twin=True, count=0),
]
