"""C17 - trimming an image canvas equals cropping what the full canvas shows: two structural clauses only
(DESIGN.md 4, C17). Cell-for-cell equality of trimmed and untrimmed canvases (the main clause, incl. _ti_calc_trim's 3x3
case arithmetic) is byte-level runtime data and is NOT decided."""
from __future__ import annotations

import ast
import re

from tiv.astutil import ancestors as _anc17, body_walk, call_name, dotted, enclosing_stmt, norm, short, stores_in, walk_local
from tiv.match import find_stmts, match_expr, match_stmt
from tiv.affine import NotPoly, equal, parse
from tiv.mutate import M
from tiv.sem import trace, expand, cx, econds, specialize

RULES = {
    "MEMO": "memo safety (shared, rules/common.py): a memoised function in this property's files (or called from them) is a function of its "
            "arguments only (no terminal/ambient/receiver state outside the key) and no caller mutates its result in place",
    "R1": 'rows() announces what render() produces: the traced expression rows() returns equals, case by case (FIT / AUTO), the height component of the size render() gives the image in a flow layout (FIT: set_size(size[0]); AUTO: ORIGINAL if it fits into the FIT size else FIT); the canvas records the size it was rendered with',
    "R2": "row assembly: in the text branch of UrwidImageCanvas.content each image row is [left padding, recovered first colour, image cells, "
          "colour reset, right padding, last-row workaround]; the first colour is recovered by scanning backwards from the cut and keeps the cell's "
          "whole colour prefix (up to its LAST 'm'); the untrimmed fast path is taken only when both horizontal trims are zero; a slice [lo:hi] of the held lines takes hi - lo == visible_rows rows; every yielded row is a fresh object (no `yield row` of a list bound before the loop and modified in place inside it)",
    "R4": "_ti_calc_trim is exact (proved per path by linear arithmetic, tiv/linarith.py): under size == pad1 + image + pad2, all >= 0, image >= 1 and a non-empty "
          "window (trim1 + trim2 <= size - 1) its results are (|window & pad1|, clamp(trim1 - pad1, 0, image), clamp(trim2 - pad2, 0, image), |window & pad2|) on every feasible path",
    "R3": "the canvas describes the render it holds: content() uses the image size recorded when the canvas was rendered (self._ti_image_size), never "
          "the image's current size; its padding split (near = n//2, far = n-near; remainder to the far side) is the one _format_render used; content() and the _ti_* helpers are a read-only view: they change no object they did not build in the call",
}
UW, CM = "widget/_urwid.py", "image/common.py"


def _e0(e):
    """entry-value symbols (`size__0`: the parameter before it is rebound) written as the parameter itself"""
    from tiv.astutil import clone
    e = clone(e)
    for n in ast.walk(e):
        if isinstance(n, ast.Name) and n.id.endswith("__0"):
            n.id = n.id[:-3]
    return e


def _ec(fn, n):
    return {c.replace("__0", "") for c in econds(fn, n)}


def _psub(e):
    """`(a if c else b)[i]` -> `a[i] if c else b[i]` (recursively)."""
    from tiv.astutil import clone

    class T(ast.NodeTransformer):
        def visit_Subscript(self, n):
            self.generic_visit(n)
            if isinstance(n.value, ast.IfExp):
                v = n.value
                return self.visit(ast.IfExp(test=v.test, body=ast.Subscript(value=v.body, slice=n.slice, ctx=ast.Load()), orelse=ast.Subscript(value=v.orelse, slice=n.slice, ctx=ast.Load())))
            return n
    return T().visit(clone(e))


def run(ck, m):
    from rules.common import rule_memo_safety
    rule_memo_safety(ck, m, "MEMO", "C17")          # first: a memoised helper also hides the code it wraps from the rules below
    rd = m.get(UW, "UrwidImage.render")
    rw = m.get(UW, "UrwidImage.rows")
    # ---- R1 ----------------------------------------------------------------------------
    # rows(size) must be the height of the size render(size) gives the image in a flow layout. Both are compared as traced
    # expressions (locals and extracted helpers gone), case by case (FIT / AUTO), with `(a if c else b)[i]` distributed.
    FLOW, FIT = "len(size) == 1", "self._ti_sizing is Size.FIT"
    sets = [c for c in body_walk(rd) if isinstance(c, ast.Call) and isinstance(c.func, ast.Attribute) and c.func.attr == "set_size" and {FLOW, FIT} <= _ec(rd, c)]
    stores_ = [st for t, st in stores_in(ast.Module(body=rd.body, type_ignores=[])) if isinstance(t, ast.Attribute) and t.attr == "_size" and isinstance(st, ast.Assign) and {FLOW, f"not {FIT}"} <= _ec(rd, st)]
    for n_ in sets + stores_:
        extra_c = {c_ for c_ in _ec(rd, n_) if c_ not in (FLOW, FIT, f"not {FIT}") and not c_.startswith("not len(size) == 2")}
        ck.ob("R1", enclosing_stmt(n_) if isinstance(n_, ast.Call) else n_, not extra_c, f"render() sets the image size only under {sorted(extra_c)}: the size lives on the (shareable) image object and depends on the "
              "cell ratio, so it must be set on every flow render - otherwise the canvas claims a size the held render does not have", stmt="render[flow]: image size set unconditionally")
    ck.expect(len(sets) == 1 and len(stores_) == 1, f"UrwidImage.render: flow FIT `set_size(..)` / AUTO `<image>._size = ..` not recognised ({len(sets)}, {len(stores_)})")
    rret = [r for r in body_walk(rw) if isinstance(r, ast.Return) and r.value is not None]
    ck.expect(len(rret) >= 1, "UrwidImage.rows: return not found")
    if len(sets) == 1 and len(stores_) == 1 and rret:
        KEEP = ("size",)
        fit_arg = [norm(_e0(trace(rd, a_))) for a_ in sets[0].args]
        ck.ob("R1", enclosing_stmt(sets[0]), fit_arg == ["size[0]"] and norm(trace(rd, sets[0].func.value)) == "self._ti_image", f"render (FIT): must set the size from the given width; found set_size({fit_arg})", stmt="render[FIT]: image.set_size(size[0])")
        auto_v = _psub(_e0(trace(rd, stores_[0].value)))
        want_auto = "self._ti_image._valid_size(Size.ORIGINAL) if self._ti_image._valid_size(Size.ORIGINAL)[0] <= self._ti_image._valid_size(size[0])[0] and self._ti_image._valid_size(Size.ORIGINAL)[1] <= self._ti_image._valid_size(size[0])[1] else self._ti_image._valid_size(size[0])"
        ck.ob("R1", stores_[0], cx(auto_v) == cx(ast.parse(want_auto, mode="eval").body), f"render (AUTO): the image gets its ORIGINAL size if that fits into the FIT size for the given width, else the FIT size; found `{norm(auto_v)[:140]}`",
              stmt="render[AUTO]: ORIGINAL if it fits else FIT")
        for r in rret:
            rv = _psub(_e0(trace(rw, r.value)))
            cds = _ec(rw, r)
            for fit_case in (True, False):
                if (FIT in cds and not fit_case) or (f"not {FIT}" in cds and fit_case):
                    continue
                got = _psub(specialize(rv, {FIT: fit_case}))
                want_ = ast.parse("self._ti_image._valid_size(size[0])[1]", mode="eval").body if fit_case else _psub(ast.Subscript(value=auto_v, slice=ast.Constant(value=1), ctx=ast.Load()))
                ck.ob("R1", r, cx(got) == cx(want_), f"rows() [{'FIT' if fit_case else 'AUTO'}] must announce the height of the size render() sets: expected `{norm(want_)[:110]}`, found `{norm(got)[:110]}`",
                      stmt=f"rows/render agree [{'FIT' if fit_case else 'AUTO'}]")
    flow = next((s for s in body_walk(rd) if isinstance(s, ast.If) and norm(_e0(expand(rd, s.test))) == FLOW), None)
    ck.need(flow is not None, "UrwidImage.render: flow branch not found")
    ck.ob("R1", flow, any(isinstance(s, ast.Assign) and norm(s.targets[0]) == "size" and norm(_e0(trace(rd, s.value))) in ("(size[0], self._ti_image._size[1])",) for s in flow.body), "a flow render reports the height of the size just set", stmt="render[flow]: canvas height = image._size[1]")
    ck.ob("R1", rd, any(isinstance(c, ast.Call) and call_name(c) == "UrwidImageCanvas" and len(c.args) == 3 and norm(c.args[1]) == "size" and norm(trace(rd, c.args[2])) == "self._ti_image._size" for c in body_walk(rd)), "the canvas must record the image size it was rendered with", stmt="render: UrwidImageCanvas(render, size, image._size)")

    # ---- R2 ----------------------------------------------------------------------------
    ct = m.get(UW, "UrwidImageCanvas.content")
    text_if = next((s for s in ct.body if isinstance(s, ast.If) and norm(s.test) == "isinstance(image, TextImage)"), None)
    ck.need(text_if is not None, "content: text branch not found")
    fast = text_if.body[0]
    ck.ob("R2", fast, isinstance(fast, ast.If) and norm(fast.test) == "trim_left == 0 == trim_right" and any(isinstance(x, ast.Return) for x in fast.body), "the untrimmed fast path must require both horizontal trims to be zero", stmt="content: fast path iff no horizontal trim")
    ys = [n for n in walk_local(text_if) if isinstance(n, ast.Yield) and isinstance(n.value, ast.List) and len(n.value.elts) >= 4]
    ck.expect(len(ys) == 1, "content: the image-row yield not found")
    if ys:
        def role(e):
            t_ = norm(trace(ct, e.value if isinstance(e, ast.Starred) else e, use=ys[0], keep=("size", "image_size")))
            if "SGR_DEFAULT_b" in t_:
                return "color_reset"
            key = "b' ' * self._ti_calc_trim(size[0]"
            k = t_.find(key)
            if k >= 0:
                i, depth = k + len("b' ' * self._ti_calc_trim"), 0
                while i < len(t_):
                    depth += t_[i] == "("
                    depth -= t_[i] == ")"
                    i += 1
                    if depth == 0:
                        break
                idx = t_[i:i + 3]
                return {"[0]": "left_padding", "[3]": "right_padding"}.get(idx, "image_line")
            if t_.replace(" ", "") in ("((None,'U',b'\\x00\\x00'),)", "(None,'U',b'\\x00\\x00')"):
                return "last_row_workaround"
            # bound under the condition the rows are produced under (`W if <image not empty> else <unbound here>`): the alternatives that are bound
            te_ = trace(ct, e.value if isinstance(e, ast.Starred) else e, use=ys[0], keep=("size", "image_size"))
            def _alts(x_):
                return _alts(x_.body) + _alts(x_.orelse) if isinstance(x_, ast.IfExp) else [x_]
            al_ = [a_ for a_ in _alts(te_) if not (isinstance(a_, ast.Name) and a_.id == (norm(e.value) if isinstance(e, ast.Starred) else norm(e)))]
            if al_ and all(norm(a_).replace(" ", "") in ("((None,'U',b'\\x00\\x00'),)", "(None,'U',b'\\x00\\x00')") for a_ in al_):
                return "last_row_workaround"
            return "image_line"
        order = [role(e) for e in ys[0].value.elts]
        ck.ob("R2", enclosing_stmt(ys[0]), order == ["left_padding", "image_line", "color_reset", "right_padding", "last_row_workaround"],
              f"row assembly order must be left padding, image, colour reset, right padding, workaround (the reset sits between the image cells and the right padding so colours never bleed into it); found {order}", stmt="content: row assembly order")
    # the image element of a row: `(*<recovered colour>, (None, 'U', <visible cells>))`
    img_el = None
    if ys:
        for e in ys[0].value.elts:
            if role(e) == "image_line":
                img_el = e.value if isinstance(e, ast.Starred) else e
    tups = [n for n in ast.walk(trace(ct, img_el, keep=("size", "image_size"))) if isinstance(n, ast.Tuple) and len(n.elts) == 2 and isinstance(n.elts[0], ast.Starred)] if img_el is not None else []
    if not tups:   # the element is bound in several branches: look at the bindings of that name
        nm_ = img_el.id if isinstance(img_el, ast.Name) else None
        tups = [n for st_ in walk_local(text_if) if isinstance(st_, ast.Assign) and nm_ and norm(st_.targets[0]) == nm_ for n in ast.walk(st_.value) if isinstance(n, ast.Tuple) and len(n.elts) == 2 and isinstance(n.elts[0], ast.Starred)]
    if tups:
        ck.ob("R2", text_if, all(match_expr("(None, 'U', $x)", t_.elts[1]) is not None for t_ in tups), "the recovered first colour must precede the image cells", stmt="content: first colour before the image cells")
    else:
        # explicit tuples per case (`(colour, cells)` / `(cells,)`): by content - the element that carries the recovered colour (`...rindex(b'm')`) comes before
        # the one that carries the visible cells (`b''.join(...)`) wherever both occur, and some case does carry the colour
        nm_ = img_el.id if isinstance(img_el, ast.Name) else None
        binds_ = [st_ for st_ in walk_local(text_if) if isinstance(st_, ast.Assign) and nm_ and norm(st_.targets[0]) == nm_ and isinstance(st_.value, ast.Tuple)]
        def _kind(e_, st_):
            t_ = norm(trace(ct, e_.value if isinstance(e_, ast.Starred) else e_, use=st_, keep=("size", "image_size")))
            return "colour" if "rindex(b'm')" in t_ and ".join(" not in t_ else ("cells" if ".join(" in t_ or ".replace(b'\\x00'" in t_ else "other")
        orders_ = [[_kind(e_, st_) for e_ in st_.value.elts] for st_ in binds_]
        ck.expect(bool(binds_) and any("colour" in o_ for o_ in orders_), "content: where the recovered first colour joins the image cells is not recognised")
        if binds_ and any("colour" in o_ for o_ in orders_):
            bad_ = [o_ for o_ in orders_ if "colour" in o_ and "cells" in o_ and o_.index("colour") > o_.index("cells")]
            ck.ob("R2", text_if, not bad_, f"the recovered first colour must precede the image cells; found the order {bad_[0] if bad_ else ''}", stmt="content: first colour before the image cells")
    scan, cv = None, "cell"
    for n in walk_local(text_if):
        if isinstance(n, ast.For) and isinstance(n.target, ast.Name) and match_expr("$l[trim_image_left - 1::-1]", n.iter) is not None:
            scan, cv = n, n.target.id
    cand = [n for n in walk_local(text_if) if isinstance(n, ast.For) and isinstance(n.target, ast.Name) and any(isinstance(x, ast.If) and "startswith(ESC_b)" in norm(x.test) for x in n.body)]
    ck.ob("R2", (cand[0] if cand else text_if), scan is not None, f"the first colour must be searched backwards from the cut; found `{norm(cand[0].iter) if cand else None}`", stmt="content: backward scan from the cut")
    scan = scan or (cand[0] if cand else None)
    cv = scan.target.id if scan is not None else cv
    fc = next((s_ for s_ in (walk_local(scan) if scan is not None else []) if isinstance(s_, ast.Assign) and cv in norm(s_.value)), None)
    ck.ob("R2", fc or text_if, fc is not None and f"{cv}[:{cv}.rindex(b'm') + 1]" in norm(fc.value),
          f"the recovered prefix must extend to the LAST 'm' of the cell (a cell may carry several sequences, e.g. background and foreground); found `{short(fc.value, 60) if fc else None}`", stmt="content: colour prefix up to the last 'm'")
    ck.ob("R2", scan or text_if, scan is not None and any(isinstance(s_, ast.If) and norm(s_.test) == f"{cv}.startswith(ESC_b)" for s_ in scan.body), "only cells that start a colour run carry the colour", stmt="content: cells starting with ESC")
    cr = next((s for s in walk_local(text_if) if isinstance(s, ast.Assign) and norm(s.targets[0]) == "color_reset"), None)
    ck.ob("R2", cr or text_if, cr is not None and "SGR_DEFAULT_b" in norm(cr.value) and norm(cr.value.test) == "image_size[0] > trim_image_right > 0", "a right cut inside the image must be followed by a colour reset", stmt="content: colour reset when the right cut is inside the image")
    loops = [n for n in text_if.body if isinstance(n, ast.For)]
    rng = [norm(n.iter) for n in loops]
    ck.ob("R2", text_if, rng == ["range(new_pad_top)", "image_lines", "range(new_pad_bottom)"], f"rows are yielded as top padding, image rows, bottom padding; found {rng}", stmt="content: top padding, image, bottom padding")

    # every yielded row is an object of its own: a list that is built once, modified in place and yielded again on every iteration is ONE object -
    # a consumer that collects the rows (list(canvas.content(...)), a row buffer, a diff against the previous frame) then sees every row as the last
    from rules.common import IN_PLACE as _INPL17
    for y_ in [n for n in body_walk(ct) if isinstance(n, ast.Yield) and isinstance(n.value, ast.Name)]:
        nm_ = y_.value.id
        loop_ = next((a_ for a_ in _anc17(y_) if isinstance(a_, (ast.For, ast.While))), None)
        if loop_ is None:
            continue
        bound_in = any(isinstance(t_, ast.Name) and t_.id == nm_ for st_ in loop_.body for t_, _s in stores_in(st_))
        muts_ = [x for st_ in loop_.body for x in ast.walk(st_) if (isinstance(x, ast.Subscript) and isinstance(x.ctx, (ast.Store, ast.Del)) and isinstance(x.value, ast.Name) and x.value.id == nm_)
                 or (isinstance(x, ast.Call) and isinstance(x.func, ast.Attribute) and isinstance(x.func.value, ast.Name) and x.func.value.id == nm_ and x.func.attr in _INPL17)]
        ck.ob("R2", enclosing_stmt(y_), bound_in or not muts_, f"`yield {nm_}` hands out, on every iteration, the one list bound before the loop and modified in place inside it (`{short(muts_[0], 40) if muts_ else ''}`): "
              "rows already handed out change under the consumer - collected rows all show the last image line", stmt=f"content: each yielded row is a fresh object (yield {nm_})")

    # slices of the held lines with two explicit offsets `[lo:hi]`: the number of rows taken (hi - lo) must be the number of visible rows
    # (a count used as the end index is only right while lo == 0); `[lo:-n or None]` counts from the end and is not touched here
    from tiv import affine as _af
    vr_def = next((s_ for s_ in ct.body if isinstance(s_, ast.Assign) and any(norm(t_) == "visible_rows" for t_ in s_.targets)), None)
    for sl in [n for n in body_walk(ct) if isinstance(n, ast.Subscript) and isinstance(n.slice, ast.Slice) and "self._ti_lines" in norm(n.value)]:
        lo, hi = sl.slice.lower, sl.slice.upper
        if hi is None or (isinstance(hi, ast.BoolOp) and isinstance(hi.op, ast.Or)) or (isinstance(hi, ast.UnaryOp) and isinstance(hi.op, ast.USub)):
            continue
        try:
            keepv = ("size", "trim_top", "trim_bottom", "image_size", "visible_rows")
            length = _af._add(_af.poly(trace(ct, hi, use=sl, keep=keepv)), _af.poly(trace(ct, lo, use=sl, keep=keepv)) if lo is not None else {}, -1)
            want_v = {("visible_rows",): 1} if vr_def is not None else None
        except _af.NotPoly:
            length = want_v = None
        ck.expect(length is not None and want_v is not None, f"content: slice `{short(sl, 50)}` of the held lines not analysable")
        if length is not None and want_v is not None:
            ck.ob("R2", enclosing_stmt(sl), length == want_v, f"`{short(sl, 60)}` takes {_af.show(length)} rows; a region shows {_af.show(want_v)} rows (an end index must be start + count, "
                  "not the count)", stmt=f"content: rows taken by {short(sl, 50)} == visible rows")

    # ---- R4: _ti_calc_trim against its interval specification, path by path --------------------------------------------------------
    from tiv import linarith as _L
    tcf = m.get(UW, "UrwidImageCanvas._ti_calc_trim")
    PN = ["size", "image", "trim1", "pad1", "trim2", "pad2"]
    try:
        tpaths = _L.paths(tcf, PN)
        def _one(src):
            return _L.spec_cases(src, PN)[0][1]
        pre = [_one(x_) for x_ in ("pad1", "pad2", "trim1", "trim2", "image - 1", "size - trim1 - trim2 - 1", "size - pad1 - image - pad2", "pad1 + image + pad2 - size")]
        SPEC = [("new padding on side 1", "max(0, min(pad1, size - trim2) - trim1)"), ("rows/columns cut off the image on side 1", "max(0, min(image, trim1 - pad1))"),
                ("rows/columns cut off the image on side 2", "max(0, min(image, trim2 - pad2))"), ("new padding on side 2", "max(0, min(pad2, size - trim1) - trim2)")]
        n_feas = n_proved = 0
        for cs_, outs_ in tpaths:
            ck.expect(len(outs_) == 4, f"_ti_calc_trim: a path returns {len(outs_)} values, 4 expected")
            if len(outs_) != 4:
                continue
            C_ = pre + cs_
            if _L.infeasible(C_):
                continue
            n_feas += 1
            for (what_, spec_), out_ in zip(SPEC, outs_):
                for sc_, w_ in _L.spec_cases(spec_, PN):
                    CC_ = C_ + sc_
                    if _L.infeasible(CC_):
                        continue
                    if _L.entails_eq(CC_, out_, w_):
                        n_proved += 1
                        continue
                    wit = _L.witness(CC_, out_, w_, PN)
                    ck.expect(wit is not None, f"_ti_calc_trim: `{what_}` is neither proved equal to `{spec_}` on a path nor refuted by a small valuation")
                    if wit is not None:
                        got_, want_ = _L._eval(out_, wit), _L._eval(w_, wit)
                        ck.ob("R4", tcf, False, f"_ti_calc_trim: the {what_} is `{_af.show(out_)}` on a path where it must be `{_af.show(w_)}` (= {spec_}): for {wit} it returns {got_}, the region holds {want_} - "
                              "the trimmed canvas then has a row / column too many or too few, or shows the wrong part of the image", stmt=f"_ti_calc_trim: {what_} == {spec_}")
        ck.expect(n_feas >= 4, f"_ti_calc_trim: feasible paths found: {n_feas}")
        ck.ob("R4", tcf, True, "", stmt=f"_ti_calc_trim: every result equals its interval specification on every feasible path")
        ck.extra["calc_trim"] = {"paths": len(tpaths), "feasible": n_feas, "clauses_proved": n_proved}
    except _L.NotLinear as ex_:
        ck.expect(False, f"_ti_calc_trim is outside the linear fragment: {ex_}")

    # ---- R3 ----------------------------------------------------------------------------
    isz = next((s for s in ct.body if isinstance(s, ast.Assign) and norm(s.targets[0]) == "image_size"), None)
    ck.ob("R3", isz or ct, isz is not None and norm(isz.value) == "self._ti_image_size", f"content() must use the image size recorded with the canvas; found `{norm(isz.value) if isz else None}`", stmt="content: image_size = self._ti_image_size")
    uses = sorted({n.attr for n in body_walk(ct) if isinstance(n, ast.Attribute) and norm(n.value) == "image"})
    ck.ob("R3", ct, not uses, f"content() reads {['image.' + u for u in uses]} at call time: the image may have been re-sized since this canvas was rendered, so rows/widths/cells would no longer match the held render",
          stmt="content: no attribute of the live image is read")
    ini = m.get(UW, "UrwidImageCanvas.__init__")
    # content() is a read-only view: asked for any sequence of regions, the canvas must answer each as if it were the first. It therefore changes no object
    # it did not build itself in this call (subscript stores / mutators on the recorded lines or anything else reachable from self)
    from rules.c16 import _fresh_locals, _base_name, MUTATORS as _MUT
    for fn_ in [ct] + [f_ for _r, _q, f_ in m.functions() if _r == UW and _q.startswith("UrwidImageCanvas._ti_")]:
        fresh_, _params = _fresh_locals(fn_)
        for t_, st_ in stores_in(ast.Module(body=fn_.body, type_ignores=[])):
            if isinstance(t_, ast.Subscript) and _base_name(t_) not in fresh_:
                ck.ob("R3", st_, False, f"`{short(st_, 60)}` in {fn_.name} rewrites in place an object that outlives the call (not built here): a later request for another region of the same canvas "
                      "reads the rewritten data (e.g. lines whose cell separators were already stripped)", stmt=f"{fn_.name}: read-only view of the canvas")
        for c_ in body_walk(fn_):
            if isinstance(c_, ast.Call) and isinstance(c_.func, ast.Attribute) and c_.func.attr in _MUT and isinstance(c_._p, ast.Expr) and _base_name(c_.func.value) not in fresh_ \
                    and "self" in {x.id for x in ast.walk(trace(fn_, c_.func.value)) if isinstance(x, ast.Name)}:
                ck.ob("R3", enclosing_stmt(c_), False, f"`{short(c_, 60)}` in {fn_.name} changes in place an object held by the canvas", stmt=f"{fn_.name}: read-only view of the canvas")
    ck.ob("R3", ct, True, "", stmt="content and its helpers change no object held by the canvas")
    ck.ob("R3", ini, any(norm(s) == "self._ti_image_size = image_size" for s in ini.body), "the canvas must record the image size at construction", stmt="UrwidImageCanvas.__init__: records image_size")
    calls = [c for c in body_walk(ct) if isinstance(c, ast.Call) and (call_name(c) or "").endswith("_ti_calc_trim") and len(c.args) == 6]
    ck.expect(len(calls) == 2, f"content: the two self._ti_calc_trim(...) calls (vertical, horizontal) not found ({len(calls)})")
    for c in calls:
        ax = norm(c.args[0])
        kind, idx, av, a0, a1 = ("horizontal", 0, "h_align", "'<'", "'>'") if ax == "size[0]" else ("vertical", 1, "v_align", "'^'", "'_'")
        ck.expect(ax in ("size[0]", "size[1]"), f"content: _ti_calc_trim axis argument `{ax}` not recognised")
        KEEP = (av, "size", "image_size")
        near_t, far_t = trace(ct, c.args[3], keep=KEEP), trace(ct, c.args[5], keep=KEEP)
        P = f"size[{idx}] - image_size[{idx}]"
        for facts, wn, wf, what in (({f"{av} == {a0}": True}, "0", P, "near-aligned: all padding on the far side"),
                                    ({f"{av} == {a0}": False, f"{av} == {a1}": True}, P, "0", "far-aligned: all padding on the near side"),
                                    ({f"{av} == {a0}": False, f"{av} == {a1}": False}, f"({P}) // 2", f"{P} - ({P}) // 2", "centred: near = pad // 2, far = pad - near (the odd cell goes to the far side, as _format_render placed it)")):
            gn, gf = specialize(near_t, facts), specialize(far_t, facts)
            undecided = [x for x in (gn, gf) if any(isinstance(n_, ast.IfExp) for n_ in ast.walk(x))]
            ck.expect(not undecided, f"content: {kind} padding split not decided under {facts}: `{norm(gn)[:60]}` / `{norm(gf)[:60]}`")
            if undecided:
                continue
            try:
                ok = equal(gn, parse(wn)) and equal(gf, parse(wf))
            except NotPoly:
                ok = False
            ck.ob("R3", enclosing_stmt(c), ok, f"content: {kind} padding, {what}; found near=`{norm(gn)[:50]}`, far=`{norm(gf)[:50]}`", stmt=f"content: {kind} split [{sorted(facts.items())}]")
    # axis agreement: whatever is compared with / sliced by a vertical trim uses image_size[1], a horizontal one image_size[0]
    n_axis = 0
    for n_ in body_walk(ct):
        if not isinstance(n_, ast.Compare):
            continue
        t_ = norm(trace(ct, n_, keep=("size", "image_size")))
        axes_img = set(re.findall(r"(?<![\w.])image_size\[(\d)\]", t_))
        axes_trim = set(re.findall(r"_ti_calc_trim\(size\[(\d)\]", t_))
        if axes_trim and axes_img and len(axes_trim) == 1:
            n_axis += 1
            ck.ob("R3", enclosing_stmt(n_), axes_img == axes_trim, f"`{short(n_, 60)}` relates image_size[{'/'.join(sorted(axes_img))}] to the trim amounts of axis {'/'.join(sorted(axes_trim))}: "
                  "the image dimension and the trims compared with it must belong to the same axis", stmt=f"content: axis agreement #{n_axis}")
    ck.expect(n_axis >= 3, f"content: expected >= 3 comparisons of an image dimension with trim amounts, found {n_axis}")
    from rules.c05 import rule_format_render
    rule_format_render(ck, m, "R3")

    # the horizontal trim re-uses the colour sequences of the cut cell / nearest run leader: every run of the block renderer must be
    # emitted self-contained (C02.R3's emission table, applied here)
    from tiv.report import Scoped
    import rules.c02 as c02
    sc2 = Scoped(ck, "R2", lambda c: "update_buffer" in c, rids={"R3"})
    sc2.strict_self_contained = True      # for the canvas, a run whose sequences depend on what was emitted before is a violation
    c02.run(sc2, m)
    ck.expect(sc2.kept >= 8, f"expected the block renderer's emission table (C02.R3) to be evaluated, got {sc2.kept} obligations")



MUTANTS = [
    M("strip-lines-in-place", UW, "UrwidImageCanvas.content", "            pad = size[1] - image_size[1]\n", "            self._ti_lines[0] = self._ti_lines[0].replace(b\"\\0\\0\", b\"\\0\")\n            pad = size[1] - image_size[1]\n", {"R3"}),
    M("rows-fit-size-0", UW, "UrwidImage.rows", "if ori_size[0] <= fit_size[0] and ori_size[1] <= fit_size[1]\n                else fit_size[1]", "if ori_size[0] <= fit_size[0]\n                else fit_size[1]", {"R1"}),
    M("drop-color-reset", UW, "UrwidImageCanvas.content", "                    *image_line,\n                    *color_reset,\n", "                    *image_line,\n", {"R2"}),
    M("reset-after-padding", UW, "UrwidImageCanvas.content", "                    *color_reset,\n                    *right_padding,\n", "                    *right_padding,\n                    *color_reset,\n", {"R2"}),
    M("scan-forwards", UW, "UrwidImageCanvas.content", "for cell in line[trim_image_left - 1 :: -1]:", "for cell in line[: trim_image_left]:", {"R2"}),
    M("index-not-rindex", UW, "UrwidImageCanvas.content", "cell[: cell.rindex(b\"m\") + 1]", "cell[: cell.index(b\"m\") + 1]", {"R2"}),
    M("swap-centre-split", UW, "UrwidImageCanvas.content", "                    pad_left = pad // 2\n                    pad_right = pad - pad_left", "                    pad_right = pad // 2\n                    pad_left = pad - pad_right", {"R3"}),
    M("live-image-size", UW, "UrwidImageCanvas.content", "        image_size = self._ti_image_size\n", "        image_size = self.widget_info[0]._ti_image.rendered_size\n", {"R3"}),
    M("end-index-is-count", UW, "UrwidImageCanvas.content", "self._ti_lines[trim_top : -trim_bottom or None]", "self._ti_lines[trim_top:visible_rows]", {"R2"}, count=3),
    M("far-padding-slip", UW, "UrwidImageCanvas._ti_calc_trim", "            new_pad_side1 -= trim_side2 - image_end\n", "            new_pad_side1 -= trim_side2\n", {"R4"}),
    M("image-trim-off-by-one", UW, "UrwidImageCanvas._ti_calc_trim", "            trim_image_side2 = trim_side2 - pad_side2\n", "            trim_image_side2 = trim_side2 - pad_side2 + 1\n", {"R4"}),
    M("boundary-strict", UW, "UrwidImageCanvas._ti_calc_trim", "        elif trim_side1 >= pad_side1:  # within the image", "        elif trim_side1 > pad_side1 + 1:  # within the image", {"R4"}),
    M("twin-calc-trim-regroup", UW, "UrwidImageCanvas._ti_calc_trim", "            trim_image_side1 = trim_side1 - pad_side1\n", "            trim_image_side1 = -pad_side1 + trim_side1\n", twin=True),
    M("twin-rename", UW, "UrwidImage.rows", "n_rows", "nrows", twin=True, count=0),
]
