"""C17 - trimming an image canvas equals cropping what the full canvas shows: two structural clauses only
(DESIGN.md 4, C17). Cell-for-cell equality of trimmed and untrimmed canvases (the main clause, incl. _ti_calc_trim's 3x3
case arithmetic) is byte-level runtime data and is NOT decided."""
from __future__ import annotations

import ast

from tiv.astutil import body_walk, call_name, dotted, enclosing_stmt, norm, short, stores_in, walk_local
from tiv.match import find_stmts, match_expr, match_stmt
from tiv.mutate import M

RULES = {
    "R1": "rows() announces what render() produces: for a flow widget both derive the height from the same inputs by the same decision "
          "(FIT -> _valid_size(width)[1]; otherwise the ORIGINAL size if it fits inside the FIT size on both axes, else the FIT size)",
    "R2": "row assembly: in the text branch of UrwidImageCanvas.content each image row is [left padding, recovered first colour, image cells, "
          "colour reset, right padding, last-row workaround]; the first colour is recovered by scanning backwards from the cut and keeps the cell's "
          "whole colour prefix (up to its LAST 'm'); the untrimmed fast path is taken only when both horizontal trims are zero",
    "R3": "the canvas describes the render it holds: content() uses the image size recorded when the canvas was rendered (self._ti_image_size), never "
          "the image's current size; its padding split (near = n//2, far = n-near; remainder to the far side) is the one _format_render used",
}
UW, CM = "widget/_urwid.py", "image/common.py"


def run(ck, m):
    rd = m.get(UW, "UrwidImage.render")
    rw = m.get(UW, "UrwidImage.rows")
    # ---- R1 ----------------------------------------------------------------------------
    flow = next((s for s in body_walk(rd) if isinstance(s, ast.If) and norm(s.test) == "len(size) == 1"), None)
    ck.need(flow is not None, "UrwidImage.render: flow branch not found")
    fit_if = next((s for s in flow.body if isinstance(s, ast.If) and norm(s.test) == "self._ti_sizing is Size.FIT"), None)
    ck.need(fit_if is not None and fit_if.orelse, "UrwidImage.render: FIT / AUTO decision not found")
    r_fit = [norm(s) for s in fit_if.body]
    ck.ob("R1", fit_if, r_fit == ["image.set_size(size[0])"], f"render (FIT): must set the size from the given width; found {r_fit}", stmt="render[FIT]: image.set_size(size[0])")
    def decide(stmts, tail):
        fs = next((norm(s.value) for s in stmts if isinstance(s, ast.Assign) and norm(s.targets[0]) == "fit_size"), None)
        os_ = next((norm(s.value) for s in stmts if isinstance(s, ast.Assign) and norm(s.targets[0]) == "ori_size"), None)
        ie = next((s.value for s in stmts if isinstance(s, ast.Assign) and isinstance(s.value, ast.IfExp)), None)
        return fs, os_, (norm(ie.test) if ie is not None else None), (norm(ie.body) if ie is not None else None), (norm(ie.orelse) if ie is not None else None)
    rf, ro, rc, rb, re_ = decide(fit_if.orelse, None)
    rows_if = next((s for s in rw.body if isinstance(s, ast.If) and norm(s.test) == "self._ti_sizing is Size.FIT"), None)
    ck.need(rows_if is not None, "UrwidImage.rows: decision not found")
    wf, wo, wc, wb, we = decide(list(rw.body) + list(rows_if.orelse), None)
    ck.ob("R1", rows_if, rf == wf == "self._ti_image._valid_size(size[0])" and ro == wo == "self._ti_image._valid_size(Size.ORIGINAL)",
          f"rows() and render() must size from the same inputs; render: fit={rf}, ori={ro}; rows: fit={wf}, ori={wo}", stmt="rows/render: same _valid_size inputs")
    ck.ob("R1", rows_if, rc == wc and rc is not None, f"rows() and render() decide ORIGINAL-vs-FIT differently: render `{rc}` vs rows `{wc}`", stmt="rows/render: same ORIGINAL-fits test")
    ck.ob("R1", rows_if, (rb, re_) == ("ori_size", "fit_size") and (wb, we) == ("ori_size[1]", "fit_size[1]"), f"render picks ({rb}, {re_}), rows announces ({wb}, {we}): rows must be the height of what render picks", stmt="rows/render: rows = height of the chosen size")
    ck.ob("R1", rows_if, len(rows_if.body) == 1 and match_stmt("$$v = fit_size[1]", rows_if.body[0]) is not None, "rows (FIT) must announce the FIT height", stmt="rows[FIT]: fit_size[1]")
    ck.ob("R1", flow, any(norm(s) == "size = (size[0], image._size[1])" for s in flow.body), "a flow render reports the height of the size just set", stmt="render[flow]: canvas height = image._size[1]")
    ck.ob("R1", rd, any(isinstance(c, ast.Call) and call_name(c) == "UrwidImageCanvas" and [norm(a) for a in c.args] == ["render", "size", "image._size"] for c in body_walk(rd)), "the canvas must record the image size it was rendered with", stmt="render: UrwidImageCanvas(render, size, image._size)")

    # ---- R2 ----------------------------------------------------------------------------
    ct = m.get(UW, "UrwidImageCanvas.content")
    text_if = next((s for s in ct.body if isinstance(s, ast.If) and norm(s.test) == "isinstance(image, TextImage)"), None)
    ck.need(text_if is not None, "content: text branch not found")
    fast = text_if.body[0]
    ck.ob("R2", fast, isinstance(fast, ast.If) and norm(fast.test) == "trim_left == 0 == trim_right" and any(isinstance(x, ast.Return) for x in fast.body), "the untrimmed fast path must require both horizontal trims to be zero", stmt="content: fast path iff no horizontal trim")
    ys = [n for n in walk_local(text_if) if isinstance(n, ast.Yield) and isinstance(n.value, ast.List) and len(n.value.elts) >= 4]
    ck.expect(len(ys) == 1, "content: the image-row yield not found")
    if ys:
        order = [norm(e.value) if isinstance(e, ast.Starred) else norm(e) for e in ys[0].value.elts]
        ck.ob("R2", enclosing_stmt(ys[0]), order == ["left_padding", "image_line", "color_reset", "right_padding", "last_row_workaround"],
              f"row assembly order must be left padding, image, colour reset, right padding, workaround (the reset sits between the image cells and the right padding so colours never bleed into it); found {order}", stmt="content: row assembly order")
    il = next((s for s in walk_local(text_if) if isinstance(s, ast.Assign) and norm(s.targets[0]) == "image_line" and isinstance(s.value, ast.IfExp)), None)
    ck.ob("R2", il or text_if, il is not None and norm(il.value.body) == "(*first_color, (None, 'U', image_line))", "the recovered first colour must precede the image cells", stmt="content: first colour before the image cells")
    scan = next((n for n in walk_local(text_if) if isinstance(n, ast.For) and norm(n.target) == "cell"), None)
    ck.ob("R2", scan or text_if, scan is not None and norm(scan.iter) == "line[trim_image_left - 1::-1]", f"the first colour must be searched backwards from the cut; found `{norm(scan.iter) if scan else None}`", stmt="content: backward scan from the cut")
    fc = next((s for s in walk_local(text_if) if isinstance(s, ast.Assign) and norm(s.targets[0]) == "first_color" and "cell" in norm(s.value)), None)
    ck.ob("R2", fc or text_if, fc is not None and "cell[:cell.rindex(b'm') + 1]" in norm(fc.value),
          f"the recovered prefix must extend to the LAST 'm' of the cell (a cell may carry several sequences, e.g. background and foreground); found `{short(fc.value, 60) if fc else None}`", stmt="content: colour prefix up to the last 'm'")
    ck.ob("R2", scan or text_if, scan is not None and any(isinstance(s, ast.If) and norm(s.test) == "cell.startswith(ESC_b)" for s in scan.body), "only cells that start a colour run carry the colour", stmt="content: cells starting with ESC")
    cr = next((s for s in walk_local(text_if) if isinstance(s, ast.Assign) and norm(s.targets[0]) == "color_reset"), None)
    ck.ob("R2", cr or text_if, cr is not None and "SGR_DEFAULT_b" in norm(cr.value) and norm(cr.value.test) == "image_size[0] > trim_image_right > 0", "a right cut inside the image must be followed by a colour reset", stmt="content: colour reset when the right cut is inside the image")
    loops = [n for n in text_if.body if isinstance(n, ast.For)]
    rng = [norm(n.iter) for n in loops]
    ck.ob("R2", text_if, rng == ["range(new_pad_top)", "image_lines", "range(new_pad_bottom)"], f"rows are yielded as top padding, image rows, bottom padding; found {rng}", stmt="content: top padding, image, bottom padding")

    # ---- R3 ----------------------------------------------------------------------------
    isz = next((s for s in ct.body if isinstance(s, ast.Assign) and norm(s.targets[0]) == "image_size"), None)
    ck.ob("R3", isz or ct, isz is not None and norm(isz.value) == "self._ti_image_size", f"content() must use the image size recorded with the canvas; found `{norm(isz.value) if isz else None}`", stmt="content: image_size = self._ti_image_size")
    uses = sorted({n.attr for n in body_walk(ct) if isinstance(n, ast.Attribute) and norm(n.value) == "image"})
    ck.ob("R3", ct, not uses, f"content() reads {['image.' + u for u in uses]} at call time: the image may have been re-sized since this canvas was rendered, so rows/widths/cells would no longer match the held render",
          stmt="content: no attribute of the live image is read")
    ini = m.get(UW, "UrwidImageCanvas.__init__")
    ck.ob("R3", ini, any(norm(s) == "self._ti_image_size = image_size" for s in ini.body), "the canvas must record the image size at construction", stmt="UrwidImageCanvas.__init__: records image_size")
    for near, far, kind in (("pad_left", "pad_right", "horizontal"), ("pad_top", "pad_bottom", "vertical")):
        blk = None
        for n in walk_local(text_if):
            if isinstance(n, ast.If) and n.orelse and any(match_stmt(f"{near} = pad // 2", s) is not None or norm(s).startswith(f"{near} =") or norm(s).startswith(f"{far} =") for s in n.orelse) and not isinstance(n.orelse[0], ast.If):
                if any(norm(t) in (near, far) for s in n.orelse for t, _ in stores_in(s)):
                    blk = n.orelse
        ck.expect(blk is not None, f"content: centre branch of the {kind} padding split not found")
        if blk is not None:
            src = [norm(s) for s in blk]
            ck.ob("R3", blk[0], src == [f"{near} = pad // 2", f"{far} = pad - {near}"],
                  f"{kind} centre split must be {near} = pad // 2, {far} = pad - {near} (the odd cell goes to the far side, as _format_render placed it); found {src}", stmt=f"content: {kind} centre split")
    fr = m.get(CM, "BaseImage._format_render")
    s2 = norm(fr)
    ck.ob("R3", fr, "left = ' ' * ((width - cols) // 2)" in s2 and "top = (height - lines) // 2" in s2, "_format_render (which produced the canvas text) puts the odd cell on the far side", stmt="_format_render: near = n // 2")


MUTANTS = [
    M("rows-fit-size-0", UW, "UrwidImage.rows", "if ori_size[0] <= fit_size[0] and ori_size[1] <= fit_size[1]\n                else fit_size[1]", "if ori_size[0] <= fit_size[0]\n                else fit_size[1]", {"R1"}),
    M("drop-color-reset", UW, "UrwidImageCanvas.content", "                    *image_line,\n                    *color_reset,\n", "                    *image_line,\n", {"R2"}),
    M("reset-after-padding", UW, "UrwidImageCanvas.content", "                    *color_reset,\n                    *right_padding,\n", "                    *right_padding,\n                    *color_reset,\n", {"R2"}),
    M("scan-forwards", UW, "UrwidImageCanvas.content", "for cell in line[trim_image_left - 1 :: -1]:", "for cell in line[: trim_image_left]:", {"R2"}),
    M("index-not-rindex", UW, "UrwidImageCanvas.content", "cell[: cell.rindex(b\"m\") + 1]", "cell[: cell.index(b\"m\") + 1]", {"R2"}),
    M("swap-centre-split", UW, "UrwidImageCanvas.content", "                    pad_left = pad // 2\n                    pad_right = pad - pad_left", "                    pad_right = pad // 2\n                    pad_left = pad - pad_right", {"R3"}),
    M("live-image-size", UW, "UrwidImageCanvas.content", "        image_size = self._ti_image_size\n", "        image_size = self.widget_info[0]._ti_image.rendered_size\n", {"R3"}),
    M("twin-rename", UW, "UrwidImage.rows", "n_rows", "nrows", twin=True, count=0),
]
