"""C18 - the urwid screen never leaves a ghost image behind: structural clauses (DESIGN.md 4, C18).
Which placements a layout history leaves on the terminal depends on shard geometry at run time - not decided."""
from __future__ import annotations

import ast

from tiv.astutil import conds, body_walk, call_name, dotted, enclosing_func, enclosing_stmt, guards, norm, short, stores_in, try_context, walk_local
from tiv.cfg import CFG, fmt_path
from tiv.effects import emits, names_in
from tiv.match import match_stmt, b2s, find_stmts, match_expr
from tiv.affine import NotPoly, equal, parse
from tiv.mutate import M
from tiv.sem import trace, same_bool, expand

RULES = {
    "MEMO": "memo safety (shared, rules/common.py): a memoised function in this property's files (or called from them) is a function of its "
            "arguments only (no terminal/ambient/receiver state outside the key) and no caller mutates its result in place",
    "R1": "synchronized-update bracket: draw_screen writes BEGIN_SYNCED_UPDATE immediately before a try whose finally writes END_SYNCED_UPDATE and "
          "flushes; every other output effect of the method (image deletion, super().draw_screen) is inside that try",
    "R2": "delete before draw: _ti_clear_images() runs before super().draw_screen() when the canvas changed; its deletions go through the buffered "
          "self.write path; the identity of an on-screen image view is (canvas, row, col, trim..., cols, rows) - every geometric component unpacked from the "
          "canvas view is part of the key; _ti_image_cviews is replaced by the set computed from the new canvas on every path that inspected it; a delete-all (`clear_images()` without widgets) lies on no cycle of the method's flow graph; the shard tails are aged after the last view of each shard as well as before every view; the widget's blend=False depends only on the image type and the konsole exception; a return decided by the kind of the screen canvas (CompositeCanvas test) comes after the recorded views were inspected",
    "R3": "images are cleared on clear(), _start() (after super()._start) and _stop() (before super()._stop()); a clear - immediate or deferred - "
          "always changes the canvas disguise so that urwid's line cache redraws the images",
    "R4": "z-index allocator ownership: _ti_z_index is only stored from _ti_get_z_index(); the free list is only added to in __del__ and popped in "
          "the allocator; the counter and the free list are accessed through __class__ only (one allocator for all subclasses); the counter is "
          "stored only after the == 2**31 overflow test, with successor -z (z>0) / -z+1 (z<=0)",
    "R5": "attribute kinds: every store to _ti_image_cviews binds a frozenset and no mutator is called on it",
    "R6": "the screen's terminal-I/O overrides are decorated with lock_tty (queries cannot interleave with a synchronized update)",
}
W = "widget/_urwid.py"
MUTATORS = {"add", "clear", "discard", "remove", "update", "pop", "append", "extend"}


def run(ck, m):
    from rules.common import rule_memo_safety
    rule_memo_safety(ck, m, "MEMO", "C18")          # first: a memoised helper also hides the code it wraps from the rules below
    scr = m.get(W, "UrwidImageScreen")
    ds = m.get(W, "UrwidImageScreen.draw_screen")
    # ---- R1 ----------------------------------------------------------------------------
    body = [s for s in ds.body if not (isinstance(s, ast.Expr) and isinstance(s.value, ast.Constant))]
    i_begin = next((i for i, s in enumerate(body) if isinstance(s, ast.Expr) and isinstance(s.value, ast.Call) and emits(s.value, "BEGIN_SYNCED_UPDATE")), None)
    ck.ob("R1", ds, i_begin == 0, "draw_screen must start by writing BEGIN_SYNCED_UPDATE", stmt="draw_screen: BEGIN_SYNCED_UPDATE first")
    tr = body[i_begin + 1] if i_begin is not None and i_begin + 1 < len(body) else None
    ok = isinstance(tr, ast.Try) and any(isinstance(c, ast.Call) and emits(c, "END_SYNCED_UPDATE") for s in tr.finalbody for c in walk_local(s))
    ck.ob("R1", tr or ds, ok, "BEGIN_SYNCED_UPDATE must be followed immediately by a try whose finally writes END_SYNCED_UPDATE (otherwise a failing redraw leaves the terminal frozen in synchronized mode)", stmt="draw_screen: try/finally END_SYNCED_UPDATE")
    if ok:
        fsrc = [norm(s) for s in tr.finalbody]
        ck.ob("R1", tr, fsrc[-1] == "self.flush()" and any("END_SYNCED_UPDATE" in x for x in fsrc[:-1]), "the finally must write END_SYNCED_UPDATE and then flush", stmt="draw_screen: END then flush")
        for c in body_walk(ds):
            if isinstance(c, ast.Call) and (norm(c.func) in ("self._ti_clear_images", "super().draw_screen", "self.clear_images") or (norm(c.func) == "self.write" and not emits(c, "BEGIN_SYNCED_UPDATE") and not emits(c, "END_SYNCED_UPDATE"))):
                inside = any(t is tr and part == "body" for t, part in try_context(c))
                ck.ob("R1", enclosing_stmt(c), inside, f"`{short(c, 50)}` produces output outside the synchronized-update bracket", stmt=f"draw_screen: {short(c, 50)} inside the bracket")
        rest = [x for x in body[2:] if not (isinstance(x, ast.Return) and (x.value is None or isinstance(x.value, (ast.Name, ast.Constant))))]
        ck.ob("R1", ds, not rest, f"draw_screen must consist of the BEGIN write and the bracketed try only (found after the try: {[short(x, 40) for x in rest]})", stmt="draw_screen: nothing outside the bracket")
    # ---- R2 ----------------------------------------------------------------------------
    cl = [c for c in body_walk(ds) if isinstance(c, ast.Call) and norm(c.func) == "self._ti_clear_images"]
    sd = [c for c in body_walk(ds) if isinstance(c, ast.Call) and norm(c.func) == "super().draw_screen"]
    ck.ob("R2", ds, len(cl) == 1 and len(sd) == 1 and cl[0].lineno < sd[0].lineno, "stale images must be deleted before the new content is drawn", stmt="draw_screen: _ti_clear_images before super().draw_screen")
    if cl:
        gs = [t for t, b in guards(cl[0]) if b]
        sto = find_stmts("self._ti_screen_canv = canvas", body_walk(ds))
        ck.ob("R2", enclosing_stmt(cl[0]), len(gs) == 1 and same_bool(ds, gs[0], "canvas is not self._ti_screen_canv") and len(sto) == 1 and sto[0][0].lineno < cl[0].lineno,
              "image views must be re-examined whenever a different canvas object is drawn (and the new canvas recorded first)", stmt="draw_screen: re-examine when the canvas changed")
    tc = m.get(W, "UrwidImageScreen._ti_clear_images")
    un = None
    for n in body_walk(tc):
        if isinstance(n, ast.Assign) and norm(n.value) == "cview" and isinstance(n.targets[0], ast.Tuple):
            un = n
    ck.need(un is not None, "_ti_clear_images: unpacking of a canvas view not found")
    comps = []
    for e in un.targets[0].elts:
        nm = norm(e.value) if isinstance(e, ast.Starred) else norm(e)
        # a component that is never read anywhere is a discard (`_`, whatever its spelling after inlining): it is not geometry the method uses
        read_ = any(isinstance(x, ast.Name) and x.id == nm and isinstance(x.ctx, ast.Load) for x in ast.walk(tc))
        if nm != "_" and (read_ or not nm.startswith("_")):
            comps.append(nm)
    add = next((c for c in body_walk(tc) if isinstance(c, ast.Call) and norm(c.func) == "image_cviews.add"), None)
    ck.need(add is not None and isinstance(add.args[0], ast.Tuple), "_ti_clear_images: image_cviews.add((...)) not found")
    key_names = {n.id for n in ast.walk(add.args[0]) if isinstance(n, ast.Name)}
    missing = [c for c in comps + ["row", "col"] if c not in key_names]
    ck.ob("R2", enclosing_stmt(add), not missing,
          f"the identity of an on-screen image view lacks {missing}: two views that differ only in that component compare equal, so no delete is issued when it changes and the old placement stays on screen",
          stmt="_ti_clear_images: view key = (canv, row, col, *trim, cols, rows)")
    # positions advance by the unpacked geometry
    inner = un
    while inner is not None and not isinstance(inner, ast.For):
        inner = inner._p
    outer = inner._p if inner is not None else None
    while outer is not None and not isinstance(outer, ast.For):
        outer = outer._p
    ck.expect(inner is not None and outer is not None and isinstance(outer.target, ast.Tuple) and len(outer.target.elts) == 2, "_ti_clear_images: the shard / canvas-view loops not recognised")
    if inner is not None and outer is not None and isinstance(outer.target, ast.Tuple) and len(outer.target.elts) == 2:
        nrows = norm(outer.target.elts[0])
        widths = [norm(e) for e in un.targets[0].elts if not isinstance(e, ast.Starred)]
        colsv = widths[0] if widths else "cols"
        okc = len([s_ for s_ in inner.body if match_stmt(f"col += {colsv}", s_) is not None]) == 1 and len([s_ for s_ in outer.body if match_stmt(f"row += {nrows}", s_) is not None]) == 1 \
            and any(match_stmt("col = 1", s_) is not None for s_ in outer.body) and any(match_stmt("row = 1", s_) is not None and s_.lineno < outer.lineno for s_ in tc.body)
        ck.ob("R2", tc, okc, f"row/col must advance by the shard geometry: `col += {colsv}` once per view, `row += {nrows}` once per shard, col restarting at 1 in every shard and row starting at 1", stmt="_ti_clear_images: row/col bookkeeping")
    g = CFG(tc)
    insp = [n for n in g.nodes if n.kind in ("stmt", "iter", "test") and n.ast is not None and "self._ti_image_cviews" in norm(n.ast if n.kind != "iter" else n.ast.iter) and not any(
        norm(t) == "self._ti_image_cviews" for t, _ in (stores_in(n.ast) if n.kind == "stmt" else []))]
    upd = [n for n in g.nodes if n.kind == "stmt" and any(norm(t) == "self._ti_image_cviews" for t, _ in stores_in(n.ast))]
    # a return that is decided by the KIND of the screen canvas (no CompositeCanvas = no shards, hence no image views on the new screen) must come after
    # the recorded views were inspected: the images of the previous screen are still on the terminal and only this method can delete them
    def _mentions_views(x):
        a_ = x.ast if x.kind != "iter" else getattr(x.ast, "iter", None)
        if a_ is None:
            return False
        if x.kind == "test":
            a_ = getattr(a_, "test", a_)
        elif isinstance(a_, (ast.If, ast.While, ast.For, ast.Try, ast.With, ast.FunctionDef)):
            return False
        return "self._ti_image_cviews" in norm(a_)
    for r_ in body_walk(tc):
        if not isinstance(r_, ast.Return):
            continue
        kind_dep = [t_ for t_, _b in guards(r_) if "CompositeCanvas" in norm(trace(tc, t_))]
        if not kind_dep:
            continue
        rn_ = g.nodes_of(r_)
        p_ = g.search([g.entry], lambda x: x in rn_, avoid=_mentions_views, edge_ok=lambda s, lab, d: not lab.startswith(("e:", "p:")))
        ck.ob("R2", r_, p_ is None, f"the method returns because of the kind of the new screen canvas (`{short(kind_dep[0], 60)}`) without having looked at the recorded image views "
              f"({fmt_path(p_) if p_ else ''}): when the previous screen showed images and the new top-level canvas is not a CompositeCanvas, they are never deleted (a ghost image stays on the terminal)",
              stmt="_ti_clear_images: a return decided by the canvas kind comes after the recorded views were inspected")
    ck.expect(len(insp) >= 2 and len(upd) >= 2, "_ti_clear_images: reads/updates of _ti_image_cviews not recognised")
    for n in insp:
        p = g.search([n], lambda x: x is g.exit_return, avoid=lambda x: x in upd, edge_ok=lambda s, lab, d: not lab.startswith(("e:", "p:")))
        # a read that found nothing to clear (`if self._ti_image_cviews:` false) needs no update
        if n.kind == "test":
            tst_ = getattr(n.ast, "test", n.ast)
            empty_lab = "true" if isinstance(tst_, ast.UnaryOp) and isinstance(tst_.op, ast.Not) else "false"       # (`if not views: return` is the same shortcut)
            p = g.search([n], lambda x: x is g.exit_return, avoid=lambda x: x in upd, edge_ok=lambda s, lab, d: not lab.startswith(("e:", "p:")) and not (s is n and lab == empty_lab))
        ck.ob("R2", n.ast if n.kind != "iter" else n.ast.iter, p is None, f"after inspecting the recorded image views the method can return without recording the new set ({fmt_path(p) if p else ''}): the next redraw would compare against stale views",
              stmt=f"_ti_clear_images: views updated after `{short(n.ast if n.kind != 'iter' else n.ast.iter, 50)}`")
    last = tc.body[-1]
    ck.ob("R2", last, norm(last) == "self._ti_image_cviews = frozenset(image_cviews)", "the method must end by recording the views found on the new canvas", stmt="_ti_clear_images: records frozenset(image_cviews)")
    diff_loop = next((n for n in body_walk(tc) if isinstance(n, ast.For) and "self._ti_image_cviews - image_cviews" in norm(trace(tc, n.iter))), None)
    ck.ob("R2", diff_loop or tc, diff_loop is not None, "images to delete are the recorded views that are not on the new canvas (old - new)", stmt="_ti_clear_images: deletes old - new")
    for c in body_walk(tc):
        if isinstance(c, ast.Call) and norm(c.func) == "self.clear_images":
            ck.ob("R2", enclosing_stmt(c), not any(k.arg == "now" for k in c.keywords), "deletions issued during a redraw must go through the buffered stream (not now=True) so that they precede the new content", stmt=f"_ti_clear_images: {short(c, 50)} buffered")
    # a delete-all (`clear_images()` without widgets) runs at most once per redraw: each one advances the canvas disguise, and the disguise cycle is
    # short - several of them can bring it back to where it was, so urwid would not re-emit the unchanged lines of the images just wiped
    for c in body_walk(tc):
        if isinstance(c, ast.Call) and norm(c.func) == "self.clear_images" and not c.args:
            cn_ = g.nodes_of(enclosing_stmt(c))
            again = any(x in cn_ for x in g.reachable(cn_, edge_ok=lambda s_, lab, d: not lab.startswith(("e:", "p:"))))
            ck.ob("R2", enclosing_stmt(c), not again, f"the delete-all `{short(c, 40)}` lies on a cycle of the method's flow graph (a loop iterates past it): it can run more than once in one pass; every call advances the canvas disguise and a "
                  "whole cycle of them leaves it unchanged, so the images wiped by the delete-all are not drawn again", stmt="_ti_clear_images: delete-all at most once per pass")
    # views that span several shards leave a tail per column; the tails are aged before every view AND once more after the last view of a shard
    # (a tail at the right edge is followed by no view: without the closing step it never expires and shifts every later view at its column)
    if inner is not None and outer is not None:
        closures_ = {n_.name: n_ for n_ in ast.walk(tc) if isinstance(n_, ast.FunctionDef) and n_ is not tc}
        def _tail_step(st_):
            for x in ast.walk(st_):
                if isinstance(x, ast.While) and isinstance(x.test, ast.Compare) and len(x.test.ops) == 1 and isinstance(x.test.ops[0], ast.In):
                    return True
                if isinstance(x, ast.Call) and isinstance(x.func, ast.Name) and x.func.id in closures_ and any(
                        isinstance(y, ast.While) and isinstance(y.test, ast.Compare) and len(y.test.ops) == 1 and isinstance(y.test.ops[0], ast.In) for y in ast.walk(closures_[x.func.id])):
                    return True
            return False
        top_inner = inner
        while top_inner._p is not outer:
            top_inner = top_inner._p
        before = any(_tail_step(s_) for s_ in inner.body)
        idx_ = outer.body.index(top_inner)
        after = any(_tail_step(s_) for s_ in outer.body[idx_ + 1:])
        ck.expect(before, "_ti_clear_images: the step that ages the shard tails (`while col in shard_tails`) not recognised")
        if before:
            ck.ob("R2", outer, after, "the shard tails are aged before each view but not after the last view of a shard: a tail at the right edge of a shard never expires, and an image that later starts at "
                  "its column is recorded one tail-width off (moves of that image then go unnoticed and its old placements are never deleted)", stmt="_ti_clear_images: shard tails aged after the last view of each shard")
    ci = m.get(W, "UrwidImageScreen.clear_images")
    for c in body_walk(ci):
        if isinstance(c, ast.Call) and norm(c.func) in ("self.write", "write_tty"):
            now_true = any(norm(t) == "now" and b for t, b in guards(c))
            now_false = any(norm(t) == "now" and not b for t, b in guards(c))
            ck.ob("R2", enclosing_stmt(c), (norm(c.func) == "write_tty") == now_true and (norm(c.func) == "self.write") == now_false, "immediate deletes use write_tty, deferred ones the screen's buffered write", stmt=f"clear_images: {norm(c.func)} under now={now_true}")

    # ---- R3 ----------------------------------------------------------------------------
    for meth, rel_super, order in (("clear", "super().clear", "before"), ("_start", "super()._start", "after"), ("_stop", "super()._stop", "before")):
        f = m.get(W, f"UrwidImageScreen.{meth}")
        g2 = CFG(f)
        is_clear = lambda n: n.kind == "stmt" and n.ast is not None and any(isinstance(c, ast.Call) and norm(c.func) == "self.clear_images" for c in ast.walk(n.ast))  # noqa: E731
        p = g2.search([g2.entry], lambda n: n is g2.exit_return, avoid=is_clear, from_succ=False, edge_ok=lambda s, lab, d: not lab.startswith(("e:", "p:")))
        ck.ob("R3", f, p is None, f"{meth}() can return without clearing images", stmt=f"{meth}: clear_images on every normal path")
        cc = [c for c in body_walk(f) if isinstance(c, ast.Call) and norm(c.func) == "self.clear_images"]
        sc = [c for c in body_walk(f) if isinstance(c, ast.Call) and norm(c.func) == rel_super]
        if cc and sc:
            ok = cc[0].lineno < sc[0].lineno if order == "before" else cc[0].lineno > sc[0].lineno
            ck.ob("R3", f, ok, f"{meth}(): clear_images must come {order} {rel_super}() (the terminal must be in the mode the delete sequence needs)", stmt=f"{meth}: clear_images {order} {rel_super}")
    g3 = CFG(ci)
    wtests = [n for n in g3.nodes if n.kind == "test" and n.ast is not None and norm(n.ast) in ("widgets", "not widgets")]
    ck.need(bool(wtests), "clear_images: the test on `widgets` (clear all / clear some) not found")
    is_dis = lambda n: n.kind == "stmt" and n.ast is not None and "UrwidImageCanvas._ti_change_disguise()" in norm(n.ast)  # noqa: E731

    def all_branch(s, lab, d):
        """edges compatible with `widgets` being empty (the clear-everything case)"""
        if lab.startswith(("e:", "p:")):
            return False
        if s.kind == "test" and s.ast is not None and norm(s.ast) == "widgets" and lab == "true":
            return False
        if s.kind == "test" and s.ast is not None and norm(s.ast) == "not widgets" and lab == "false":
            return False
        return True
    p = g3.search(wtests, lambda n: n is g3.exit_return, avoid=is_dis, edge_ok=all_branch)
    else_branch = wtests[0].ast
    ck.ob("R3", enclosing_stmt(else_branch), p is None,
          f"clearing all images can complete without changing the canvas disguise ({fmt_path(p) if p else ''}): urwid's line cache then skips the unchanged image lines and the deleted images are never drawn again",
          stmt="clear_images[all]: disguise changed on every path (now or deferred)")
    wl = next((n for n in body_walk(ci) if isinstance(n, ast.For) and "enumerate(widgets)" in norm(n.iter)), None)
    # both the disguise change and the queuing run for exactly the kitty widgets (enclosing `if`, or after a `continue` guard)
    wv_ = norm(wl.target.elts[1]) if wl is not None and isinstance(wl.target, ast.Tuple) and len(wl.target.elts) == 2 else "widget"       # (the loop variable, whatever it is called)
    def _kitty_only(call_src):
        cs_ = [c for c in (walk_local(wl) if wl is not None else []) if isinstance(c, ast.Call) and norm(c) == call_src]
        return len(cs_) == 1 and f"isinstance({wv_}._ti_image, KittyImage)" in conds(cs_[0])
    okw = wl is not None and _kitty_only(f"{wv_}._ti_change_disguise()") and _kitty_only(f"kitty_widgets.append({wv_})")
    ck.ob("R3", wl or ci, okw, "clearing specific widgets must change each kitty widget's disguise when it is queued for deletion (independently of now)", stmt="clear_images[widgets]: per-widget disguise changed")

    # ---- R4 ----------------------------------------------------------------------------
    ui = m.get(W, "UrwidImage")
    for rel, _q, t, st in m.stores():

        if True:
            if isinstance(t, ast.Attribute) and t.attr == "_ti_z_index":
                fn_ = enclosing_func(st)
                ck.ob("R4", st, "self._ti_get_z_index()" in norm(trace(fn_, st.value) if isinstance(fn_, ast.FunctionDef) else st.value), f"`{short(st, 60)}`: a widget's z-index must come from the allocator", stmt=f"{getattr(st, '_q', '')}: _ti_z_index from allocator")
    al = m.get(W, "UrwidImage._ti_get_z_index")
    n_acc = 0
    for n in m.walk(W):
        if isinstance(n, ast.Attribute) and n.attr in ("_ti_next_z_index", "_ti_free_z_indexes"):
            n_acc += 1
            q = getattr(enclosing_stmt(n), "_q", "")
            fn_ = enclosing_func(n)
            base = norm(trace(fn_, n.value) if isinstance(fn_, ast.FunctionDef) else n.value)       # (through a local alias such as `cls = __class__`)
            ck.ob("R4", enclosing_stmt(n), base in ("__class__", "UrwidImage"),
                  f"`{norm(n)}` in {q}: the allocator state must be accessed through __class__ - through cls/self/type(self) a subclass gets its own counter while the free list stays shared, "
                  "so two live widgets can receive the same z-index", stmt=f"{q}: {norm(n)} via __class__")
            if isinstance(n.ctx, ast.Store):
                ck.ob("R4", enclosing_stmt(n), q.endswith("_ti_get_z_index"), f"`{norm(n)}` is written outside the allocator", stmt=f"{q}: only the allocator stores {n.attr}")
    ck.expect(n_acc >= 3, "allocator state accesses not found")
    for c in m.walk(W):
        if isinstance(c, ast.Call) and isinstance(c.func, ast.Attribute) and isinstance(c.func.value, ast.Attribute) and c.func.value.attr == "_ti_free_z_indexes":
            q = getattr(enclosing_stmt(c), "_q", "")
            if c.func.attr == "add":
                fn_ = enclosing_func(c)
                ck.ob("R4", enclosing_stmt(c), q.endswith("UrwidImage.__del__") and norm(trace(fn_, c.args[0]) if isinstance(fn_, ast.FunctionDef) else c.args[0]) == "self._ti_z_index", "indexes are returned to the free list only by the dying widget, with its own index", stmt="free list: add(self._ti_z_index) in __del__")
            elif c.func.attr == "pop":
                ck.ob("R4", enclosing_stmt(c), q.endswith("_ti_get_z_index"), "indexes are taken from the free list only by the allocator", stmt="free list: pop() in allocator")
            else:
                ck.ob("R4", enclosing_stmt(c), False, f"unexpected operation `{short(c, 40)}` on the free list", stmt=f"free list: {short(c, 40)}")
    ov = next((s for s in body_walk(al) if isinstance(s, ast.If) and isinstance(s.body[0], ast.Raise) and "UrwidImageError" in norm(s.body[0])), None)
    st = next((s for t, s in stores_in(ast.Module(body=al.body, type_ignores=[])) if isinstance(t, ast.Attribute) and t.attr == "_ti_next_z_index"), None)
    ovt = trace(al, ov.test) if ov is not None else None
    ck.ob("R4", al, ov is not None and st is not None and ov.lineno < st.lineno and match_expr("__class__._ti_next_z_index == 2 ** 31", ovt) is not None,
          "the allocator must refuse to hand out 2**31 (outside the signed 32-bit range) before advancing the counter", stmt="allocator: overflow test == 2**31 before the store")
    if st is not None and ov is not None:
        Z = "__class__._ti_next_z_index"
        sv = trace(al, st.value)
        b_ = match_expr(f"$a if {Z} > 0 else $b", sv)
        try:
            oks = b_ is not None and equal(b_["a"], parse(f"-{Z}")) and equal(b_["b"], parse(f"1 - {Z}"))
        except NotPoly:
            oks = False
        ck.ob("R4", st, oks, f"successor must be -z for positive and -z+1 for non-positive z (1, -1, 2, -2, ...: never reaches -(2**31)); found `{norm(sv)}`", stmt="allocator: successor function")
    init = next((s for s in ui.body if isinstance(s, ast.Assign) and norm(s.targets[0]) == "_ti_next_z_index"), None)
    ck.ob("R4", init or ui, init is not None and norm(init.value) == "1", "the counter starts at 1", stmt="allocator: starts at 1")
    dec = {(dotted(d) or "") for d in al.decorator_list}
    ck.ob("R4", al, "staticmethod" in dec, "the allocator must be a staticmethod bound to the base class's state", stmt="allocator: staticmethod")

    # ---- R5 ----------------------------------------------------------------------------
    n5 = 0
    for _r, _q, t, st in m.stores(W):
        if isinstance(t, ast.Attribute) and t.attr == "_ti_image_cviews":
            n5 += 1
            ck.ob("R5", st, isinstance(st.value, ast.Call) and call_name(st.value) == "frozenset", f"`{short(st, 60)}` binds something other than a frozenset", stmt=f"{getattr(st, '_q', '')}: {short(st, 60)}")
    ck.expect(n5 >= 3, "stores of _ti_image_cviews not found")
    for c in m.walk(W):
        if isinstance(c, ast.Call) and isinstance(c.func, ast.Attribute) and isinstance(c.func.value, ast.Attribute) and c.func.value.attr == "_ti_image_cviews":
            ck.ob("R5", enclosing_stmt(c), c.func.attr not in MUTATORS, f"`{short(c, 50)}` mutates a frozenset (AttributeError at run time)", stmt=f"{short(c, 50)} on a frozenset")
    # ---- R6 ----------------------------------------------------------------------------
    for s in scr.body:
        if isinstance(s, ast.FunctionDef) and s.name in ("draw_screen", "flush", "get_available_raw_input", "write"):
            ck.ob("R6", s, any((dotted(d) or "") == "lock_tty" for d in s.decorator_list), f"UrwidImageScreen.{s.name} must be decorated with lock_tty", stmt=f"UrwidImageScreen.{s.name}: @lock_tty")

    # the widget's own z-index / blend / split_cells must end up in the style args used for rendering, whatever the format spec says
    ini_w = m.get(W, "UrwidImage.__init__")
    sa = [st for t, st in stores_in(ast.Module(body=ini_w.body, type_ignores=[])) if norm(t) == "self._ti_style_args"]
    ck.expect(len(sa) == 1, "UrwidImage.__init__: store of self._ti_style_args not found")
    if len(sa) == 1:
        v = sa[0].value
        if isinstance(v, ast.Dict):
            # {**a, **b}: later entries win - the format specifier's dict must come first
            srcs = [norm(x) for k_, x in zip(v.keys, v.values) if k_ is None]
            spec_i = [i for i, x in enumerate(srcs) if x == "style_args"]
            ck.ob("R4", sa[0], bool(spec_i) and spec_i[0] == 0, f"self._ti_style_args = {norm(v)[:70]}: the arguments parsed from the format specifier must not override the widget's own (z_index is allocated per widget; a `z` field "
                  "in the specifier is documented as ignored) - with another z the delete-by-z-index commands miss the placements", stmt="UrwidImage.__init__: widget-owned style args take precedence")
        else:
            zs = [st for t, st in stores_in(ast.Module(body=ini_w.body, type_ignores=[])) if isinstance(t, ast.Subscript) and norm(t.slice) == "'z_index'"]
            ck.ob("R4", sa[0], norm(v) == "style_args" and len(zs) == 1 and norm(zs[0].targets[0].value) == "style_args" and zs[0].lineno > sa[0].lineno or (len(zs) == 1 and norm(zs[0].targets[0].value) in ("style_args", "self._ti_style_args")),
                  "the widget's z-index must be written into the very dict used as self._ti_style_args (after the format specifier was parsed)", stmt="UrwidImage.__init__: widget-owned style args take precedence")

    # blend=False (delete what is under the cursor before placing an image line) is what removes the stale placement when urwid re-emits a row at an
    # unchanged position; it is applied to every kitty widget except on konsole - not only when some version is known (forced / preset support, a widget
    # created before detection ran)
    from tiv.sem import tconds as _tcw
    bl_ = [st for t, st in stores_in(ast.Module(body=ini_w.body, type_ignores=[])) if isinstance(t, ast.Subscript) and norm(t.slice) == "'blend'" and norm(st.value) == "False"]
    ck.expect(len(bl_) == 1, f"UrwidImage.__init__: the `blend = False` style argument not found ({len(bl_)})")
    for st in bl_:
        # (type tests of the arguments - validation, the style dispatch - and the konsole exception are the only conditions)
        extra_ = sorted(c_ for c_ in _tcw(ini_w, st) if not (c_.startswith(("isinstance(", "not isinstance(")) or "get_terminal_name_version()[0]" in c_))
        ck.ob("R2", st, not extra_, f"the widget's `blend=False` is applied only under {[e_[:60] for e_ in extra_]}: whenever that does not hold the widget renders with blend=True and no delete-at-cursor, so a row "
              "re-emitted at an unchanged position stacks a new placement on the stale one", stmt="UrwidImage.__init__: blend=False for every kitty widget not on konsole")


MUTANTS = [
    M("merge-early-returns", W, "UrwidImageScreen._ti_clear_images", "            if self._ti_image_cviews:\n                self.clear_images()\n                self._ti_image_cviews = frozenset()\n            return\n", "            return\n", {"R2"}),
    M("delete-after-draw", W, "UrwidImageScreen.draw_screen",
      "            if canvas is not self._ti_screen_canv:\n                self._ti_screen_canv = canvas\n                self._ti_clear_images()\n            return super().draw_screen(maxres, canvas)\n",
      "            ret = super().draw_screen(maxres, canvas)\n            if canvas is not self._ti_screen_canv:\n                self._ti_screen_canv = canvas\n                self._ti_clear_images()\n            return ret\n", {"R2"}),
    M("end-outside-finally", W, "UrwidImageScreen.draw_screen", "        finally:\n            self.write(END_SYNCED_UPDATE)\n            self.flush()", "        except BaseException:\n            raise\n        self.write(END_SYNCED_UPDATE)\n        self.flush()", {"R1"}),
    M("stop-no-clear", W, "UrwidImageScreen._stop", "        self.clear_images()\n", "", {"R3"}),
    M("start-clear-before", W, "UrwidImageScreen._start", "        ret = super()._start(*args, **kwargs)\n        self.clear_images()\n", "        self.clear_images()\n        ret = super()._start(*args, **kwargs)\n", {"R3"}),
    M("z-index-zero", W, "UrwidImage.__init__", "style_args[\"z_index\"] = self._ti_z_index = self._ti_get_z_index()", "style_args[\"z_index\"] = self._ti_z_index = 0", {"R4"}),
    M("successor-same", W, "UrwidImage._ti_get_z_index", "-z_index if z_index > 0 else -z_index + 1", "-z_index if z_index > 0 else -z_index", {"R4"}),
    M("overflow-2-32", W, "UrwidImage._ti_get_z_index", "if z_index == 2**31:", "if z_index == 2**32:", {"R4"}),
    M("delete-all-per-view", W, "UrwidImageScreen._ti_clear_images", "                self.clear_images()\n                # Multiple `clear_images()`s messes up the canvas disguise\n                # A single `clear_images()` takes care of all images anyways\n                break\n", "                self.clear_images()\n", {"R2"}),
    M("tails-not-aged-at-shard-end", W, "UrwidImageScreen._ti_clear_images", "                col += cols\n            process_shard_tails()\n            row += n_rows\n", "                col += cols\n            row += n_rows\n", {"R2"}),
    M("blend-needs-version", W, "UrwidImage.__init__", '            if get_terminal_name_version()[0] != "konsole":\n', '            if get_terminal_name_version()[0] != "konsole" and KittyImage._KITTY_VERSION > (0, 25, 0):\n', {"R2"}),
    M("twin-key-order", W, "UrwidImageScreen._ti_clear_images", "image_cviews.add((canv, row, col, *trim, cols, rows))", "image_cviews.add((canv, row, col, cols, rows, *trim))", twin=True),
    M("revert-fix-frozenset-clear", W, "UrwidImageScreen._ti_clear_images", "                self._ti_image_cviews = frozenset()\n", "                self._ti_image_cviews.clear()\n", {"R5", "R2"}),
    M("key-loses-cols", W, "UrwidImageScreen._ti_clear_images", "image_cviews.add((canv, row, col, *trim, cols, rows))", "image_cviews.add((canv, row, col, *trim, rows))", {"R2"}),
    M("disguise-only-deferred", W, "UrwidImageScreen.clear_images",
      "                self.write(ctlseqs.KITTY_DELETE_ALL)\n            UrwidImageCanvas._ti_change_disguise()", "                self.write(ctlseqs.KITTY_DELETE_ALL)\n                UrwidImageCanvas._ti_change_disguise()", {"R3"}),
    M("undecorate-draw-screen", W, "UrwidImageScreen.draw_screen", "    @lock_tty\n    def draw_screen", "    def draw_screen", {"R6"}),
]
