"""C19 - format specifiers are accepted and interpreted exactly as documented (DESIGN.md 4, C19)."""
from __future__ import annotations

import ast
import re

from tiv import rex
from tiv.astutil import (guards, assigned_targets, body_walk, call_name, dotted, enclosing_stmt, norm, short, stores_in,
                         walk_local)
from tiv.match import find_stmts, match_expr
from tiv.mutate import M
from tiv.sem import expand, trace, cx, specialize
from tiv.srcmodel import AnalysisError

RULES = {
    "MEMO": "memo safety (shared, rules/common.py): a memoised function in this property's files (or called from them) is a function of its "
            "arguments only (no terminal/ambient/receiver state outside the key) and no caller mutates its result in place; an object returned by a memoised function is followed one hop further (through a caller's returned tuple) and must not be mutated there either",
    "R1": "the accepted language of _check_format_spec - read from the regex literals _FORMAT_SPEC / _NO_VERTICAL_SPEC and the "
          "boolean combination in its `if` - equals the documented grammar "
          "[h_align][width][.(v_align[height]|height)][#[threshold|bgcolor]][+style] (docs/source/guide/formatting.rst) for "
          "strings of every length; _ALPHA_BG_FORMAT is exactly '#' | '#'hex6",
    "R2": "every use of a field is traced back to its group of _FORMAT_SPEC (groups()[i], group(k), m[k] alike): group k has the field's language; _check_formatting receives (group 2, int(group 3) or 0, group 5, int(group 6) or -2); the alpha value is, by case specialisation, _ALPHA_THRESHOLD without '#', the empty group for a bare '#', '#'+hex for a colour, float() for a threshold; the style part goes to _check_style_format_spec; these defaults equal those of draw()/_check_formatting; parsed numbers are never tested for truthiness",
    "R3": "per style: number of _FORMAT_SPEC field patterns = arity of the field unpacking; keys written into args[...] are keys of "
          "_style_args; keys of _style_args = keyword-only parameters of _render_image minus the internal ones, with equal defaults; "
          "field patterns are pairwise non-overlapping; _get_style_format_spec anchors every field after the first "
          "(pattern.match at pos=end) and rejects any remainder; decimal fields are unbounded in length (no finite repeat bound on a digit class in a field pattern)",
    "R5": "the specifier is checked by the class whose style part it carries: _check_format_spec / _check_style_format_spec / _check_style_args are called "
          "through an instance, cls, type(x) or super(), never through a base class named literally",
    "R4": "checking has no side effect: the functions reachable from _check_format_spec store to no attribute/global, and every "
          "rejection raises ValueError/TypeError/StyleError",
}

CM = "image/common.py"
# docs/source/guide/formatting.rst, "Render Format Specification": fields and their alphabets.
GRAMMAR = r"[<|>]?\d*(\.([-^_]\d*|\d+))?(#(\.\d+|[0-9a-fA-F]{6}|#)?)?(\+.+)?"
FIELD_LANG = {
    "h_align": r"[<|>]", "width": r"\d+", "v_align": r"[-^_]", "height": r"\d+",
    "alpha": r"#(\.\d+|[0-9a-fA-F]{6}|#)?", "threshold_or_bg": r"\.\d+|[0-9a-fA-F]{6}|#", "style_spec": r".+",
}
INTERNAL_STYLE_PARAMS = {"frame", "blend", "split_cells"}


def _regex_literals(m, rel):
    """{name: (pattern, flags)} for module-level `NAME = re.compile(<literal>, <flags>)`."""
    out = {}
    from tiv.constfold import Folder, UNKNOWN
    fold = Folder(m.tree(rel))
    for st in m.tree(rel).body:
        if isinstance(st, ast.Assign) and isinstance(st.value, ast.Call) and call_name(st.value) == "re.compile" and st.value.args:
            pat = st.value.args[0]
            if not (isinstance(pat, ast.Constant) and isinstance(pat.value, str)):
                v = fold.eval(pat)            # patterns assembled from module-level string constants
                if v is UNKNOWN or not isinstance(v, str):
                    continue
                pat = ast.Constant(value=v)
            flags = 0
            for a in st.value.args[1:] + [k.value for k in st.value.keywords]:
                for n in ast.walk(a):
                    if isinstance(n, ast.Attribute) and isinstance(n.value, ast.Name) and n.value.id == "re":
                        flags |= int(getattr(re, n.attr))
            for t in st.targets:
                if isinstance(t, ast.Name):
                    out[t.id] = (pat.value, flags, st)
    return out


def _bool_of(expr, atoms):
    """Translate the reject condition into a function of the atom truth values."""
    if isinstance(expr, ast.BoolOp):
        fs = [_bool_of(v, atoms) for v in expr.values]
        if isinstance(expr.op, ast.And):
            return lambda env: all(f(env) for f in fs)
        return lambda env: any(f(env) for f in fs)
    if isinstance(expr, ast.UnaryOp) and isinstance(expr.op, ast.Not):
        f = _bool_of(expr.operand, atoms)
        return lambda env: not f(env)
    # `m is None` / `m is not None` on a match object: the falsity / truth of m (a match object is always truthy)
    if isinstance(expr, ast.Compare) and len(expr.ops) == 1 and isinstance(expr.ops[0], (ast.Is, ast.IsNot)) and isinstance(expr.comparators[0], ast.Constant) \
            and expr.comparators[0].value is None and norm(expr.left) in atoms:
        a0 = atoms[norm(expr.left)]
        return (lambda env: not env[a0]) if isinstance(expr.ops[0], ast.Is) else (lambda env: env[a0])
    key = norm(expr)
    if key in atoms:
        a = atoms[key]
        return lambda env: env[a]
    raise AnalysisError(f"C19.R1: unrecognised atom `{key}` in the reject condition of _check_format_spec")


def run(ck, m):
    from rules.common import rule_memo_safety
    rule_memo_safety(ck, m, "MEMO", "C19")          # first: a memoised helper also hides the code it wraps from the rules below
    lits = _regex_literals(m, CM)
    for nm in ("_FORMAT_SPEC", "_NO_VERTICAL_SPEC", "_ALPHA_BG_FORMAT"):
        ck.need(nm in lits, f"regex literal {nm} not found in {CM}")
    cfs = m.get(CM, "BaseImage._check_format_spec")
    # -- how the function combines them --------------------------------------------------
    atoms = {}
    for n in body_walk(cfs):
        if isinstance(n, ast.Call) and isinstance(n.func, ast.Attribute) and n.func.attr in ("fullmatch", "match", "search") \
                and isinstance(n.func.value, ast.Name) and n.func.value.id in lits and n.args and norm(n.args[0]) == "spec":
            ck.ob("R1", enclosing_stmt(n), n.func.attr == "fullmatch",
                  f"`{norm(n)}` does not use fullmatch: trailing characters after a sentence would be accepted/ignored", stmt=f"_check_format_spec: {norm(n)}")
            atoms[norm(n)] = n.func.value.id
    for t, st in stores_in(ast.Module(body=cfs.body, type_ignores=[])):
        if isinstance(t, ast.Name) and isinstance(st, ast.Assign) and norm(st.value) in atoms:
            atoms[t.id] = atoms[norm(st.value)]
    # the reject condition: the disjunction, over every `raise` whose guards are built from the match atoms only, of the conjunction of its guards
    # (one `if a or b: raise`, or consecutive `if a: raise` / `if b: raise`, or a nested form - all the same set of rejected strings)
    rej_terms, first_if = [], None
    for r_ in body_walk(cfs):
        if not isinstance(r_, ast.Raise):
            continue
        gs_ = list(guards(r_))
        if not gs_:
            continue
        try:
            fs_ = [(_bool_of(t_, atoms), b_) for t_, b_ in gs_]
        except AnalysisError:
            continue
        rej_terms.append(fs_)
        if first_if is None:
            first_if = enclosing_stmt(r_)._p if isinstance(enclosing_stmt(r_)._p, ast.If) else enclosing_stmt(r_)
    if not rej_terms:
        # (kept for the diagnostic: which atom was not understood)
        fi_ = next((s for s in cfs.body if isinstance(s, ast.If)), None)
        ck.need(fi_ is not None and any(isinstance(x, ast.Raise) for x in fi_.body), "reject `if` of _check_format_spec not found")
        _bool_of(fi_.test, atoms)
    ck.need(bool(rej_terms), "reject condition of _check_format_spec not found")
    reject = lambda env: any(all(bool(f_(env)) == b_ for f_, b_ in fs_) for fs_ in rej_terms)
    used = sorted(set(atoms.values()))
    langs = {nm: rex.compile_pattern(lits[nm][0], lits[nm][1]) for nm in used}
    G = rex.compile_pattern(GRAMMAR, re.ASCII)
    order = list(langs)

    def diff(bits):
        env = dict(zip(order, bits[:-1]))
        return (not reject(env)) != bits[-1]

    w, stats = rex.decide([langs[k] for k in order] + [G], diff, limit=4)
    only_acc, _ = rex.decide([langs[k] for k in order] + [G], lambda b: (not reject(dict(zip(order, b[:-1])))) and not b[-1], limit=3)
    only_gr, _ = rex.decide([langs[k] for k in order] + [G], lambda b: reject(dict(zip(order, b[:-1]))) and b[-1], limit=3)
    ck.ob("R1", first_if, not w,
          f"accepted language differs from the documented grammar: accepted but not documented {only_acc!r}; documented but rejected {only_gr!r} (shortest witnesses)",
          stmt="L(accept(_FORMAT_SPEC, _NO_VERTICAL_SPEC)) == L(documented grammar)")
    ck.extra["regex_algebra"] = {"condition": norm(first_if.test) if isinstance(first_if, ast.If) else f"{len(rej_terms)} reject site(s)", "literals": {k: lits[k][0] for k in used}, **stats}
    A = rex.compile_pattern(lits["_ALPHA_BG_FORMAT"][0], lits["_ALPHA_BG_FORMAT"][1])
    A_doc = rex.compile_pattern(r"#([0-9a-fA-F]{6})?", re.ASCII)
    w, _ = rex.decide([A, A_doc], lambda b: b[0] != b[1], limit=3)
    ck.ob("R1", lits["_ALPHA_BG_FORMAT"][2], not w, f"_ALPHA_BG_FORMAT differs from '#' | '#'hex6 on {w!r}", stmt="L(_ALPHA_BG_FORMAT)")
    # draw() validates alpha strings with the same literal
    draw = m.get(CM, "BaseImage.draw")
    ck.ob("R1", draw, any(norm(c) == "_ALPHA_BG_FORMAT.fullmatch(alpha)" for c in body_walk(draw) if isinstance(c, ast.Call)),
          "draw() must validate a string alpha with _ALPHA_BG_FORMAT.fullmatch", stmt="draw: alpha validated with _ALPHA_BG_FORMAT.fullmatch")

    # ---- R2 ----------------------------------------------------------------------------
    pat, flags, fs_stmt = lits["_FORMAT_SPEC"]
    groups, ngroups = rex.group_subpatterns(pat, flags)
    # which group feeds which use: every use is traced back to the match object and the group references are put in one form
    # (`m.groups()[i]` / `m.group(k)` / `m.group(a, b)[i]` / `m[k]`  ->  Gk), then compared case by case.
    FIELD_BY_GROUP = {2: "h_align", 3: "width", 5: "v_align", 6: "height", 7: "alpha", 8: "threshold_or_bg", 10: "style_spec"}
    ck.ob("R2", fs_stmt, ngroups == 10, f"_FORMAT_SPEC has {ngroups} groups; the parser relies on 10", stmt="_FORMAT_SPEC: 10 groups")
    for i, tname in FIELD_BY_GROUP.items():
        if i in groups:
            got = rex.lang_of_items(*groups[i])
            exp = rex.compile_pattern(FIELD_LANG[tname], re.ASCII)
            w, _ = rex.decide([got, exp], lambda b: b[0] != b[1], limit=3)
            ck.ob("R2", fs_stmt, not w, f"group {i} (the `{tname}` field) does not have the field's language; differs on {w!r}", stmt=f"group {i} -> {tname}")

    def G(e):
        """traced expression with group references canonicalised to names G1..G10"""
        class T(ast.NodeTransformer):
            def visit_Subscript(t, n):
                t.generic_visit(n)
                v, sl = n.value, n.slice
                if isinstance(sl, ast.Constant) and isinstance(sl.value, int) and isinstance(v, ast.Call) and isinstance(v.func, ast.Attribute) and "fullmatch(spec)" in norm(v.func.value):
                    if v.func.attr == "groups" and not v.args:
                        return ast.Name(id=f"G{sl.value + 1}", ctx=ast.Load())
                    if v.func.attr == "group" and len(v.args) > sl.value >= 0 and all(isinstance(a_, ast.Constant) for a_ in v.args):
                        return ast.Name(id=f"G{v.args[sl.value].value}", ctx=ast.Load())
                if isinstance(sl, ast.Constant) and isinstance(sl.value, int) and "fullmatch(spec)" in norm(v) and norm(v).endswith("fullmatch(spec)"):
                    return ast.Name(id=f"G{sl.value}", ctx=ast.Load())
                return n

            def visit_Call(t, n):
                t.generic_visit(n)
                if isinstance(n.func, ast.Attribute) and n.func.attr == "group" and len(n.args) == 1 and isinstance(n.args[0], ast.Constant) and norm(n.func.value).endswith("fullmatch(spec)"):
                    return ast.Name(id=f"G{n.args[0].value}", ctx=ast.Load())
                return n
        return T().visit(trace(cfs, e))

    def CX(src):
        return cx(ast.parse(src, mode="eval").body)
    cfc = [c for c in body_walk(cfs) if isinstance(c, ast.Call) and norm(c.func).endswith("._check_formatting") and len(c.args) == 4]
    ck.expect(len(cfc) == 1, "_check_format_spec: the `cls._check_formatting(h_align, width, v_align, height)` call not recognised")
    if len(cfc) == 1:
        a0, a1, a2, a3 = [G(a_) for a_ in cfc[0].args]
        ck.ob("R2", enclosing_stmt(cfc[0]), cx(a0) == CX("G2") and cx(a2) == CX("G5"), f"the alignments must come from groups 2 and 5; found `{norm(a0)[:50]}`, `{norm(a2)[:50]}`", stmt="h_align <- group 2, v_align <- group 5")
        for nm_, a_, g_, dflt in (("width", a1, "G3", "0"), ("height", a3, "G6", "-2")):
            ck.ob("R2", enclosing_stmt(cfc[0]), cx(a_) == CX(f"int({g_}) if {g_} else {dflt}"),
                  f"absent {nm_} must default to {dflt} (terminal-relative) and a present one to int(<{nm_} group>); found `{norm(a_)[:90]}`", stmt=f"default {nm_}")
    rets = [r for r in body_walk(cfs) if isinstance(r, ast.Return) and isinstance(r.value, ast.Tuple) and len(r.value.elts) >= 3]
    ck.expect(len(rets) == 1, "_check_format_spec: `return (*formatting, alpha, style_args)` not recognised")
    if len(rets) == 1:
        alpha_e, style_e = G(rets[0].value.elts[-2]), G(rets[0].value.elts[-1])
        BG = "'#' + G8.lstrip('#')"
        for facts, want, why in (
                ({"G7": False}, "_ALPHA_THRESHOLD", "absent '#' must default to _ALPHA_THRESHOLD"),
                ({"G7": True, "G8": False}, "G8", "a bare '#' (no threshold/colour) must pass the empty group on (transparency disabled)"),
                ({"G7": True, "G8": True, f"_ALPHA_BG_FORMAT.fullmatch({BG})": True}, BG, "a colour must be normalised to '#' + hex"),
                ({"G7": True, "G8": True, f"_ALPHA_BG_FORMAT.fullmatch({BG})": False}, "float(G8)", "a threshold must be parsed as float")):
            got = specialize(alpha_e, facts)
            left = [n for n in ast.walk(got) if isinstance(n, (ast.IfExp, ast.BoolOp))]
            ck.expect(not left or cx(got) == CX(want), f"_check_format_spec: alpha expression not decided under {facts}: `{norm(got)[:100]}`")
            if not left or cx(got) == CX(want):
                ck.ob("R2", rets[0], cx(got) == CX(want), f"{why}; found `{norm(got)[:90]}` under {facts}", stmt=f"alpha under {sorted(facts.items())}")
        for facts, want, why in (({"G10": False}, "{}", "no style part: no style arguments"),):
            got = specialize(style_e, facts)
            ck.ob("R2", rets[0], cx(got) == CX(want), f"{why}; found `{norm(got)[:90]}`", stmt="style args without a style part")
        got = specialize(style_e, {"G10": True})
        ck.ob("R2", rets[0], "_check_style_format_spec(G10, G10)" in norm(got), f"the style part (group 10) must be handed to _check_style_format_spec; found `{norm(got)[:90]}`", stmt="style part -> _check_style_format_spec")
    # the documented defaults of draw() and _check_formatting agree
    def defaults(fn):
        a = fn.args
        pos = a.posonlyargs + a.args
        d = dict(zip([x.arg for x in pos[len(pos) - len(a.defaults):]], [norm(x) for x in a.defaults]))
        d.update({k.arg: norm(v) for k, v in zip(a.kwonlyargs, a.kw_defaults) if v is not None})
        return d
    dd = defaults(draw)
    cf = defaults(m.get(CM, "BaseImage._check_formatting"))
    ck.ob("R2", draw, dd.get("pad_width") == "0" == cf.get("width") and dd.get("pad_height") == "-2" == cf.get("height") and dd.get("alpha") == "_ALPHA_THRESHOLD",
          f"defaults disagree: draw{ {k: dd.get(k) for k in ('pad_width', 'pad_height', 'alpha')} } vs _check_formatting{cf}", stmt="defaults of draw() == defaults of a specifier")
    # parsed numbers never tested for truthiness
    numeric = set()
    checked_fns = [cfs] + [fn for rel, q, fn in m.functions() if fn.name == "_check_style_format_spec"]
    for fn in checked_fns:
        numeric = {t.id for t, st in stores_in(ast.Module(body=fn.body, type_ignores=[]))
                   if isinstance(t, ast.Name) and isinstance(st, ast.Assign) and any(isinstance(c, ast.Call) and call_name(c) in ("float", "int") for c in ast.walk(st.value))}
        for n in body_walk(fn):
            tests = []
            if isinstance(n, ast.BoolOp):
                tests = n.values[:-1]
            elif isinstance(n, (ast.IfExp, ast.If, ast.While)):
                tests = [n.test]
            for t in tests:
                bad = (isinstance(t, ast.Name) and t.id in numeric) or (isinstance(t, ast.Call) and call_name(t) in ("float", "int"))
                if bad or (isinstance(t, ast.Name) and t.id in ("threshold", "bgcolor")):
                    pass
                ck.ob("R2", enclosing_stmt(n), not bad,
                      f"`{short(t, 40)}` is a parsed number used as a truth value: a zero field value would be treated as absent", stmt=f"{fn.name}: truthiness of {short(t, 40)}",
                      nontrivial=bad) if bad else None
    ck.ob("R2", cfs, True, "no parsed number used as a truth value", stmt="numeric truthiness scan")

    # ---- R3 ----------------------------------------------------------------------------
    n_styles = 0
    for rel, q, cls in m.classes():
        spec = None
        for st in cls.body:
            tgt = st.targets[0] if isinstance(st, ast.Assign) else getattr(st, "target", None)
            if isinstance(st, (ast.Assign, ast.AnnAssign)) and isinstance(tgt, ast.Name) and tgt.id == "_FORMAT_SPEC" and st.value is not None:
                spec = st
        if spec is None:
            continue
        n_styles += 1
        pats = None
        for n in ast.walk(spec.value):
            if isinstance(n, ast.Call) and isinstance(n.func, ast.Attribute) and n.func.attr == "split" and isinstance(n.func.value, ast.Constant):
                sep = n.args[0].value if n.args else None
                pats = n.func.value.value.split(sep)
        ck.need(pats is not None, f"{q}._FORMAT_SPEC: pattern list not recognised")
        chk = m.find(rel, f"{q}._check_style_format_spec")
        rend = m.find(rel, f"{q}._render_image")
        ck.need(chk is not None and rend is not None, f"{q}: _check_style_format_spec/_render_image missing")
        un, arity = None, None
        for st in body_walk(chk):
            if isinstance(st, ast.Assign) and len(st.targets) == 1 and isinstance(st.targets[0], ast.Tuple):
                tv = norm(trace(chk, st.value))
                if tv.endswith("_get_style_format_spec(spec, original)") and len(st.targets[0].elts) == 2 and isinstance(st.targets[0].elts[1], ast.Tuple):
                    un, arity = st, len(st.targets[0].elts[1].elts)
                elif tv.endswith("_get_style_format_spec(spec, original)[1]"):
                    un, arity = st, len(st.targets[0].elts)
        ck.expect(un is not None, f"{q}._check_style_format_spec: unpacking of the fields not recognised")
        if un is None:
            continue
        ck.ob("R3", un, arity == len(pats), f"{q}: {len(pats)} field patterns but {arity} fields unpacked", stmt=f"{q}: patterns == unpack arity")
        rets_ = [r for r in body_walk(chk) if isinstance(r, ast.Return) and r.value is not None]
        ck.ob("R3", chk, bool(rets_) and all(isinstance(r.value, ast.Call) and (call_name(r.value) or "").endswith("_check_style_args") for r in rets_),
              f"{q}._check_style_format_spec must return through cls._check_style_args(...) (value ranges - e.g. the signed 32-bit z-index - are validated there, as for draw())", stmt=f"{q}: specifier values validated by _check_style_args")
        sa = next((st for st in cls.body if isinstance(st, ast.Assign) and norm(st.targets[0]) == "_style_args"), None)
        ck.need(sa is not None and isinstance(sa.value, ast.Dict), f"{q}._style_args dict literal not found")
        sa_keys = {k.value: v for k, v in zip(sa.value.keys, sa.value.values)}
        for n in body_walk(chk):
            if isinstance(n, ast.Subscript) and isinstance(n.ctx, ast.Store) and norm(n.value) == "args" and isinstance(n.slice, ast.Constant):
                ck.ob("R3", enclosing_stmt(n), n.slice.value in sa_keys, f"{q}: key {n.slice.value!r} written by the specifier parser is not in _style_args", stmt=f"{q}: args[{n.slice.value!r}]")
        kwo = {a.arg: (norm(d) if d is not None else None) for a, d in zip(rend.args.kwonlyargs, rend.args.kw_defaults)}
        public = {k: v for k, v in kwo.items() if k not in INTERNAL_STYLE_PARAMS}
        ck.ob("R3", sa, set(public) == set(sa_keys), f"{q}: _style_args keys {sorted(sa_keys)} != style parameters of _render_image {sorted(public)}", stmt=f"{q}: _style_args keys == render params")
        for k, v in sa_keys.items():
            if k in public and isinstance(v, ast.Tuple) and v.elts:
                ck.ob("R3", v, norm(v.elts[0]) == public[k],
                      f"{q}: default of {k!r} is {norm(v.elts[0])} in _style_args but {public[k]} in _render_image; _check_style_args deletes arguments equal to the recorded default, so the renderer would then use the other one",
                      stmt=f"{q}: default {k}")
        # numeric fields are decimal integers of any length (`\\d+`): which values are in range is the validator's business (it raises the documented
        # ValueError). A bound on the number of digits makes the parser reject sentences (`z0000000001`) / report out-of-range values as syntax errors.
        import re._parser as _sp, re._constants as _sc
        def _digit_item(item):
            return len(item) == 1 and item[0][0] is _sc.IN and all((k_ is _sc.CATEGORY and v_ is _sc.CATEGORY_DIGIT) or (k_ is _sc.RANGE and v_ == (48, 57)) for k_, v_ in item[0][1])
        def _bounded_digits(tree):
            out = []
            for op_, av_ in tree:
                if op_ in (_sc.MAX_REPEAT, _sc.MIN_REPEAT):
                    lo_, hi_, item_ = av_
                    if _digit_item(list(item_)) and hi_ is not _sc.MAXREPEAT and hi_ > 1:
                        out.append((lo_, hi_))
                    out += _bounded_digits(item_)
                elif op_ is _sc.SUBPATTERN:
                    out += _bounded_digits(av_[3])
                elif op_ is _sc.BRANCH:
                    for b_ in av_[1]:
                        out += _bounded_digits(b_)
            return out
        for p_ in pats:
            try:
                bd_ = _bounded_digits(_sp.parse(p_))
            except Exception:
                bd_ = None
            ck.expect(bd_ is not None, f"{q}: field pattern {p_!r} cannot be parsed")
            if bd_ is not None:
                ck.ob("R3", spec, not bd_, f"{q}: field pattern {p_!r} limits a decimal field to {bd_[0] if bd_ else ''} digits: integers of any length are sentences of the documented grammar (leading zeros included); "
                      "a longer in-range value is rejected and an out-of-range one raises StyleError instead of the validator's ValueError", stmt=f"{q}: decimal fields of {p_!r} unbounded in length")
        # pairwise non-overlap: no string of q contains a string of p
        for i, p in enumerate(pats):
            for j, q2 in enumerate(pats):
                if i == j:
                    continue
                w, _ = rex.decide([rex.compile_pattern(p, 0, contains=True), rex.compile_pattern(q2, 0)], lambda b: b[0] and b[1], limit=1)
                ck.ob("R3", spec, not w, f"{q}: field pattern {p!r} matches inside a sentence of field {q2!r} ({w!r}): search-then-match parsing is ambiguous", stmt=f"{q}: {p!r} inside {q2!r}")
    ck.expect(n_styles >= 2, f"expected >= 2 styles with _FORMAT_SPEC, found {n_styles}")
    gsf = m.get(CM, "BaseImage._get_style_format_spec")
    itv = find_stmts("$$it = iter(cls._FORMAT_SPEC)", gsf.body)
    ck.need(len(itv) == 1, "_get_style_format_spec: `<it> = iter(cls._FORMAT_SPEC)` not found")
    itn = norm(itv[0][1]["it"])
    loops = [s for s in gsf.body if isinstance(s, ast.For) and norm(s.iter) == itn]
    ck.need(len(loops) == 2, f"_get_style_format_spec: the two loops over `{itn}` not found")
    pv1, pv2 = norm(loops[0].target), norm(loops[1].target)
    c1 = [c for c in walk_local(loops[0]) if isinstance(c, ast.Call) and isinstance(c.func, ast.Attribute) and norm(c.func.value) == pv1 and c.func.attr in ("search", "match", "fullmatch", "finditer", "findall")]
    c2 = [c for c in walk_local(loops[1]) if isinstance(c, ast.Call) and isinstance(c.func, ast.Attribute) and norm(c.func.value) == pv2 and c.func.attr in ("search", "match", "fullmatch", "finditer", "findall")]
    endv = [norm(trace(gsf, k.value, keep=("end",))) for c in c2 for k in c.keywords if k.arg == "pos"]
    ck.ob("R3", loops[1], len(c2) == 1 and c2[0].func.attr == "match" and norm(c2[0].args[0]) == "spec" and endv == ["end"],
          "fields after the first matched one must be anchored with pattern.match(spec, pos=end); search() would skip junk between fields",
          stmt="_get_style_format_spec: subsequent fields anchored at end")
    ck.ob("R3", loops[0], len(c1) == 1 and c1[0].func.attr == "search" and [norm(a_) for a_ in c1[0].args] == ["spec"] and not c1[0].keywords, "first field located with pattern.search(spec)", stmt="_get_style_format_spec: first field search")
    rej = [r for r in body_walk(gsf) if isinstance(r, ast.Raise) and r.exc is not None and "StyleError" in norm(r.exc)
           and any(b_ and norm(expand(gsf, t)) == "spec[end:]" for t, b_ in guards(r)) and r.lineno > loops[1].end_lineno]
    ck.ob("R3", gsf, bool(rej), "whatever follows the last matched field (`spec[end:]`) must be rejected with StyleError", stmt="_get_style_format_spec: remainder rejected")
    for b in loops[1].body:
        pass
    ends = [st for t, st in stores_in(loops[1]) if isinstance(t, ast.Name) and t.id == "end"]
    ck.ob("R3", loops[1], len(ends) == 1 and norm(ends[0].value) == "match.end()", "`end` must advance to match.end() after each field", stmt="_get_style_format_spec: end advances")

    # ---- R5: the specifier is checked by the class whose style part it carries -----------------------
    # _check_format_spec / _check_style_format_spec / _check_style_args dispatch on `cls` to the style's own field grammar and argument table:
    # every call site must go through an instance, `cls`, `type(x)` or `super()` - never through a base class named literally
    ROOTS = {"BaseImage", "TextImage", "GraphicsImage"}
    n5 = 0
    for rel, q, fn in m.functions():
        for c in body_walk(fn):
            if isinstance(c, ast.Call) and isinstance(c.func, ast.Attribute) and c.func.attr in ("_check_format_spec", "_check_style_format_spec", "_check_style_args"):
                n5 += 1
                recv = norm(trace(fn, c.func.value, use=c))
                if recv == "__class__":  # N18: the enclosing class named literally
                    recv = q.split(".")[0]
                ck.ob("R5", enclosing_stmt(c), recv not in ROOTS, f"{q}: `{short(c, 60)}` checks the specifier against `{recv}` itself, whose style grammar is empty: every style-specific part "
                      "would be rejected (or accepted) regardless of the image's own style", stmt=f"{q}: {c.func.attr} called on the image / its class")
    ck.expect(n5 >= 5, f"call sites of the specifier checkers found: {n5}")

    # ---- R4 ----------------------------------------------------------------------------
    names = {"_check_format_spec", "_check_formatting", "_check_style_format_spec", "_get_style_format_spec", "_check_style_args"}
    ok_raisers = {"arg_value_error_msg", "arg_value_error", "arg_type_error", "arg_value_error_range", "StyleError", "TypeError", "ValueError"}
    nfn = 0
    for rel, q, fn in m.functions():
        if fn.name not in names:
            continue
        nfn += 1
        bad = [st for t, st in stores_in(ast.Module(body=fn.body, type_ignores=[])) if isinstance(t, ast.Attribute)]
        bad += [g for g in body_walk(fn) if isinstance(g, (ast.Global, ast.Nonlocal))]
        ck.ob("R4", fn, not bad, f"{q} stores to {[short(b, 50) for b in bad]}: a rejected specifier must have no side effect", stmt=f"{rel}::{q}: no attribute/global store")
        for r in body_walk(fn):
            if isinstance(r, ast.Raise) and r.exc is not None:
                cn = call_name(r.exc) if isinstance(r.exc, ast.Call) else dotted(r.exc)
                ck.ob("R4", r, (cn or "").split(".")[-1] in ok_raisers, f"{q} raises {cn}, not the documented ValueError/TypeError/StyleError", stmt=f"{q}: {short(r, 60)}")
    ck.expect(nfn >= 7, f"expected >= 7 specifier-checking functions, found {nfn}")



K, T = "image/kitty.py", "image/iterm2.py"

MUTANTS = [
    M("revert-fix-novert", CM, None, r'\.(#(\.\d+|[0-9a-fA-F]{6}|#)?)?(\+(.+))?", re.ASCII', r'\.(#(\.\d+|[0-9a-fA-F]{6})?)?", re.ASCII', {"R1"}),
    M("novert-lowercase-hex", CM, None, r'\.(#(\.\d+|[0-9a-fA-F]{6}|#)?)?(\+(.+))?"', r'\.(#(\.\d+|[0-9a-f]{6}|#)?)?(\+(.+))?"', {"R1"}),
    M("drop-ascii", CM, None, "(\\+(.+))?\",\n    re.ASCII,\n)", "(\\+(.+))?\",\n)", {"R1", "R2"}),
    M("or-to-and", CM, "BaseImage._check_format_spec", "if not match_ or _NO_VERTICAL_SPEC.fullmatch(spec):", "if not match_ and _NO_VERTICAL_SPEC.fullmatch(spec):", {"R1"}),
    M("fullmatch-to-match", CM, "BaseImage._check_format_spec", "_FORMAT_SPEC.fullmatch(spec)", "_FORMAT_SPEC.match(spec)", {"R1"}),
    M("valign-extra", CM, None, "(\\.([-^_])?(\\d+)?)?(#", "(\\.([-^_~])?(\\d+)?)?(#", {"R1", "R2"}),
    M("swap-unpack", CM, "BaseImage._check_format_spec", "            v_align,\n            height,\n            alpha,", "            height,\n            v_align,\n            alpha,", {"R2"}),
    M("height-default", CM, "BaseImage._check_format_spec", "int(height) if height else -2", "int(height) if height else -1", {"R2"}),
    M("falsy-zero-threshold", CM, "BaseImage._check_format_spec", "                    else float(threshold_or_bg)\n                )\n                if alpha",
      "                    else (float(threshold_or_bg) or None)\n                )\n                if alpha", {"R2"}),
    M("style-default-drift", K, None, '        "compress": (\n            4,', '        "compress": (\n            6,', {"R3"}),
    M("style-key-without-param", K, "KittyImage._check_style_format_spec", 'args["mix"] = bool(int(mix[-1]))', 'args["blend"] = bool(int(mix[-1]))', {"R3"}),
    M("overlap-patterns", T, None, '"[LWA] m[01] c[0-9]"', '"[LWAm] m[01] c[0-9]"', {"R3"}),
    M("search-not-match", CM, "BaseImage._get_style_format_spec", "match = pattern.match(spec, pos=end)", "match = pattern.search(spec, pos=end)", {"R3"}),
    M("side-effect", CM, "BaseImage._check_style_args", "        return style_args\n", "        cls._last_style_args = style_args\n        return style_args\n", {"R4"}),
    M("format-via-base-class", CM, "BaseImage.__format__", "style_args = self._check_format_spec(", "style_args = BaseImage._check_format_spec(", {"R5"}),
    M("style-spec-via-base-class", CM, "BaseImage._check_format_spec", "style_spec and cls._check_style_format_spec(style_spec, style_spec)", "style_spec and BaseImage._check_style_format_spec(style_spec, style_spec)", {"R5"}),
    M("z-field-digit-bound", K, None, 'r"[LW] z-?\\d+ m[01] c[0-9]"', 'r"[LW] z-?\\d{1,10} m[01] c[0-9]"', {"R3"}),
    M("twin-raw-grammar", CM, None, "[0-9a-fA-F]{6}|#)?)?(\\+(.+))?\",\n    re.ASCII,", "[0-9A-Fa-f]{6}|#)?)?(\\+(.+))?\",\n    re.ASCII,", twin=True),
    M("twin-rename-local", CM, "BaseImage._check_format_spec", "match_", "m_", twin=True, count=3),
]
