"""C20 - style settings resolve instance -> nearest class -> default, and unset restores (DESIGN.md 4, C20).
Resolution *is* Python attribute lookup provided the override cell exists exactly where a value was set; the rules
therefore constrain how the cells are written."""
from __future__ import annotations

import ast

from tiv.astutil import flatten_boolop, body_walk, call_name, dotted, enclosing_stmt, guards, norm, rename, short, stores_in, try_context, walk_local
from tiv.cfg import CFG
from tiv.mutate import M
from tiv.sem import econds, trace, expand

RULES = {
    "MEMO": "memo safety (shared, rules/common.py): a memoised function in this property's files (or called from them) is a function of its "
            "arguments only (no terminal/ambient/receiver state outside the key) and no caller mutates its result in place",
    "R1": "unset removes, never writes: the falsy branch of both forms of set_render_method and the deleters of jpeg_quality / "
          "read_from_file delete the receiver's own override cell (AttributeError tolerated) and do not store to it; only the "
          "class that defines _default_render_method in its own body may store that default (guard: '_default_render_method' in vars(cls))",
    "R2": "set writes exactly the receiver's own cell, after validation, on every non-raising path (no early return, no delete, "
          "no store through type(self)/a base); the settings are stored only by their own accessors and set_render_method (who-may-write)",
    "R3": "getters follow the MRO: getattr(self, '_jpeg_quality', -1), getattr(self, '_read_from_file', True), self._render_method; "
          "at render time the effective method is `(method or self._render_method).lower()` (per-call override first, "
          "case-normalised as a whole) in every graphics renderer; shared with C09.R5: ImageIterator never rebinds the style arguments frames are rendered with; every comparison with LINES / WHOLE / ANIM in a renderer uses the effective method, never the per-call `method` alone; the effective render method is read by the renderers only (no load of ._render_method, no programmatic method= override, in widget code either)",
    "R4": "class-only settings are read-only on instances: the instance-side forced_support / native_anim_max_bytes are "
          "ClassProperty objects built with a getter only; the metaclass setters validate before storing",
    "R5": "native_anim_max_bytes is one global cell: all accessors read/write __class__._native_anim_max_bytes on the metaclass, "
          "the deleter restores the private default",
    "R6": "the class and instance forms of set_render_method perform the same checks in the same order against the receiver's "
          "class's _render_methods; while a descriptor __get__ in utils.py tests the truth value of the instance, no image class defines __bool__ / __len__",
}
CM, IT, KT = "image/common.py", "image/iterm2.py", "image/kitty.py"


def _accessors(cls, prop):
    """{'setter'/'deleter': function} of a property; the receiver parameter is renamed to `self` (role normalisation)."""
    from tiv.roles import rename_locals
    out = {}
    for st in cls.body:
        if isinstance(st, ast.FunctionDef) and st.name == prop:
            for d in st.decorator_list:
                dn = dotted(d) or ""
                if dn.startswith(prop + "."):
                    out[dn.split(".")[-1]] = st
                    if st.args.args and st.args.args[0].arg != "self":
                        rename_locals(st, {st.args.args[0].arg: "self"})
    return out


def _lam(e):
    """source of a one-parameter lambda with the parameter written `self`"""
    if isinstance(e, ast.Lambda) and len(e.args.args) == 1 and e.args.args[0].arg != "self":
        from tiv.astutil import rename
        old = e.args.args[0].arg
        e2 = rename(e, {old: "self"})
        e2.args.args[0].arg = "self"
        return norm(e2)
    return norm(e)


def _is_tolerant_del(fn_or_body, cell):
    """body contains `try: del <cell> / except AttributeError: pass`"""
    for n in (walk_local(fn_or_body) if not isinstance(fn_or_body, list) else (x for s in fn_or_body for x in walk_local(s))):
        if isinstance(n, ast.Delete) and any(norm(t) == cell for t in n.targets):
            tc = try_context(n)
            if tc and tc[0][1] == "body" and any(h.type is not None and "AttributeError" in norm(h.type) for h in tc[0][0].handlers):
                return n
    return None


def _all_paths_store(ck, rid, fn, cell, label):
    """every normal path entry -> return passes through a store to `cell` (raising paths are exempt)."""
    g = CFG(fn)
    def is_store(n):
        return n.kind == "stmt" and n.ast is not None and any(norm(t) == cell and not isinstance(st, ast.Delete) for t, st in stores_in(n.ast))
    p = g.search([g.entry], lambda n: n is g.exit_return, avoid=is_store, from_succ=False,
                 edge_ok=lambda s, lab, d: not lab.startswith("e:"))
    ck.ob(rid, fn, p is None, f"{label}: there is a non-raising path that returns without storing `{cell}`"
          + (f" ({' '.join('L%d' % n.lineno for _, n in p if n.lineno)})" if p else ""), stmt=f"{label}: every accepted value is stored in {cell}")
    # and nothing deletes it
    dels = [n for n in body_walk(fn) if isinstance(n, ast.Delete)]
    ck.ob(rid, fn, not dels, f"{label}: a setter must not delete cells ({[short(d, 40) for d in dels]})", stmt=f"{label}: no delete in setter")
    # raises precede the store
    stores = [n for n in g.nodes if is_store(n)]
    raises = [n for n in g.nodes if n.kind == "stmt" and isinstance(n.ast, ast.Raise)]
    for r in raises:
        reach_after = any(g.search([s], lambda n, r=r: n is r) for s in stores)
        ck.ob(rid, r.ast, not reach_after, f"{label}: a validation error can be raised after the store (state changed by a rejected value)", stmt=f"{label}: {short(r.ast, 50)} before store")
    # only the receiver's own cell is written
    for t, st in stores_in(ast.Module(body=fn.body, type_ignores=[])):
        if isinstance(t, ast.Attribute) and norm(t) != cell:
            ck.ob(rid, st, False, f"{label}: writes `{norm(t)}`, not only the receiver's own cell `{cell}`", stmt=f"{label}: {short(st, 60)}")


def run(ck, m):
    from rules.common import rule_memo_safety
    rule_memo_safety(ck, m, "MEMO", "C20")          # first: a memoised helper also hides the code it wraps from the rules below
    base = m.get(CM, "BaseImage")
    forms = [fn for fn in m.variants(CM, "BaseImage.set_render_method")]
    ck.need(len(forms) == 2, "expected the class and instance forms of BaseImage.set_render_method")
    cls_form, inst_form = forms
    ck.need(cls_form.args.args[0].arg == "cls" and inst_form.args.args[0].arg == "self", "set_render_method forms not in (class, instance) order")

    # ---- R1 ----------------------------------------------------------------------------
    def ctx(fn, n):
        """'unset' / 'set' / None: under which value of `method` the node executes"""
        c = econds(fn, n)
        if "not method" in c or "method is None" in c:
            return "unset"
        if "method" in c or "method is not None" in c and "not method" not in c and any(x == "method" for x in c):
            return "set"
        return None
    for fn, recv in ((cls_form, "cls"), (inst_form, "self")):
        cell = f"{recv}._render_method"
        acts = [(t, st) for t, st in stores_in(ast.Module(body=fn.body, type_ignores=[])) if norm(t) == cell]
        ck.expect(all(ctx(fn, st) is not None for _, st in acts) and bool(acts), f"{recv}-form of set_render_method: a store/delete of {cell} is not under a recognised test of `method`")
        dels = [st for t, st in acts if isinstance(st, ast.Delete) and ctx(fn, st) == "unset"]
        tol = [d for d in dels if any(part == "body" and any(h.type is not None and "AttributeError" in norm(h.type) for h in t.handlers) for t, part in try_context(d)[:1])]
        ck.ob("R1", fn, len(tol) >= 1, f"unsetting via the {recv}-form must `del {cell}` (AttributeError tolerated) so that lookup falls through to the next level",
              stmt=f"set_render_method[{recv}] unset: del {cell}")
        for t, st in acts:
            if ctx(fn, st) == "unset" and not isinstance(st, ast.Delete):
                gs = sorted(econds(fn, st))
                own_default = any(("vars(cls)" in g_ or "cls.__dict__" in g_) and "'_default_render_method' in" in g_ and not g_.startswith("not ") for g_ in gs)
                ck.ob("R1", st, recv == "cls" and own_default and norm(st.value) == "cls._default_render_method",
                      f"unset stores to `{cell}` instead of removing the override (guards: {gs}); only the class defining "
                      f"_default_render_method in its own body may store it - any other class must follow its parent",
                      stmt=f"set_render_method[{recv}] unset: {short(st, 70)}")
    meta = m.get(IT, "ITerm2ImageMeta")
    for prop, cell in (("jpeg_quality", "self._jpeg_quality"), ("read_from_file", "self._read_from_file")):
        acc = _accessors(meta, prop)
        ck.need({"setter", "deleter"} <= set(acc), f"ITerm2ImageMeta.{prop}: setter/deleter not found")
        dl = acc["deleter"]
        ck.ob("R1", dl, _is_tolerant_del(dl, cell) is not None, f"deleter of {prop} must `del {cell}` (AttributeError tolerated)", stmt=f"{prop}.deleter: del {cell}")
        st_in_del = [st for t, st in stores_in(ast.Module(body=dl.body, type_ignores=[])) if not isinstance(st, ast.Delete)]
        ck.ob("R1", dl, not st_in_del, f"deleter of {prop} stores {[short(s, 40) for s in st_in_del]} instead of only removing the override", stmt=f"{prop}.deleter: no store")
        # ---- R2 for these setters
        _all_paths_store(ck, "R2", acc["setter"], cell, f"{prop}.setter")
    # R2 for set_render_method set-branches
    for fn, recv in ((cls_form, "cls"), (inst_form, "self")):
        cell = f"{recv}._render_method"
        acts = [(t, st) for t, st in stores_in(ast.Module(body=fn.body, type_ignores=[])) if norm(t) == cell]
        sets = [st for t, st in acts if ctx(fn, st) == "set" and not isinstance(st, ast.Delete)]
        setdels = [st for t, st in acts if ctx(fn, st) == "set" and isinstance(st, ast.Delete)]
        ck.ob("R2", fn, len(sets) == 1 and not setdels, f"the set branch of the {recv}-form must consist of the single store to `{cell}`",
              stmt=f"set_render_method[{recv}] set: single store")
        for st in sets:
            pos = set()
            for t_, b_ in guards(st):
                if b_:
                    for v_ in flatten_boolop(expand(fn, t_), ast.And):
                        pos.add(norm(v_))
            extra = pos - {"method", "method is not None"}
            ck.ob("R2", st, not extra, f"the store to `{cell}` happens only under {sorted(extra)}: a level that asks for the value it currently inherits would get no override of its own and keep following "
                  "its parent/class when that changes later", stmt=f"set_render_method[{recv}] set: store unconditional")
        other = [norm(t) for t, st in stores_in(ast.Module(body=fn.body, type_ignores=[])) if isinstance(t, ast.Attribute) and norm(t) != cell]
        ck.ob("R2", fn, not other, f"{recv}-form writes other cells {other}", stmt=f"set_render_method[{recv}]: only {cell}")
        first_store = min([st.lineno for t, st in stores_in(ast.Module(body=fn.body, type_ignores=[])) if isinstance(t, ast.Attribute)] + [10 ** 9])
        for r in body_walk(fn):
            if isinstance(r, ast.Raise):
                ck.ob("R2", r, r.lineno < first_store, "validation error raised after a store", stmt=f"set_render_method[{recv}]: {short(r, 50)} before stores")

    # ---- R3 ----------------------------------------------------------------------------
    for prop, expect in (("jpeg_quality", "lambda self: getattr(self, '_jpeg_quality', -1)"), ("read_from_file", "lambda self: getattr(self, '_read_from_file', True)")):
        asg = next((s for s in meta.body if isinstance(s, ast.Assign) and norm(s.targets[0]) == prop), None)
        ck.need(asg is not None and isinstance(asg.value, ast.Call) and asg.value.args, f"ITerm2ImageMeta.{prop} property construction not found")
        ck.ob("R3", asg, _lam(asg.value.args[0]) == expect, f"getter of {prop} must be `{expect}` (lookup through the instance/class, documented default)", stmt=f"{prop} getter")
        # the instance side reuses the metaclass accessors
        icls = m.get(IT, "ITerm2Image")
        iasg = next((s for s in icls.body if isinstance(s, ast.Assign) and norm(s.targets[0]) == prop), None)
        want = [f"ITerm2ImageMeta.{prop}.fget", f"ITerm2ImageMeta.{prop}.fset", f"ITerm2ImageMeta.{prop}.fdel"]
        ck.ob("R3", iasg or icls, iasg is not None and [norm(a) for a in iasg.value.args[:3]] == want,
              f"ITerm2Image.{prop} must be built from the metaclass property's fget/fset/fdel", stmt=f"ITerm2Image.{prop} shares accessors")
    n_r = 0
    writers_lower = all(norm(st.value) == "method.lower()" for fn in forms for t, st in stores_in(ast.Module(body=fn.body, type_ignores=[]))
                        if norm(t).endswith("._render_method") and isinstance(st, ast.Assign) and "default" not in norm(st.value))
    for rel in (KT, IT):
        for q, fn in m.file(rel).defs.items():
            if isinstance(fn, ast.FunctionDef) and fn.name == "_render_image":
                asg = next((s for s in fn.body if isinstance(s, ast.Assign) and norm(s.targets[0]) == "render_method"), None)
                ck.need(asg is not None, f"{q}: `render_method = ...` not found")
                n_r += 1
                v = trace(fn, asg.value, keep=("method",))        # (through locals such as `effective = method or self._render_method`)
                whole_lower = (isinstance(v, ast.Call) and isinstance(v.func, ast.Attribute) and v.func.attr == "lower" and isinstance(v.func.value, ast.BoolOp)
                               and isinstance(v.func.value.op, ast.Or) and [norm(x) for x in v.func.value.values] == ["method", "self._render_method"])
                reads_effective = "self._render_method" in norm(v) and norm(v).replace(" ", "").find("method") >= 0
                ck.ob("R3", asg, whole_lower or (reads_effective and writers_lower and "type(self)" not in norm(v) and "__class__" not in norm(v)),
                      f"the render method used must be `(method or self._render_method).lower()`: per-call override first, then the effective "
                      f"(instance -> class -> default) value, case-normalised as a whole; found `{norm(v)}`", stmt=f"{q}: {short(asg, 90)}")
                # ... and it is the effective method that is compared with LINES / WHOLE / ANIM everywhere in the renderer: a dispatch on the per-call
                # `method` alone ignores a method set on the instance, its class or an ancestor
                for cmp_ in [x for x in body_walk(fn) if isinstance(x, ast.Compare) and len(x.ops) == 1]:
                    sides = [cmp_.left, cmp_.comparators[0]]
                    if not any(isinstance(s_, (ast.Name, ast.Attribute)) and (dotted(s_) or "").split(".")[-1] in ("LINES", "WHOLE", "ANIM") for s_ in sides):
                        continue
                    for s_ in sides:
                        ts_ = norm(trace(fn, s_, use=cmp_, keep=("method",)))
                        if "method" in ts_.replace("_render_method", "").replace("render_method", "") and "_render_method" not in ts_:
                            ck.ob("R3", enclosing_stmt(cmp_), False, f"{q}: `{short(cmp_, 60)}` dispatches on the per-call `method` argument alone (`{ts_[:50]}`): a render method that is merely *effective* "
                                  "(set on the instance, its class or an ancestor) is ignored on this path", stmt=f"{q}: method dispatch uses the effective method: {short(cmp_, 40)}")
    ck.expect(n_r >= 2, "expected >= 2 graphics renderers reading the render method")
    # class-body defaults
    for rel, cname in ((KT, "KittyImage"), (IT, "ITerm2Image")):
        c = m.get(rel, cname)
        vals = {norm(s.target if isinstance(s, ast.AnnAssign) else s.targets[0]): norm(s.value) for s in c.body if isinstance(s, (ast.Assign, ast.AnnAssign)) and s.value is not None}
        ck.ob("R3", c, vals.get("_render_method") == vals.get("_default_render_method") == "LINES", f"{cname}: class default render method must be LINES in both cells", stmt=f"{cname}: defaults")

    # ---- R4 ----------------------------------------------------------------------------
    for rel, cname, prop in ((CM, "BaseImage", "forced_support"), (IT, "ITerm2Image", "native_anim_max_bytes")):
        c = m.get(rel, cname)
        asg = next((s for s in c.body if isinstance(s, ast.Assign) and norm(s.targets[0]) == prop), None)
        ok = asg is not None and isinstance(asg.value, ast.Call) and call_name(asg.value) == "ClassProperty" and len(asg.value.args) == 1 \
            and not any(k.arg in ("fset", "fdel") for k in asg.value.keywords)
        ck.ob("R4", asg or c, ok and not _accessors(c, prop), f"{cname}.{prop} must be a getter-only ClassProperty (instances cannot set a class-only setting)", stmt=f"{cname}.{prop} read-only")
    im = m.get(CM, "ImageMeta")
    acc = _accessors(im, "forced_support")
    ck.need("setter" in acc, "ImageMeta.forced_support.setter not found")
    _all_paths_store(ck, "R4", acc["setter"], "self._forced_support", "forced_support.setter")
    fsl = next((s for s in m.get(CM, "BaseImage").body if isinstance(s, ast.Assign) and norm(s.targets[0]) == "forced_support"), None)
    ck.ob("R4", fsl or base, fsl is not None and _lam(fsl.value.args[0]) == "lambda self: type(self)._forced_support", "instance-side forced_support must read type(self)._forced_support", stmt="BaseImage.forced_support getter")

    # ---- R5 ----------------------------------------------------------------------------
    acc = _accessors(meta, "native_anim_max_bytes")
    ck.need({"setter", "deleter"} <= set(acc), "native_anim_max_bytes accessors not found")
    asg = next((s for s in meta.body if isinstance(s, ast.Assign) and norm(s.targets[0]) == "native_anim_max_bytes"), None)
    ck.ob("R5", asg or meta, asg is not None and _lam(asg.value.args[0]) == "lambda self: __class__._native_anim_max_bytes", "getter must read __class__._native_anim_max_bytes (the one global cell)", stmt="native_anim_max_bytes getter")
    _all_paths_store(ck, "R5", acc["setter"], "__class__._native_anim_max_bytes", "native_anim_max_bytes.setter")
    dl = acc["deleter"]
    sts = [st for t, st in stores_in(ast.Module(body=dl.body, type_ignores=[])) if isinstance(t, ast.Attribute)]
    ck.ob("R5", dl, len(sts) == 1 and isinstance(sts[0], ast.Assign) and norm(sts[0].targets[0]) == "__class__._native_anim_max_bytes" and norm(trace(dl, sts[0].value)) == "__class__.__native_anim_max_bytes", "deleter must restore the private default into the global cell", stmt="native_anim_max_bytes deleter")
    for rel, _q, t, st in m.stores():

        if True:
            if isinstance(t, ast.Attribute) and t.attr == "_native_anim_max_bytes" and norm(t.value) != "__class__":
                ck.ob("R5", st, False, f"`{norm(t)}` creates a second cell for the global native-animation limit", stmt=f"{rel}: {short(st, 70)}")
    iasg = next((s for s in m.get(IT, "ITerm2Image").body if isinstance(s, ast.Assign) and norm(s.targets[0]) == "native_anim_max_bytes"), None)
    ck.ob("R5", iasg or meta, iasg is not None and _lam(iasg.value.args[0]) == "lambda self: type(self)._native_anim_max_bytes", "instance-side getter must read through type(self)", stmt="ITerm2Image.native_anim_max_bytes getter")

    # ---- R6 ----------------------------------------------------------------------------
    def checks(fn, recv_cls):
        out = set()
        for r in body_walk(fn):
            if isinstance(r, ast.Raise):
                # the conditions that select this error (enclosing tests taken); what earlier guard clauses excluded is left out
                pos = set()
                for t, b_ in guards(r):
                    if b_:
                        for v in flatten_boolop(expand(fn, t), ast.And):
                            pos.add(norm(v).replace(recv_cls, "<C>"))
                out.add(frozenset(pos))
        return sorted(sorted(x) for x in out)
    a, b = checks(cls_form, "cls"), checks(inst_form, "type(self)")
    ck.ob("R6", inst_form, a == b and len(a) >= 2, f"the two forms validate differently: class form {a} vs instance form {b}", stmt="set_render_method: sibling validation")
    ck.ob("R6", cls_form, any("<C>._render_methods" in y for x in a for y in x), "validation must be against the receiver class's _render_methods", stmt="set_render_method: validates against _render_methods")

    # who may write a setting: only the accessors of the setting itself (and set_render_method). Library code that "temporarily" sets one through the public
    # setter and restores the *effective* value afterwards pins an inherited value on the instance: it stops following its class
    SETTINGS = {"jpeg_quality", "_jpeg_quality", "read_from_file", "_read_from_file", "_render_method", "forced_support", "_forced_support", "native_anim_max_bytes", "_native_anim_max_bytes"}
    for rel_, q_, t_, st_ in m.stores():
        if not rel_.startswith("image/") or not isinstance(t_, ast.Attribute) or t_.attr not in SETTINGS:
            continue
        owner_q = getattr(st_, "_q", "") or ""
        fname = owner_q.split(".")[-1].split("#")[0]
        ok_w = fname in SETTINGS or fname in ("set_render_method", "__init__", "__new__", "<lambda>") or fname.lstrip("_") in {x.lstrip("_") for x in SETTINGS} or owner_q == "" or "." not in owner_q
        ck.ob("R2", st_, ok_w, f"{owner_q} writes the setting `{norm(t_)}`: settings are written by their own accessors only - a save / set / restore around some operation stores the effective "
              "(possibly inherited) value on the instance, which then no longer follows its class or the default", stmt=f"{owner_q}: who may write {t_.attr}")
    # which form of a class/instance method runs is decided by the descriptor: when it tests the *truth value* of the instance (`if instance:`), no image
    # class may define its own truth value (__bool__ / __len__) - a falsy instance (closed, empty) would be served the class form, and
    # `closed_image.set_render_method(x)` would rewrite the class-wide setting
    descs = [(q_, fn_) for rel_, q_, fn_ in m.functions() if rel_ == "utils.py" and fn_.name == "__get__" and len(fn_.args.args) >= 2]
    ck.expect(len(descs) >= 1, "utils.py: descriptor __get__ methods not found")
    truthy = []
    for q_, fn_ in descs:
        inst = fn_.args.args[1].arg
        for t_ in body_walk(fn_):
            tests_ = [t_.test] if isinstance(t_, (ast.If, ast.IfExp, ast.While)) else []
            for tt_ in tests_:
                for v_ in flatten_boolop(tt_, ast.And) + flatten_boolop(tt_, ast.Or):
                    v0 = v_.operand if isinstance(v_, ast.UnaryOp) and isinstance(v_.op, ast.Not) else v_
                    if isinstance(v0, ast.Name) and v0.id == inst:
                        truthy.append(q_)
    ck.extra["descriptors_testing_instance_truth"] = sorted(set(truthy))
    if truthy:
        for rel_, q_, cls_ in m.classes():
            if not rel_.startswith(("image/", "widget/")):
                continue
            for st_ in cls_.body:
                if isinstance(st_, ast.FunctionDef) and st_.name in ("__bool__", "__len__"):
                    uses_desc = any(rel2 == CM for rel2, _q2, _c2 in m.classes())
                    ck.ob("R6", st_, False, f"{q_} defines {st_.name}: {sorted(set(truthy))[0]} picks the instance form of a class/instance method only for a *truthy* instance, so a falsy image gets the class form - "
                          "an instance-level set/unset then changes the setting of the whole class (seen by every other instance and subclass)", stmt=f"{q_}: no truth value of its own while descriptors test `if instance`")
    for rel_, q_, fn_ in m.functions():
        if not rel_.startswith(("image/", "widget/")) or fn_.name in ("_check_style_format_spec",):
            continue
        for c in body_walk(fn_):
            # the effective method is looked up when a render is made, by the renderer: code outside the image classes that reads it holds a value
            # that stops following later set / unset at any level (a widget that records it at construction pins it)
            if not rel_.startswith("image/") and isinstance(c, ast.Attribute) and c.attr == "_render_method" and isinstance(c.ctx, ast.Load):
                ck.ob("R3", enclosing_stmt(c), False, f"{q_} reads the effective render method (`{short(c, 50)}`) outside the image classes: whatever it does with the value (store it, pass it on as an override) "
                      "no longer follows a later set_render_method() / unset on the instance, its class or an ancestor", stmt=f"{q_}: the effective render method is read by the renderers only")
            setd = isinstance(c, ast.Call) and isinstance(c.func, ast.Attribute) and c.func.attr in ("setdefault", "update") and c.args and isinstance(c.args[0], ast.Constant) and c.args[0].value == "method"
            sub = isinstance(c, ast.Subscript) and isinstance(c.ctx, ast.Store) and isinstance(c.slice, ast.Constant) and c.slice.value == "method"
            kwm = isinstance(c, ast.Call) and c.func is not None and any(k.arg == "method" and not (isinstance(k.value, ast.Name) and k.value.id == "method") for k in c.keywords) and "_render_image" in norm(c.func)
            if setd or sub or kwm:
                ck.ob("R3", enclosing_stmt(c), False, f"{q_} chooses a render method itself (`{short(c, 50)}`): the method used must be the per-call override or else the effective (instance -> class -> default) one",
                      stmt=f"{q_}: no programmatic method override")
    # ---- shared with C09.R5: ImageIterator never rebinds the style arguments it renders frames with
    from tiv.report import borrow
    import rules.c09 as c09
    borrow(ck, c09, m, "R3", lambda c: c.endswith("ImageIterator._animate"), rids={"R5"}, min_kept=4)


MUTANTS = [
    M("widget-pins-method", "widget/_urwid.py", "UrwidImage.__init__", "            style_args[\"split_cells\"] = True\n", "            style_args[\"split_cells\"] = True\n        if image._render_methods:\n            style_args.setdefault(\"method\", image._render_method)\n", {"R3"}),
    M("revert-fix-unset", CM, "BaseImage.set_render_method",
      "                if \"_default_render_method\" in vars(cls):", "                if True:", {"R1"}),
    M("wrong-guard-key", CM, "BaseImage.set_render_method", "if \"_default_render_method\" in vars(cls):", "if \"_render_method\" in vars(cls):", {"R1"}),
    M("inst-unset-assigns", CM, "BaseImage.set_render_method#2",
      "            try:\n                del self._render_method\n            except AttributeError:\n                pass",
      "            self._render_method = type(self)._render_method", {"R1"}),
    M("deleter-writes-default", IT, "ITerm2ImageMeta.jpeg_quality#2",
      "        try:\n            del self._jpeg_quality\n        except AttributeError:\n            pass", "        self._jpeg_quality = -1", {"R1"}),
    M("setter-through-type", IT, "ITerm2ImageMeta.read_from_file", "        self._read_from_file = policy", "        type(self)._read_from_file = policy", {"R2"}),
    M("setter-early-unset", IT, "ITerm2ImageMeta.jpeg_quality",
      "        self._jpeg_quality = quality", "        if quality < 0:\n            del self.jpeg_quality\n            return\n        self._jpeg_quality = quality", {"R2"}),
    M("render-reads-class", KT, "KittyImage._render_image", "(method or self._render_method).lower()", "(method or type(self)._render_method).lower()", {"R3"}),
    M("render-partial-lower", IT, "ITerm2Image._render_image", "(method or self._render_method).lower()", "method.lower() if method else self._render_method", {"R3"}),
    M("instance-forced-setter", CM, "BaseImage", "    forced_support = ClassProperty(\n        lambda self: type(self)._forced_support,",
      "    forced_support = ClassProperty(\n        lambda self: type(self)._forced_support,\n        lambda self, v: setattr(type(self), '_forced_support', v),", {"R4"}),
    M("per-class-anim-limit", IT, "ITerm2ImageMeta.native_anim_max_bytes", "        __class__._native_anim_max_bytes = max_bytes", "        self._native_anim_max_bytes = max_bytes", {"R5"}),
    M("one-form-skips-check", CM, "BaseImage.set_render_method#2",
      "        if method is not None and method.lower() not in type(self)._render_methods:", "        if method is not None and method not in type(self)._render_methods:", {"R6"}),
    M("store-before-validate", IT, "ITerm2ImageMeta.jpeg_quality",
      "        if not isinstance(quality, int):", "        self._jpeg_quality = quality\n        if not isinstance(quality, int):", {"R2"}),
    M("image-truth-value", CM, "BaseImage.__del__", "    def __del__(self) -> None:\n", "    def __bool__(self) -> bool:\n        return not getattr(self, \"_closed\", True)\n\n    def __del__(self) -> None:\n", {"R6"}),
    M("library-writes-setting", IT, "ITerm2Image._display_animated", "        super()._display_animated(img, alpha, fmt, *args, mix=True, **kwargs)\n", "        self.jpeg_quality = self.jpeg_quality\n        super()._display_animated(img, alpha, fmt, *args, mix=True, **kwargs)\n", {"R2"}),
    M("dispatch-on-call-argument", IT, "ITerm2Image._render_image", "if render_method == ANIM and self._is_animated and not frame:", "if method and method.lower() == ANIM and self._is_animated and not frame:", {"R3"}),
    M("twin-dict-guard", CM, "BaseImage.set_render_method", "in vars(cls):", "in cls.__dict__:", twin=True),
]
