"""Cross-cutting rules shared by several properties. Each property applies them to the functions of its own anchor files (read
from /verif/properties.jsonl), so a change is reported by the property whose code it touches.

memo safety (M1-M3): a memoised function (decorated with a caching decorator: lru_cache/cache/cached/cached_property/
terminal_size_cached, or a hand-rolled `@contextmanager`-free dict memo is NOT covered) is sound only if
  M1  its result is a function of its arguments: it does not read rebinding module state, `self`/`cls` attributes of a mutable
      receiver, the terminal (size, attributes, queries), the environment or the clock - unless the decorator keys on it
      (terminal_size_cached keys on the terminal size);
  M2  no caller mutates the returned object in place (the next caller would get the modified object);
  M3  (inventory) the memoised functions are the ones confirmed by hand; a new one is analysed by M1/M2 - if both hold it is accepted.
"""
from __future__ import annotations

import ast
import json
import os

from tiv.astutil import body_walk, call_name, dotted, enclosing_stmt, norm, short, stores_in

MEMO_DECORATORS = {"lru_cache", "cache", "cached", "cached_property", "terminal_size_cached"}
AMBIENT_CALLS = {"get_terminal_size", "get_cell_size", "get_cell_ratio", "get_terminal_name_version", "get_fg_bg_colors", "query_terminal", "read_tty", "monotonic",
                 "time", "perf_counter", "perf_counter_ns", "getenv", "isatty", "fileno", "open", "tcgetattr", "tcsetattr", "ioctl", "getpid", "current_process"}
IN_PLACE = {"alpha_composite", "paste", "putalpha", "putdata", "putpixel", "putpalette", "seek", "load", "close", "save", "thumbnail", "append", "extend", "add", "update",
            "pop", "clear", "remove", "discard", "insert", "sort", "reverse", "setdefault", "popitem", "write", "truncate", "__setitem__"}
# memoised at the pinned commit, confirmed by reading: both are terminal queries whose staleness is governed by C15.R2 (enable_queries invalidates them)
BASELINE_MEMO = {("utils.py", "get_fg_bg_colors"), ("utils.py", "get_terminal_name_version")}


def anchor_files(pid: str) -> set[str]:
    """package-relative paths of the files property `pid` is anchored in (from the given properties.jsonl)."""
    out = set()
    p = os.path.join(os.path.dirname(os.path.dirname(os.path.abspath(__file__))), "properties.jsonl")
    for line in open(p):
        line = line.strip()
        if not line:
            continue
        d = json.loads(line)
        if d.get("id") != pid:
            continue
        anc = d.get("anchors") or {}
        for f in (anc.get("files") or []) if isinstance(anc, dict) else []:
            if "term_image/" in f:
                out.add(f.split("term_image/", 1)[1])
        for mech in (anc.get("mechanism") or []) if isinstance(anc, dict) else []:
            w = (mech.get("where") or "") if isinstance(mech, dict) else ""
            if "term_image/" in w:
                out.add(w.split("term_image/", 1)[1].split(":")[0])
    return out


def _memo_decorator(fn):
    for d in fn.decorator_list:
        base = d.func if isinstance(d, ast.Call) else d
        nm = (dotted(base) or "").split(".")[-1]
        if nm in MEMO_DECORATORS:
            return nm
    return None


def rule_memo_safety(ck, m, rid, pid, extra_files=()):
    files = anchor_files(pid) | set(extra_files)
    memo = []
    for rel, q, fn in m.functions():
        if isinstance(fn, (ast.FunctionDef, ast.AsyncFunctionDef)) and _memo_decorator(fn):
            memo.append((rel, q, fn, _memo_decorator(fn)))
    ck.extra.setdefault("memoised_functions", [f"{rel}::{q} (@{d})" for rel, q, fn, d in memo])
    for rel, q, fn, deco in memo:
        if (rel, fn.name) in BASELINE_MEMO:
            continue
        callers = []
        for rel2, q2, f2 in m.functions():
            for c in body_walk(f2):
                if isinstance(c, ast.Call) and (call_name(c) or "").split(".")[-1] == fn.name and f2 is not fn:
                    callers.append((rel2, q2, f2, c))
        # the property reports it when the memoised function or one of its callers lives in the property's files
        if files and rel not in files and not any(r2 in files for r2, _, _, _ in callers):
            continue
        # M1: ambient reads, in the function itself and in the package functions it calls (name-based, depth 3)
        params = {a.arg for a in fn.args.posonlyargs + fn.args.args + fn.args.kwonlyargs}
        ambient = []
        by_name = {}
        for r3, q3, f3 in m.functions():
            by_name.setdefault(f3.name, []).append(f3)
        seen_f, frontier = {id(fn)}, [fn]
        for _ in range(3):
            nxt = []
            for f_ in frontier:
                for n in ast.walk(f_):
                    if isinstance(n, ast.Call):
                        cn = (call_name(n) or "").split(".")[-1]
                        if cn in AMBIENT_CALLS and f_ is not fn and not (deco == "terminal_size_cached" and cn == "get_terminal_size"):
                            ambient.append(f"{cn}() via {f_.name}")
                        for g_ in by_name.get(cn, [])[:3]:
                            if id(g_) not in seen_f and cn.startswith("_"):
                                seen_f.add(id(g_))
                                nxt.append(g_)
            frontier = nxt
        for n in ast.walk(fn):
            if isinstance(n, ast.Call):
                cn = (call_name(n) or "").split(".")[-1]
                if cn in AMBIENT_CALLS and not (deco == "terminal_size_cached" and cn == "get_terminal_size"):
                    ambient.append(f"{cn}()")
            if isinstance(n, ast.Attribute) and isinstance(n.value, ast.Name) and n.value.id in ("self", "cls") and isinstance(n.ctx, ast.Load) and n.value.id in params \
                    and not (isinstance(getattr(n, "_p", None), ast.Call) and n._p.func is n):
                ambient.append(norm(n))
            if isinstance(n, ast.Subscript) and norm(n.value) in ("os.environ",):
                ambient.append(norm(n))
        mod_rebound = {t.id for _r, _q, t, st in m.stores(rel) if isinstance(t, ast.Name) and isinstance(getattr(st, "_p", None), (ast.FunctionDef,)) is False and any(
            isinstance(g, ast.Global) and t.id in g.names for g in ast.walk(m.tree(rel)))}
        for n in ast.walk(fn):
            if isinstance(n, ast.Name) and isinstance(n.ctx, ast.Load) and n.id in mod_rebound and n.id not in params:
                ambient.append(n.id)
        ck.ob(rid, fn, not ambient,
              f"{q} is memoised (@{deco}) but its result depends on state that is not part of the cache key: {sorted(set(ambient))[:6]} - once that state changes, "
              f"callers keep getting the value computed for the old state", stmt=f"memo safety M1: {rel}::{q} is a function of its arguments")
        # M2: callers mutate the result in place
        for rel2, q2, f2, c in callers:
            st = enclosing_stmt(c)
            names = [t.id for t, s_ in stores_in(st) if isinstance(t, ast.Name)] if isinstance(st, (ast.Assign, ast.AnnAssign)) and getattr(st, "value", None) is c else []
            for nm in names:
                muts = [x for x in body_walk(f2) if isinstance(x, ast.Call) and isinstance(x.func, ast.Attribute) and isinstance(x.func.value, ast.Name) and x.func.value.id == nm and x.func.attr in IN_PLACE]
                muts += [x for x in body_walk(f2) if isinstance(x, (ast.Subscript, ast.Attribute)) and isinstance(x.ctx, (ast.Store, ast.Del)) and isinstance(x.value, ast.Name) and x.value.id == nm]
                ck.ob(rid, st, not muts,
                      f"{q2} modifies in place (`{short(muts[0], 50) if muts else ''}`) the object returned by the memoised {q}: the cached object itself is changed, so the next call "
                      f"with the same arguments returns the modified object", stmt=f"memo safety M2: result of {q} not mutated in {q2}")
        # M2 (one hop further): a caller that hands the memoised object on in its own return value (possibly as one element of a tuple): whoever
        # receives it from there must not modify it in place either
        for rel2, q2, f2, c in callers:
            pos = None                      # (index, length) of the memoised object in f2's returned tuple; (None, None) = returned whole
            for r_ in body_walk(f2):
                if not (isinstance(r_, ast.Return) and r_.value is not None):
                    continue
                rv = r_.value
                holders = [rv] if not isinstance(rv, ast.Tuple) else list(rv.elts)
                for i_, h_ in enumerate(holders):
                    inside = any(x is c for x in ast.walk(h_))
                    if not inside and isinstance(h_, ast.Name):
                        from tiv.sem import trace as _tr
                        inside = any(isinstance(x, ast.Call) and (call_name(x) or "").split(".")[-1] == fn.name for x in ast.walk(_tr(f2, h_, use=r_)))
                    if inside and not isinstance(h_, ast.Starred):
                        if not isinstance(rv, ast.Tuple):
                            pos = (None, None)
                        else:
                            # position counted from the start / from the end, whichever side has no starred element in between
                            pos = (i_ if not any(isinstance(e_, ast.Starred) for e_ in holders[:i_]) else None,
                                   len(holders) - i_ if not any(isinstance(e_, ast.Starred) for e_ in holders[i_:]) else None)
            if pos is None:
                continue
            for rel3, q3, f3 in m.functions():
                for c3 in body_walk(f3):
                    if not (isinstance(c3, ast.Call) and (call_name(c3) or "").split(".")[-1] == f2.name and f3 is not f2):
                        continue
                    st3 = enclosing_stmt(c3)
                    if not (isinstance(st3, ast.Assign) and st3.value is c3 and len(st3.targets) == 1):
                        continue
                    tg = st3.targets[0]
                    nm3 = None
                    if pos == (None, None) and isinstance(tg, ast.Name):
                        nm3 = tg.id
                    elif pos != (None, None) and isinstance(tg, (ast.Tuple, ast.List)):
                        from_start, from_end = pos
                        els = tg.elts
                        e_ = None
                        if from_start is not None and from_start < len(els) and not any(isinstance(x_, ast.Starred) for x_ in els[:from_start + 1]):
                            e_ = els[from_start]
                        elif from_end is not None and from_end <= len(els) and not any(isinstance(x_, ast.Starred) for x_ in els[len(els) - from_end:]):
                            e_ = els[len(els) - from_end]
                        nm3 = e_.id if isinstance(e_, ast.Name) else None
                    if nm3 is None:
                        continue
                    muts = [x for x in body_walk(f3) if isinstance(x, ast.Call) and isinstance(x.func, ast.Attribute) and isinstance(x.func.value, ast.Name) and x.func.value.id == nm3 and x.func.attr in IN_PLACE]
                    muts += [x for x in body_walk(f3) if isinstance(x, (ast.Subscript, ast.Attribute)) and isinstance(x.ctx, (ast.Store, ast.Del)) and isinstance(x.value, ast.Name) and x.value.id == nm3]
                    ck.ob(rid, st3, not muts,
                          f"{q3} modifies in place (`{short(muts[0], 50) if muts else ''}`) the object it gets from {q2}, which is the object returned by the memoised {q}: the cached object itself is changed, "
                          f"so every later call with the same arguments returns the modified object", stmt=f"memo safety M2: result of {q} (via {q2}) not mutated in {q3}")
    return len(memo)


def memo_decorator_roles(ck, m):
    """Roles of the memo decorators' closure variables: `lock` = the name bound to RLock() in the decorator body, `cache` = the memo
    container (the dict / None bound next to it) - renamed in the model's private copy so the rule text does not depend on their spelling
    (idempotent)."""
    from tiv.roles import rename_locals
    for dq in ("cached", "terminal_size_cached"):
        dfn = m.get("utils.py", dq)
        roles = {}
        for st_ in dfn.body:
            tg = st_.targets[0] if isinstance(st_, ast.Assign) and len(st_.targets) == 1 else (st_.target if isinstance(st_, ast.AnnAssign) and st_.value is not None else None)
            v_ = getattr(st_, "value", None)
            if isinstance(tg, ast.Name) and v_ is not None:
                if isinstance(v_, ast.Call) and (call_name(v_) or "").split(".")[-1] == "RLock":
                    roles.setdefault(tg.id, "lock")
                elif (isinstance(v_, ast.Dict) and not v_.keys) or (isinstance(v_, ast.Constant) and v_.value is None) or (isinstance(v_, ast.Call) and call_name(v_) == "dict" and not v_.args):
                    roles.setdefault(tg.id, "cache")
        if sorted(roles.values()) == ["cache", "lock"] and any(k_ != v_ for k_, v_ in roles.items()):
            ck.extra.setdefault("roles", {})[dq] = rename_locals(dfn, roles)


def rule_stateless_renderers(ck, m, rid):
    """Renderers and size helpers compute their result from their arguments and the image's settings; they remember nothing on the instance or the
    class (a hand-rolled memo of the last encoded data, the last size ...): a value kept from one render is stale for the next one as soon as any
    input the key does not cover has changed (size, cell geometry, style arguments)."""
    NAMES = ("_render_image", "_get_render_data", "_format_render", "_get_render_size", "_get_minimal_render_size", "_pixels_cols", "_pixels_lines", "_width_height_px", "_valid_size")
    n = 0
    for rel, q, fn in m.functions():
        if not rel.startswith("image/") or fn.name not in NAMES:
            continue
        n += 1
        for t, st in stores_in(ast.Module(body=fn.body, type_ignores=[])):
            root = t
            while isinstance(root, (ast.Attribute, ast.Subscript)):
                root = root.value
            if isinstance(t, (ast.Attribute, ast.Subscript)) and isinstance(root, ast.Name) and root.id in ("self", "cls") or (isinstance(t, ast.Attribute) and norm(root) in ("type(self)", "__class__")):
                ck.ob(rid, st, False, f"{q} stores `{short(st, 60)}`: a renderer / size helper keeps state on the instance or class between calls - what it remembers from one render is stale for the next "
                      "whenever an input outside its key changed", stmt=f"{rel}::{q}: renderers keep no state between renders")
    ck.expect(n >= 8, f"renderers / size helpers found: {n}")


def rule_memo_key(ck, m, rid):
    """The key under which utils.cached stores a result identifies the call: the positional arguments and the keyword arguments WITH their
    values (`kwargs.items()`); a key built from the keyword names only lets `f(hex=False)` and `f(hex=True)` share one entry."""
    from tiv.sem import trace
    memo_decorator_roles(ck, m)
    cw = m.get("utils.py", "cached.cached_wrapper")
    keys = []
    for n in body_walk(cw):
        if isinstance(n, ast.Subscript) and isinstance(n.value, ast.Name) and n.value.id == "cache":
            keys.append((n, n.slice))
        elif isinstance(n, ast.Call) and isinstance(n.func, ast.Attribute) and isinstance(n.func.value, ast.Name) and n.func.value.id == "cache" and n.func.attr in ("setdefault", "get", "pop", "__getitem__", "__setitem__") and n.args:
            keys.append((n, n.args[0]))
        elif isinstance(n, ast.Compare) and len(n.ops) == 1 and isinstance(n.ops[0], (ast.In, ast.NotIn)) and isinstance(n.comparators[0], ast.Name) and n.comparators[0].id == "cache":
            keys.append((n, n.left))
    ck.expect(len(keys) >= 1, "cached_wrapper: no cache lookup / store recognised")
    for n, k in keys:
        tk = trace(cw, k, use=n)
        has_args = any(isinstance(x, ast.Name) and x.id == "args" for x in ast.walk(tk))
        items = [x for x in ast.walk(tk) if isinstance(x, ast.Call) and isinstance(x.func, ast.Attribute) and x.func.attr == "items" and isinstance(x.func.value, ast.Name) and x.func.value.id == "kwargs"]
        # a comprehension over kwargs.items() must keep both components
        proj = [c_ for c_ in ast.walk(tk) if isinstance(c_, (ast.GeneratorExp, ast.ListComp, ast.SetComp)) and any(any(y is i_ for y in ast.walk(g_.iter)) for g_ in c_.generators for i_ in items)
                and isinstance(c_.generators[0].target, ast.Tuple) and not {t_.id for t_ in c_.generators[0].target.elts if isinstance(t_, ast.Name)} <= {x.id for x in ast.walk(c_.elt) if isinstance(x, ast.Name)}]
        ck.ob(rid, enclosing_stmt(n), has_args and bool(items) and not proj,
              f"utils.cached keys an entry by `{short(tk, 70)}`: the key must contain the positional arguments and the keyword arguments with their values (`kwargs.items()`) - "
              "calls that differ only in a keyword value otherwise share one cached result", stmt=f"cached_wrapper: key identifies the call: {short(n, 40)}")


def rule_renderer_restores_size(ck, m, rid):
    """BaseImage._renderer resolves a dynamic size for the duration of a render and must put it back on EVERY exit: the statement
    that restores it lies in the `finally` of the try whose body performs the render. The save/restore may live in a
    @contextmanager helper used by `with`; then the `yield` is what the try must enclose."""
    from tiv.astutil import try_context
    from tiv.sem import same_bool
    CM = "image/common.py"
    rn = m.get(CM, "BaseImage._renderer")
    cands = [(rn, [c for c in body_walk(rn) if isinstance(c, ast.Call) and norm(c.func) == "renderer"])]
    for w in body_walk(rn):
        if isinstance(w, ast.With):
            for it in w.items:
                cn = (call_name(it.context_expr) or "") if isinstance(it.context_expr, ast.Call) else ""
                h = m.find(CM, f"BaseImage.{cn.split('.')[-1]}") or m.find(CM, cn.split(".")[-1])
                if h is not None and any((dotted(d) or "").split(".")[-1] == "contextmanager" for d in h.decorator_list):
                    cands.append((h, [y for y in ast.walk(h) if isinstance(y, ast.Yield)]))
    verdict = None
    where = rn
    for fn, ops in cands:
        saves = [s_ for s_ in body_walk(fn) if isinstance(s_, ast.Assign) and norm(s_.value) == "self._size" and isinstance(s_.targets[0], ast.Name)]
        if not saves or not ops:
            continue
        sv = norm(saves[0].targets[0])
        restores = [s_ for s_ in body_walk(fn) if isinstance(s_, ast.Assign) and norm(s_.targets[0]) in ("self.size", "self._size") and norm(s_.value) == sv]
        where = fn
        if not restores:
            verdict = False
            continue
        ok_all = True
        for op in ops:
            tries_op = [t for t, part in try_context(op) if part == "body" and t.finalbody]
            ok = any(any(r_ is x or any(r_ is y for y in ast.walk(x)) for x in t.finalbody) for t in tries_op for r_ in restores)
            ok_all = ok_all and ok
        cond_ok = all(any(b_ and same_bool(fn, t_, f"isinstance({sv}, Size)") for t_, b_ in __import__("tiv.astutil", fromlist=["guards"]).guards(r_)) for r_ in restores)
        verdict = ok_all and cond_ok
        break
    ck.expect(verdict is not None, "_renderer: saving of `self._size` / the render step not recognised")
    if verdict is not None:
        ck.ob(rid, where, verdict, "_renderer must save `self._size` and restore a dynamic (Size) value in the `finally` of the try that encloses the render (rendering never turns a dynamic size into a fixed one, "
              "also when the render raises or is interrupted)", stmt="_renderer: dynamic size restored")


def closed_stop(r):
    """`raise StopIteration(...)` under `self._closed` (alone, or together with a test that the caught exception is the AttributeError of the
    deleted generator), at the top of the function or in a handler that catches AttributeError."""
    from tiv.astutil import ancestors as _anc, flatten_boolop, guards
    if not (isinstance(r, ast.Raise) and r.exc is not None and "StopIteration" in norm(r.exc)):
        return False
    h = next((a_ for a_ in _anc(r) if isinstance(a_, ast.ExceptHandler)), None)
    from tiv.astutil import enclosing_func
    from tiv.sem import trace as _tr
    fn_ = enclosing_func(r)
    pos = [norm(_tr(fn_, v_) if isinstance(fn_, ast.FunctionDef) else v_) for t_, b_ in guards(r) if b_ for v_ in flatten_boolop(t_, ast.And)]
    neg = [t_ for t_, b_ in guards(r) if not b_]
    # a guard clause `if not self._closed: ...; raise` before it says the same thing as an enclosing `if self._closed:`
    for t_ in list(neg):
        if isinstance(t_, ast.UnaryOp) and isinstance(t_.op, ast.Not) and norm(t_.operand) == "self._closed":
            pos.append("self._closed")
            neg.remove(t_)
    if "self._closed" not in pos or neg:
        return False
    others = [x for x in pos if x != "self._closed"]
    if h is None:
        return not others
    catches = h.type is None or any(norm(e) in ("AttributeError", "Exception", "BaseException") for e in (h.type.elts if isinstance(h.type, ast.Tuple) else [h.type]))
    # (besides the AttributeError test, conjuncts that only exclude other exception classes narrow the same case)
    return catches and all(h.name and (x in (f"isinstance({h.name}, AttributeError)", f"type({h.name}) is AttributeError") or x.startswith(f"not isinstance({h.name}, ")) for x in others)



def animate_facts(ck, m):
    """ImageIterator._animate with its locals renamed to the roles the rules are written with: `sent` (what `yield` returns, i.e. a
    requested seek), `n` (the frame number: the name stored into `image._seek_position`), `frame` (what is yielded)."""
    import ast
    from tiv.astutil import body_walk, norm
    from tiv.roles import rename_locals
    an = m.get("image/common.py", "ImageIterator._animate")
    roles = {}
    for n_ in body_walk(an):
        if isinstance(n_, ast.Assign) and len(n_.targets) == 1 and isinstance(n_.targets[0], ast.Name) and isinstance(n_.value, ast.Yield):
            roles.setdefault(n_.targets[0].id, "sent")
            if isinstance(n_.value.value, ast.Name):
                roles.setdefault(n_.value.value.id, "frame")
        if isinstance(n_, ast.Assign) and any(norm(t_) == "image._seek_position" for t_ in n_.targets):
            if isinstance(n_.value, ast.Name):
                roles.setdefault(n_.value.id, "n")
            for t_ in n_.targets:
                if isinstance(t_, ast.Name):
                    roles.setdefault(t_.id, "n")
    applied = rename_locals(an, roles)
    ck.extra.setdefault("roles", {})["ImageIterator._animate"] = applied
    return an
