"""tiv - term-image verification: repository-specific static analysis (no code of /repo is executed)."""
