"""E10 - evaluation of boolean/comparison expressions over a small finite abstract domain: rules enumerate every valuation of the
variables a predicate depends on (e.g. alpha in {T, F}, an alpha value in {0, 128, 255}, whence in {START, CURRENT, END}, the sign of an
offset) and compare the (traced) predicate of the code with the specification on all of them. No repository code is run: the
evaluator interprets the expression tree itself and refuses (EvUnk) anything outside and/or/not, comparisons, conditional
expressions, constants and the enumerated names."""
from __future__ import annotations

import ast


class EvUnk(Exception):
    pass


def ev(e, env):
    """Evaluate a boolean/comparison expression over an abstract valuation (names -> small values)."""
    if isinstance(e, ast.Constant):
        return e.value
    if isinstance(e, (ast.Call, ast.Subscript, ast.IfExp, ast.Attribute)):
        d_ = ast.unparse(e)
        if d_ in env:                     # an abstracted sub-expression (the valuation names it by its source text)
            return env[d_]
    if isinstance(e, ast.Name):
        if e.id in env:
            return env[e.id]
        raise EvUnk(f"name {e.id}")
    if isinstance(e, ast.Attribute):
        d = ast.unparse(e)
        if d in env:
            return env[d]
        if isinstance(e.value, ast.Name) and e.value.id[:1].isupper():
            return d                      # an enum member / class constant: a token equal only to itself
        raise EvUnk(f"attribute {d}")
    if isinstance(e, ast.UnaryOp) and isinstance(e.op, ast.USub):
        return -ev(e.operand, env)
    if isinstance(e, ast.UnaryOp) and isinstance(e.op, ast.Not):
        return not ev(e.operand, env)
    if isinstance(e, ast.BoolOp):
        if isinstance(e.op, ast.And):
            v = True
            for x in e.values:
                v = ev(x, env)
                if not v:
                    return v
            return v
        v = False
        for x in e.values:
            v = ev(x, env)
            if v:
                return v
        return v
    if isinstance(e, ast.IfExp):
        return ev(e.body, env) if ev(e.test, env) else ev(e.orelse, env)
    if isinstance(e, ast.Compare):
        left = ev(e.left, env)
        for op, r in zip(e.ops, e.comparators):
            right = ev(r, env)
            if isinstance(op, ast.Eq):
                ok = left == right
            elif isinstance(op, ast.NotEq):
                ok = left != right
            elif isinstance(op, ast.Is):
                ok = left == right if isinstance(left, str) or isinstance(right, str) else left is right
            elif isinstance(op, ast.IsNot):
                ok = left != right if isinstance(left, str) or isinstance(right, str) else left is not right
            elif isinstance(op, (ast.In, ast.NotIn)) and isinstance(right, (set, frozenset, tuple, list)):
                ok = (left in right) == isinstance(op, ast.In)
            elif isinstance(op, (ast.Lt, ast.LtE, ast.Gt, ast.GtE)) and isinstance(left, (int, bool)) and isinstance(right, (int, bool)):
                ok = {ast.Lt: left < right, ast.LtE: left <= right, ast.Gt: left > right, ast.GtE: left >= right}[type(op)]
            elif isinstance(op, (ast.Lt, ast.LtE, ast.Gt, ast.GtE)) and isinstance(left, tuple) and isinstance(right, tuple) \
                    and all(isinstance(v_, (int, bool)) for v_ in left + right):
                # tuples of integers are ordered lexicographically (this is what Python does, which is the point of evaluating it)
                ok = {ast.Lt: left < right, ast.LtE: left <= right, ast.Gt: left > right, ast.GtE: left >= right}[type(op)]
            else:
                raise EvUnk(f"operator {type(op).__name__}")
            if not ok:
                return False
            left = right
        return True
    if isinstance(e, ast.Call) and isinstance(e.func, ast.Name) and e.func.id == "bool" and len(e.args) == 1:
        return bool(ev(e.args[0], env))
    if isinstance(e, (ast.Set, ast.Tuple, ast.List)) and all(isinstance(x, ast.Constant) for x in e.elts):
        vals = [x.value for x in e.elts]
        return frozenset(vals) if isinstance(e, ast.Set) else tuple(vals)
    if isinstance(e, (ast.Tuple, ast.List)) and not any(isinstance(x, ast.Starred) for x in e.elts):
        return tuple(ev(x, env) for x in e.elts)
    if isinstance(e, ast.Subscript):
        d = ast.unparse(e)
        if isinstance(e.slice, ast.Constant) and isinstance(e.slice.value, int):
            base = ev(e.value, env)
            if isinstance(base, tuple) and -len(base) <= e.slice.value < len(base):
                return base[e.slice.value]
        raise EvUnk(f"subscript {d}")
    if isinstance(e, ast.BinOp) and isinstance(e.op, (ast.Add, ast.Sub, ast.Mult, ast.Pow, ast.LShift, ast.FloorDiv)):
        l, r = ev(e.left, env), ev(e.right, env)
        if isinstance(l, (int, bool)) and isinstance(r, (int, bool)):
            if isinstance(e.op, (ast.Pow, ast.LShift)) and not 0 <= r <= 64:
                raise EvUnk("exponent / shift out of the small-integer range")
            if isinstance(e.op, ast.FloorDiv) and r == 0:
                raise EvUnk("division by zero")
            return {ast.Add: lambda: l + r, ast.Sub: lambda: l - r, ast.Mult: lambda: l * r, ast.Pow: lambda: l ** r, ast.LShift: lambda: l << r,
                    ast.FloorDiv: lambda: l // r}[type(e.op)]()
        raise EvUnk("arithmetic on non-integers")
    if isinstance(e, ast.Call) and isinstance(e.func, ast.Name) and e.func.id in ("min", "max") and e.args and not e.keywords:
        vs = [ev(a, env) for a in e.args]
        if all(isinstance(v, (int, bool)) for v in vs):
            return (min if e.func.id == "min" else max)(vs)
        raise EvUnk("min/max of non-integers")
    raise EvUnk(ast.dump(e)[:60])


