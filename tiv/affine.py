"""E8 - polynomial/affine normal form of integer expressions (no evaluation of repository code).

poly(expr) maps an expression built from names, attribute chains, integer constants, + - * and unary minus to a
canonical polynomial {monomial: coeff}; every other sub-expression (floor division, calls, subscripts, conditional
expressions) becomes an opaque atom whose own operands are normalised recursively, so `a - b - c` equals
`a - (b + c)` and `(w - c) // 2` equals `(-c + w) // 2`, while `pad - left` differs from `pad - left - 1` by the
constant polynomial 1. Equality of normal forms is exact for the ring operations; opaque atoms are compared
syntactically after normalisation (sound for inequality only modulo the algebra of the opaque operators).
"""
from __future__ import annotations

import ast
from fractions import Fraction

from .astutil import norm


class NotPoly(Exception):
    pass


def _mul(p, q):
    out = {}
    for m1, c1 in p.items():
        for m2, c2 in q.items():
            m = tuple(sorted(m1 + m2))
            out[m] = out.get(m, 0) + c1 * c2
    return {k: v for k, v in out.items() if v != 0}


def _add(p, q, s=1):
    out = dict(p)
    for k, v in q.items():
        out[k] = out.get(k, 0) + s * v
    return {k: v for k, v in out.items() if v != 0}


def show(p) -> str:
    if not p:
        return "0"
    parts = []
    for m, c in sorted(p.items(), key=lambda kv: (len(kv[0]), kv[0])):
        mono = "*".join(m)
        if not m:
            parts.append(f"{c:+d}" if isinstance(c, int) else f"{c:+}")
        elif c == 1:
            parts.append(f"+{mono}")
        elif c == -1:
            parts.append(f"-{mono}")
        else:
            parts.append(f"{c:+}*{mono}")
    s = " ".join(parts)
    return s[1:] if s.startswith("+") else s


def poly(e, subst=None):
    """subst: {normalised source of a sub-expression: replacement polynomial or expression}."""
    subst = subst or {}
    key = norm(e)
    if key in subst:
        r = subst[key]
        return r if isinstance(r, dict) else poly(r, {k: v for k, v in subst.items() if k != key})
    if isinstance(e, ast.Constant) and isinstance(e.value, (int, bool)) and not isinstance(e.value, str):
        v = int(e.value)
        return {(): v} if v else {}
    if isinstance(e, (ast.Name, ast.Attribute)):
        return {(key,): 1}
    if isinstance(e, ast.UnaryOp) and isinstance(e.op, ast.USub):
        return _add({}, poly(e.operand, subst), -1)
    if isinstance(e, ast.UnaryOp) and isinstance(e.op, ast.UAdd):
        return poly(e.operand, subst)
    if isinstance(e, ast.BinOp):
        if isinstance(e.op, ast.Add):
            return _add(poly(e.left, subst), poly(e.right, subst))
        if isinstance(e.op, ast.Sub):
            return _add(poly(e.left, subst), poly(e.right, subst), -1)
        if isinstance(e.op, ast.Mult):
            return _mul(poly(e.left, subst), poly(e.right, subst))
        if isinstance(e.op, (ast.FloorDiv, ast.Mod, ast.Div, ast.Pow, ast.LShift, ast.RShift)):
            sym = {ast.FloorDiv: "//", ast.Mod: "%", ast.Div: "/", ast.Pow: "**", ast.LShift: "<<", ast.RShift: ">>"}[type(e.op)]
            return {(f"({show(poly(e.left, subst))}){sym}({show(poly(e.right, subst))})",): 1}
    if isinstance(e, ast.Call) and isinstance(e.func, ast.Name) and e.func.id == "len" and len(e.args) == 1 and isinstance(e.args[0], ast.BinOp) and isinstance(e.args[0].op, ast.Mult):
        # len(" " * n) == n (for a one-character literal)
        l, r = e.args[0].left, e.args[0].right
        for s_, n_ in ((l, r), (r, l)):
            if isinstance(s_, ast.Constant) and isinstance(s_.value, str) and len(s_.value) == 1:
                return poly(n_, subst)
    if isinstance(e, ast.Call) and isinstance(e.func, ast.Name) and e.func.id == "mul" and not e.keywords:
        # operator.mul(a, b) / mul(*(a, b))
        ops = list(e.args)
        if len(ops) == 1 and isinstance(ops[0], ast.Starred) and isinstance(ops[0].value, (ast.Tuple, ast.List)):
            ops = list(ops[0].value.elts)
        if len(ops) == 2 and not any(isinstance(o, ast.Starred) for o in ops):
            return _mul(poly(ops[0], subst), poly(ops[1], subst))
    if isinstance(e, ast.Call):
        args = ",".join(show(poly(a, subst)) if not isinstance(a, ast.Starred) else "*" + norm(a.value) for a in e.args)
        return {(f"{norm(e.func)}({args})",): 1}
    if isinstance(e, ast.IfExp):
        return {(f"[{show(poly(e.body, subst))} if {norm(e.test)} else {show(poly(e.orelse, subst))}]",): 1}
    if isinstance(e, ast.Subscript):
        return {(key,): 1}
    raise NotPoly(key)


def equal(a, b, subst=None) -> bool:
    return poly(a, subst) == poly(b, subst)


def diff(a, b, subst=None) -> str:
    return show(_add(poly(a, subst), poly(b, subst), -1))


def parse(src: str):
    return ast.parse(src, mode="eval").body
