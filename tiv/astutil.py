"""Small AST helpers shared by the rules (pure syntax; nothing is executed)."""
from __future__ import annotations

import ast

FUNC = (ast.FunctionDef, ast.AsyncFunctionDef)
NESTED = (ast.FunctionDef, ast.AsyncFunctionDef, ast.Lambda, ast.ClassDef)


def norm(node) -> str:
    """Normalised source of a node (formatting, comments and line numbers do not matter)."""
    if node is None:
        return ""
    if isinstance(node, list):
        return "; ".join(norm(n) for n in node)
    try:
        return ast.unparse(node)
    except Exception:  # pragma: no cover
        return ast.dump(node)


def short(node, n: int = 110) -> str:
    s = " ".join(norm(node).split())
    return s if len(s) <= n else s[: n - 3] + "..."


def dotted(e) -> str | None:
    """'a.b.c' for Name/Attribute chains, 'super().x' for super() chains, else None."""
    if isinstance(e, ast.Name):
        return e.id
    if isinstance(e, ast.Attribute):
        b = dotted(e.value)
        return f"{b}.{e.attr}" if b else None
    if isinstance(e, ast.Call) and isinstance(e.func, ast.Name) and e.func.id == "super":
        return "super()"
    if isinstance(e, ast.Call) and isinstance(e.func, ast.Name) and e.func.id == "type" and len(e.args) == 1:
        b = dotted(e.args[0])
        return f"type({b})" if b else None
    return None


def call_name(c) -> str | None:
    return dotted(c.func) if isinstance(c, ast.Call) else None


def walk_local(node, include_self=True):
    """ast.walk that does not descend into nested function/lambda/class definitions
    (the root itself may be one)."""
    stack = [node]
    first = True
    while stack:
        n = stack.pop()
        if not first and isinstance(n, NESTED):
            yield n  # the definition node itself is visible, its body is not
            continue
        if include_self or not first:
            yield n
        first = False
        stack.extend(reversed(list(ast.iter_child_nodes(n))))


def body_walk(fn):
    """All nodes of a function's own body (not nested defs' bodies, not its decorators/defaults)."""
    for st in fn.body if isinstance(fn.body, list) else [fn.body]:
        if isinstance(st, NESTED):
            yield st            # a nested definition is visible as a node; its body belongs to it, not to fn
            continue
        yield from walk_local(st)


def calls_in(node, local=True):
    it = walk_local(node) if local else ast.walk(node)
    return [n for n in it if isinstance(n, ast.Call)]


def parent(n):
    return getattr(n, "_p", None)


def ancestors(n):
    p = parent(n)
    while p is not None:
        yield p
        p = parent(p)


def enclosing_stmt(n):
    while n is not None and not isinstance(n, ast.stmt):
        n = parent(n)
    return n


def enclosing_func(n):
    for a in ancestors(n):
        if isinstance(a, (ast.FunctionDef, ast.AsyncFunctionDef, ast.Lambda)):
            return a
    return None


def field_of(child, par):
    """Name of the field of `par` through which `child` hangs ('body', 'finalbody', 'test', ...)."""
    for name, val in ast.iter_fields(par):
        if val is child:
            return name
        if isinstance(val, list) and any(v is child for v in val):
            return name
    return None


def try_context(n, stop=None):
    """[(Try node, part)] from innermost to outermost for node n, part in body/handlers/orelse/finalbody.
    Stops at the enclosing function boundary."""
    out = []
    cur = n
    for a in ancestors(n):
        if isinstance(a, (ast.FunctionDef, ast.AsyncFunctionDef, ast.Lambda)) or a is stop:
            break
        if isinstance(a, ast.Try):
            part = field_of(cur, a)
            out.append((a, part))
        cur = a
    return out


def with_context(n):
    """[With node] enclosing n (innermost first) where n is inside the with *body*."""
    out = []
    cur = n
    for a in ancestors(n):
        if isinstance(a, (ast.FunctionDef, ast.AsyncFunctionDef, ast.Lambda)):
            break
        if isinstance(a, ast.With) and field_of(cur, a) == "body":
            out.append(a)
        cur = a
    return out


def _terminating(stmts) -> bool:
    """The block cannot complete normally: it ends with return/raise/continue/break, or with an if/else (or a with) that does."""
    if not stmts:
        return False
    last = stmts[-1]
    if isinstance(last, (ast.Return, ast.Raise, ast.Continue, ast.Break)):
        return True
    if isinstance(last, ast.If):
        return _terminating(last.body) and _terminating(last.orelse)
    if isinstance(last, (ast.With, ast.AsyncWith)):
        return _terminating(last.body)
    return False


def _leave_cond(stmts):
    """The condition under which a block is left before its end (return / raise / continue / break somewhere inside nested if / try / with):
    None = never, True = always, else an expression (built from the tests on the way; a handler that leaves contributes `__raised__(E)`).
    Loops are not looked into (a break / continue inside belongs to them; a return inside is not modelled: None)."""
    alts = []
    for st in stmts:
        c = None
        if isinstance(st, (ast.Return, ast.Raise, ast.Continue, ast.Break)):
            c = True
        elif isinstance(st, ast.If):
            lb, lo = _leave_cond(st.body), _leave_cond(st.orelse)
            parts = []
            if lb is True:
                parts.append(st.test)
            elif lb is not None:
                parts.append(ast.BoolOp(op=ast.And(), values=[st.test, lb]))
            nt = ast.UnaryOp(op=ast.Not(), operand=st.test)
            if lo is True:
                parts.append(nt)
            elif lo is not None:
                parts.append(ast.BoolOp(op=ast.And(), values=[nt, lo]))
            if lb is True and lo is True:
                c = True
            elif parts:
                c = parts[0] if len(parts) == 1 else ast.BoolOp(op=ast.Or(), values=parts)
        elif isinstance(st, (ast.With, ast.AsyncWith)):
            c = _leave_cond(st.body)
        elif isinstance(st, ast.Try):
            parts = []
            lb = _leave_cond(st.body + st.orelse)
            if lb is True:
                lb = None                    # (the body may still raise into a handler that falls through: not "always")
            if lb is not None:
                parts.append(lb)
            for h in st.handlers:
                lh = _leave_cond(h.body)
                if lh is None:
                    continue
                r_ = ast.Call(func=ast.Name(id="__raised__", ctx=ast.Load()), args=[h.type if h.type is not None else ast.Name(id="BaseException", ctx=ast.Load())], keywords=[])
                parts.append(r_ if lh is True else ast.BoolOp(op=ast.And(), values=[r_, lh]))
            if parts:
                c = parts[0] if len(parts) == 1 else ast.BoolOp(op=ast.Or(), values=parts)
        if c is True:
            return True if not alts else ast.BoolOp(op=ast.Or(), values=alts + [ast.Constant(value=True)])
        if c is not None:
            alts.append(c)
    if not alts:
        return None
    return alts[0] if len(alts) == 1 else ast.BoolOp(op=ast.Or(), values=alts)


def guards(n):
    """[(test expr, branch)] of the conditions under which n executes, innermost first, up to the enclosing function:
    enclosing if/while/ifexp/boolop conditions (branch True = body, False = orelse) AND guard clauses - an earlier
    sibling `if c: ...; return/raise/continue/break` (no else) contributes (c, False)."""
    out = []
    cur = n
    for a in ancestors(n):
        # guard clauses among the preceding siblings of `cur` in the block that contains it
        for fname in ("body", "orelse", "finalbody"):
            blk = getattr(a, fname, None)
            if isinstance(blk, list) and any(x is cur for x in blk):
                for sib in blk[: next(i for i, x in enumerate(blk) if x is cur)]:
                    if isinstance(sib, ast.If) and _terminating(sib.body) and not _terminating(sib.orelse):
                        out.append((sib.test, False))
                    elif isinstance(sib, ast.If) and sib.orelse and _terminating(sib.orelse) and not _terminating(sib.body):
                        out.append((sib.test, True))
                    elif isinstance(sib, (ast.If, ast.Try, ast.With)):
                        # leaves on some of its paths only (a return nested in an inner if / in a handler): what follows runs when it did not
                        lc = _leave_cond([sib])
                        if lc is not None and lc is not True and not any(isinstance(x, ast.Constant) and x.value is True for x in ast.walk(lc)):
                            for x in ast.walk(lc):
                                if not hasattr(x, "_p"):
                                    x._p = getattr(sib, "_p", None)
                                if not hasattr(x, "lineno"):
                                    ast.copy_location(x, sib)
                            out.append((lc, False))
        if isinstance(a, (ast.FunctionDef, ast.AsyncFunctionDef, ast.Lambda)):
            break
        if isinstance(a, (ast.If, ast.While, ast.IfExp)):
            f = field_of(cur, a)
            if f == "body":
                out.append((a.test, True))
            elif f == "orelse":
                out.append((a.test, False))
        elif isinstance(a, ast.BoolOp):
            idx = next((i for i, v in enumerate(a.values) if v is cur), None)
            if idx:
                for v in a.values[:idx]:
                    out.append((v, isinstance(a.op, ast.And)))
        cur = a
    return out


def conds(n):
    """guards(n) flattened to a set of normalised literals: 'c' for c known true, 'not c' for c known false, with
    `not not`, and-conjunctions under True and or-disjunctions under False split."""
    out = set()

    def add(t, pos):
        if isinstance(t, ast.UnaryOp) and isinstance(t.op, ast.Not):
            add(t.operand, not pos)
        elif isinstance(t, ast.BoolOp) and isinstance(t.op, ast.And) and pos:
            for v in t.values:
                add(v, True)
        elif isinstance(t, ast.BoolOp) and isinstance(t.op, ast.Or) and not pos:
            for v in t.values:
                add(v, False)
        else:
            out.add(norm(t) if pos else "not " + _paren(t))
            if not pos and isinstance(t, ast.Compare) and len(t.ops) == 1 and type(t.ops[0]) in _NEGOP:
                # a false comparison is also known as the opposite comparison: not (x is not None)  ==  x is None
                out.add(norm(ast.Compare(left=t.left, ops=[_NEGOP[type(t.ops[0])]()], comparators=t.comparators)))
    for t, b in guards(n):
        add(t, b)
    return out


_NEGOP = {ast.Is: ast.IsNot, ast.IsNot: ast.Is, ast.Eq: ast.NotEq, ast.NotEq: ast.Eq, ast.Lt: ast.GtE, ast.GtE: ast.Lt, ast.Gt: ast.LtE, ast.LtE: ast.Gt, ast.In: ast.NotIn, ast.NotIn: ast.In}


def _paren(t):
    s = norm(t)
    return s if isinstance(t, (ast.Name, ast.Attribute, ast.Call, ast.Subscript, ast.Constant)) else f"({s})"


def names_loaded(node) -> set[str]:
    return {n.id for n in ast.walk(node) if isinstance(n, ast.Name) and isinstance(n.ctx, ast.Load)}


def assigned_targets(st):
    """Flat list of target expressions of an assignment-like statement."""
    out = []
    if isinstance(st, ast.Assign):
        ts = st.targets
    elif isinstance(st, (ast.AugAssign, ast.AnnAssign)):
        ts = [st.target]
    elif isinstance(st, (ast.For, ast.AsyncFor)):
        ts = [st.target]
    elif isinstance(st, ast.NamedExpr):
        ts = [st.target]
    elif isinstance(st, (ast.With, ast.AsyncWith)):
        ts = [i.optional_vars for i in st.items if i.optional_vars is not None]
    else:
        ts = []
    stack = list(ts)
    while stack:
        t = stack.pop()
        if isinstance(t, (ast.Tuple, ast.List)):
            stack.extend(t.elts)
        elif isinstance(t, ast.Starred):
            stack.append(t.value)
        else:
            out.append(t)
    return out


def stores_in(node, local=True):
    """[(target expr, statement)] for every store (assign/augassign/annassign/for/with/walrus/del) in node."""
    out = []
    it = walk_local(node) if local else ast.walk(node)
    for n in it:
        if isinstance(n, (ast.Assign, ast.AugAssign, ast.For, ast.With, ast.NamedExpr)):
            for t in assigned_targets(n):
                out.append((t, n))
        elif isinstance(n, ast.AnnAssign) and n.value is not None:
            out.append((n.target, n))
        elif isinstance(n, ast.Delete):
            for t in n.targets:
                out.append((t, n))
    return out


def const_str(e):
    return e.value if isinstance(e, ast.Constant) and isinstance(e.value, str) else None


def is_const(e, v) -> bool:
    return isinstance(e, ast.Constant) and type(e.value) is type(v) and e.value == v


def kw(call: ast.Call, name: str):
    for k in call.keywords:
        if k.arg == name:
            return k.value
    return None


def stmts_flat(body):
    """All statements (recursively, local to the function) in a list of statements, in source order."""
    out = []
    for st in body:
        for n in walk_local(st):
            if isinstance(n, ast.stmt):
                out.append(n)
    out.sort(key=lambda s: (s.lineno, s.col_offset))
    return out


def flatten_boolop(e, op):
    """Flatten nested BoolOps of kind `op` into a list of operands."""
    if isinstance(e, ast.BoolOp) and isinstance(e.op, op):
        out = []
        for v in e.values:
            out.extend(flatten_boolop(v, op))
        return out
    return [e]


def rename(node, mapping: dict[str, str]):
    """Copy of node with Name ids / attribute names renamed by mapping (simultaneous)."""
    n2 = clone(node)
    for x in ast.walk(n2):
        if isinstance(x, ast.Name) and x.id in mapping:
            x.id = mapping[x.id]
        elif isinstance(x, ast.Attribute) and x.attr in mapping:
            x.attr = mapping[x.attr]
    return n2


def value_cases(node, value=None):
    """[(set of condition literals, value expr)]: conds(node) extended by the tests of conditional expressions the
    value is made of (`x = a if c else b` yields two cases)."""
    base = conds(node)
    v = value if value is not None else getattr(node, "value", None)
    out = []

    def rec(e, cs):
        if isinstance(e, ast.IfExp):
            t = norm(e.test)
            neg = "not " + _paren(e.test)
            if isinstance(e.test, ast.UnaryOp) and isinstance(e.test.op, ast.Not):
                neg = norm(e.test.operand)
            rec(e.body, cs | {t})
            rec(e.orelse, cs | {neg})
        else:
            out.append((cs, e))
    rec(v, set(base))
    return out


def clone(node):
    """Deep copy of an AST following only syntactic fields (never the `_p` parent links, which would drag the whole module along)."""
    if isinstance(node, list):
        return [clone(x) for x in node]
    if not isinstance(node, ast.AST):
        return node
    new = type(node)()
    for f in node._fields:
        if hasattr(node, f):
            setattr(new, f, clone(getattr(node, f)))
    for a in ("lineno", "col_offset", "end_lineno", "end_col_offset", "_srcline"):
        if hasattr(node, a):
            setattr(new, a, getattr(node, a))
    return new
