"""E5 - name-based (class-hierarchy-by-method-name) call graph over the package.

Nodes are function definitions (rel, qualified name) and lambdas; an edge F -> G exists when F's body
(including lambdas and comprehensions nested in it, excluding nested defs) contains
  * a call whose callee's last name component is G's name, or
  * an attribute load `.p` where p is a property (``@property def p`` / ``p = property(fget, ...)`` /
    ``ClassProperty(...)`` / ``ClassInstanceProperty(...)``) whose getter is G, or
  * a reference to G passed as an argument (callbacks: `self._renderer(self._render_image, ...)`).
Over-approximate by construction (every same-named definition is a candidate): used for
"may reach" questions only, never for "cannot reach".
"""
from __future__ import annotations

import ast

from .astutil import FUNC, dotted
from .srcmodel import Model

PROP_CTORS = {"property", "ClassProperty", "ClassInstanceProperty", "ClassPropertyBase"}


class CallGraph:
    def __init__(self, m: Model):
        self.m = m
        self.defs: dict[tuple[str, str], ast.AST] = {}
        self.by_name: dict[str, list[tuple[str, str]]] = {}
        self.props: dict[str, list[ast.AST]] = {}  # property name -> getter nodes (lambda or def)
        for rel, q, fn in m.functions():
            self.defs[(rel, q)] = fn
            self.by_name.setdefault(fn.name, []).append((rel, q))
            if any(dotted(d) == "property" or (dotted(d) or "").endswith(".getter") for d in fn.decorator_list):
                self.props.setdefault(fn.name, []).append(fn)
        for rel, q, cls in m.classes():
            for st in cls.body:
                if isinstance(st, ast.Assign) and isinstance(st.value, ast.Call) and dotted(st.value.func) in PROP_CTORS:
                    for t in st.targets:
                        if isinstance(t, ast.Name) and st.value.args:
                            self.props.setdefault(t.id, []).append(st.value.args[0])
        self._edges: dict[int, set] = {}

    def _body_nodes(self, fn):
        body = fn.body if isinstance(fn.body, list) else [fn.body]
        stack = list(body)
        while stack:
            n = stack.pop()
            yield n
            for c in ast.iter_child_nodes(n):
                if isinstance(c, (ast.FunctionDef, ast.AsyncFunctionDef, ast.ClassDef)):
                    continue
                stack.append(c)

    def callees(self, fn) -> set:
        """Set of callee *nodes* (defs or property-getter lambdas) possibly invoked by fn."""
        k = id(fn)
        if k in self._edges:
            return self._edges[k]
        out = set()
        for n in self._body_nodes(fn):
            names = []
            if isinstance(n, ast.Call):
                d = dotted(n.func)
                if d:
                    names.append(d.split(".")[-1])
                for a in list(n.args) + [kw.value for kw in n.keywords]:
                    da = dotted(a)
                    if da and da.split(".")[-1] in self.by_name and isinstance(a, (ast.Attribute, ast.Name)):
                        names.append(da.split(".")[-1])
            elif isinstance(n, ast.Attribute) and isinstance(n.ctx, ast.Load) and n.attr in self.props:
                for g in self.props[n.attr]:
                    if isinstance(g, ast.Lambda) or isinstance(g, FUNC):
                        out.add(g)
                    else:
                        dg = dotted(g)
                        if dg:
                            names.append(dg.split(".")[-1])
            for nm in names:
                for key in self.by_name.get(nm, []):
                    out.add(self.defs[key])
        self._edges[k] = out
        return out

    def reaches(self, fn, target_name: str, limit: int = 10000):
        """Path of function names from fn to a definition named target_name, or None."""
        seen = {id(fn)}
        stack = [(fn, [getattr(fn, "name", "<lambda>")])]
        while stack and limit:
            limit -= 1
            f, path = stack.pop()
            for g in self.callees(f):
                gname = getattr(g, "name", "<lambda>")
                if gname == target_name:
                    return path + [gname]
                if id(g) not in seen:
                    seen.add(id(g))
                    stack.append((g, path + [gname]))
        return None

    def reachable_from(self, fn) -> list:
        seen = {id(fn): fn}
        stack = [fn]
        while stack:
            f = stack.pop()
            for g in self.callees(f):
                if id(g) not in seen:
                    seen[id(g)] = g
                    stack.append(g)
        return list(seen.values())
