"""E2 - statement-level control-flow graph with exceptional edges.

Exception model (see DESIGN.md 2.2):
  * sync : a node may raise iff it syntactically contains something that can (call, subscript,
           non-self attribute load, operator, raise/assert/del, unpacking). Both exception classes
           (KI = BaseException-only such as KeyboardInterrupt, EX = Exception) are possible then.
  * async: additionally every node may be left through a KI edge (an interrupt can surface anywhere).
  * `finally` bodies and `with` exits are duplicated per continuation (fall, return, break,
    continue, raise-KI, raise-EX); copies are tagged in Node.copy.
  * atomic_cleanup=True removes exceptional edges from nodes that belong to a `finally` copy
    (used by C07, whose statement excludes faults after clean-up has started).
  * `a and f()` / `a or f()` expression statements are expanded into a test node + a call node.
  * generators: every `yield` node additionally gets a KI edge (GeneratorExit on close()).
  * edge labels: n/true/false/ret/brk/cont (normal), catch (dispatch -> handler), `e:KI`/`e:EX` = a fault
    ORIGINATES at the source node, `p:KI`/`p:EX` = an exception already in flight PROPAGATES (out of a finally
    copy / past a try without a matching handler).
Unmodelled statement kinds (match, async, try*) raise AnalysisError - never guessed.
"""
from __future__ import annotations

import ast
from collections import deque

from .srcmodel import AnalysisError

KI, EX = "KI", "EX"


class Node:
    __slots__ = ("kind", "ast", "copy", "succ", "pred", "id", "in_finally")

    def __init__(self, kind, a, copy, id_):
        self.kind = kind  # stmt|test|iter|with_enter|with_exit|entry|exit_return|exit_raise_KI|exit_raise_EX|handler|dispatch|join
        self.ast = a
        self.copy = copy
        self.succ: list[tuple[str, "Node"]] = []
        self.pred: list[tuple[str, "Node"]] = []
        self.id = id_
        self.in_finally = bool(copy)

    @property
    def lineno(self):
        return getattr(self.ast, "lineno", 0)

    def __repr__(self):
        s = ""
        if self.ast is not None:
            try:
                s = ast.unparse(self.ast).split("\n")[0][:60]
            except Exception:
                s = type(self.ast).__name__
        return f"<{self.id}:{self.kind}{'@' + self.copy if self.copy else ''} L{self.lineno} {s}>"


def may_raise_sync(n: ast.AST) -> bool:
    if isinstance(n, (ast.Raise, ast.Assert, ast.Delete)):
        return True
    for x in ast.walk(n):
        if isinstance(x, (ast.Call, ast.Subscript, ast.BinOp, ast.UnaryOp, ast.Await, ast.Yield, ast.YieldFrom, ast.Starred, ast.Compare)):
            if isinstance(x, ast.UnaryOp) and isinstance(x.op, ast.Not):
                continue
            if isinstance(x, ast.Compare) and all(isinstance(o, (ast.Is, ast.IsNot)) for o in x.ops):
                continue
            return True
        if isinstance(x, ast.Attribute) and isinstance(x.ctx, ast.Load) and not (
            isinstance(x.value, ast.Name) and x.value.id in ("self", "cls")
        ):
            return True
        if isinstance(x, (ast.Tuple, ast.List)) and isinstance(getattr(x, "ctx", None), ast.Store):
            return True
    return False


def handler_classes(h: ast.ExceptHandler):
    """-> (classes it may catch, classes it certainly catches) over {KI, EX}."""
    if h.type is None:
        return {KI, EX}, {KI, EX}
    t = h.type
    elts = t.elts if isinstance(t, ast.Tuple) else [t]
    may, must = set(), set()
    for e in elts:
        nm = e.attr if isinstance(e, ast.Attribute) else getattr(e, "id", "?")
        if nm == "BaseException":
            may |= {KI, EX}
            must |= {KI, EX}
        elif nm in ("KeyboardInterrupt", "GeneratorExit", "SystemExit"):
            may.add(KI)
            if nm == "KeyboardInterrupt":
                must.add(KI)  # for must-purposes KI stands for KeyboardInterrupt
        elif nm == "Exception":
            may.add(EX)
            must.add(EX)
        else:
            may.add(EX)
    return may, must


def exc_truth(test, ename, cls):
    """Truth of a handler-local condition when the caught exception (bound to `ename`) is a KeyboardInterrupt (cls == KI) or an ordinary
    Exception (cls == EX): True / False / None (does not depend on the class, or not recognised)."""
    if isinstance(test, ast.UnaryOp) and isinstance(test.op, ast.Not):
        v = exc_truth(test.operand, ename, cls)
        return None if v is None else not v
    if isinstance(test, ast.BoolOp):
        vs = [exc_truth(v, ename, cls) for v in test.values]
        if isinstance(test.op, ast.And):
            return False if any(v is False for v in vs) else True if all(v is True for v in vs) else None
        return True if any(v is True for v in vs) else False if all(v is False for v in vs) else None

    def cls_of(e):
        nm = e.attr if isinstance(e, ast.Attribute) else getattr(e, "id", None)
        return {"KeyboardInterrupt": {KI}, "Exception": {EX}, "BaseException": {KI, EX}}.get(nm)
    if ename and isinstance(test, ast.Call) and isinstance(test.func, ast.Name) and test.func.id == "isinstance" and len(test.args) == 2 \
            and isinstance(test.args[0], ast.Name) and test.args[0].id == ename:
        cs = [cls_of(e) for e in (test.args[1].elts if isinstance(test.args[1], ast.Tuple) else [test.args[1]])]
        if any(c is not None and cls in c for c in cs):
            return True
        if all(c is not None for c in cs):
            return False
        return None
    if ename and isinstance(test, ast.Compare) and len(test.ops) == 1 and isinstance(test.ops[0], (ast.Is, ast.IsNot, ast.Eq, ast.NotEq)) \
            and ast.unparse(test.left) in (f"type({ename})", f"{ename}.__class__"):
        c = cls_of(test.comparators[0])
        if c is not None and len(c) == 1 and cls == KI:
            # type(e) is KeyboardInterrupt: exact for KI (no subclasses of interest); for EX `type(e) is Exception` is unknown
            v = cls in c
            return v if isinstance(test.ops[0], (ast.Is, ast.Eq)) else not v
    return None


def handler_reraise(h: ast.ExceptHandler, cls):
    """'always' / 'never' / 'maybe': does control leave handler `h` by raising when the caught exception is of class `cls`?
    Conditions on the class of the bound exception are decided (exc_truth); every other condition may go either way."""
    ename = h.name

    def out(stmts):
        res = set()
        for s in stmts:
            if isinstance(s, ast.Raise):
                return res | {"raise"}
            if isinstance(s, (ast.Return, ast.Break, ast.Continue)):
                return res | {"exit"}
            if isinstance(s, ast.If):
                t = exc_truth(s.test, ename, cls)
                o = set()
                if t is not False:
                    o |= out(s.body)
                if t is not True:
                    o |= out(s.orelse)
                res |= o - {"next"}
                if "next" not in o:
                    return res
                continue
            if isinstance(s, (ast.Try, ast.With, ast.For, ast.While, ast.AsyncWith, ast.AsyncFor, ast.Match)):
                if any(isinstance(x, ast.Raise) for x in ast.walk(s)):
                    res.add("raise")        # nested control flow containing a raise: may raise
                continue
        return res | {"next"}
    o = out(h.body)
    if o == {"raise"}:
        return "always"
    return "never" if "raise" not in o else "maybe"


class _Ctx:
    __slots__ = ("exc", "ret", "brk", "cont")

    def __init__(self, exc, ret, brk=None, cont=None):
        self.exc, self.ret, self.brk, self.cont = exc, ret, brk, cont

    def replace(self, **kw):
        c = _Ctx(self.exc, self.ret, self.brk, self.cont)
        for k, v in kw.items():
            setattr(c, k, v)
        return c


class CFG:
    def __init__(self, fn, async_model: bool = False, atomic_cleanup: bool = False):
        self.fn = fn
        self.async_model = async_model
        self.atomic_cleanup = atomic_cleanup
        self.nodes: list[Node] = []
        self.is_generator = any(
            isinstance(x, (ast.Yield, ast.YieldFrom)) for x in _walk_local(fn)
        )
        self.entry = self._new("entry")
        self.exit_return = self._new("exit_return")
        self.exit_raise = {KI: self._new("exit_raise_KI"), EX: self._new("exit_raise_EX")}
        ctx = _Ctx(dict(self.exit_raise), self.exit_return)
        body = fn.body if isinstance(fn.body, list) else [ast.Return(value=fn.body)]
        ent, exits = self._seq(body, ctx, "")
        self._edge(self.entry, ent, "n")
        for x in exits:
            self._edge(x, self.exit_return, "n")
        for n in self.nodes:
            for lab, m in n.succ:
                m.pred.append((lab, n))

    # -- construction -----------------------------------------------------------------
    def _new(self, kind, a=None, copy=""):
        n = Node(kind, a, copy, len(self.nodes))
        self.nodes.append(n)
        return n

    def _edge(self, a: Node, b: Node, label: str):
        if b is None:
            raise AnalysisError(f"CFG: break/continue outside loop in {getattr(self.fn, 'name', '<lambda>')}")
        for lab, m in a.succ:
            if lab == label and m is b:
                return
        a.succ.append((label, b))

    def _raising(self, n: Node, ctx: _Ctx, force=False):
        if self.atomic_cleanup and n.copy:
            return
        has_yield = n.ast is not None and any(isinstance(x, (ast.Yield, ast.YieldFrom)) for x in ast.walk(n.ast))
        if force or (n.ast is not None and may_raise_sync(n.ast)):
            self._edge(n, ctx.exc[EX], "e:EX")
            self._edge(n, ctx.exc[KI], "e:KI")
        elif self.async_model or has_yield:
            self._edge(n, ctx.exc[KI], "e:KI")

    def _seq(self, stmts, ctx, copy):
        entry = None
        exits: list[Node] = []
        first = True
        for s in stmts:
            e, x = self._stmt(s, ctx, copy)
            if first:
                entry = e
                first = False
            else:
                for p in exits:
                    self._edge(p, e, "n")
            exits = x
            if not exits:
                break
        if entry is None:
            entry = self._new("join", None, copy)
            exits = [entry]
        return entry, exits

    def _simple(self, s, ctx, copy, kind="stmt"):
        n = self._new(kind, s, copy)
        self._raising(n, ctx)
        return n

    def _stmt(self, s, ctx: _Ctx, copy):
        if isinstance(s, (ast.AsyncFunctionDef, ast.AsyncFor, ast.AsyncWith)) or type(s).__name__ in ("Match", "TryStar"):
            raise AnalysisError(f"CFG: unmodelled statement kind {type(s).__name__} at line {s.lineno}")
        if isinstance(s, (ast.FunctionDef, ast.ClassDef, ast.Import, ast.ImportFrom, ast.Global, ast.Nonlocal, ast.Pass)):
            n = self._new("stmt", s, copy)
            if self.async_model and not (self.atomic_cleanup and copy):
                self._edge(n, ctx.exc[KI], "e:KI")
            return n, [n]
        if isinstance(s, ast.Return):
            n = self._new("stmt", s, copy)
            if s.value is not None:
                self._raising(n, ctx)
            elif self.async_model and not (self.atomic_cleanup and copy):
                self._edge(n, ctx.exc[KI], "e:KI")
            self._edge(n, ctx.ret, "ret")
            return n, []
        if isinstance(s, ast.Raise):
            n = self._new("stmt", s, copy)
            self._edge(n, ctx.exc[EX], "e:EX")
            self._edge(n, ctx.exc[KI], "e:KI")
            return n, []
        if isinstance(s, ast.Break):
            n = self._new("stmt", s, copy)
            self._edge(n, ctx.brk, "brk")
            return n, []
        if isinstance(s, ast.Continue):
            n = self._new("stmt", s, copy)
            self._edge(n, ctx.cont, "cont")
            return n, []
        if isinstance(s, ast.If):
            t = self._new("test", s.test, copy)
            self._raising(t, ctx)
            be, bx = self._seq(s.body, ctx, copy)
            self._edge(t, be, "true")
            if s.orelse:
                oe, ox = self._seq(s.orelse, ctx, copy)
                self._edge(t, oe, "false")
                return t, bx + ox
            j = self._new("join", None, copy)
            self._edge(t, j, "false")
            return t, bx + [j]
        if isinstance(s, (ast.While, ast.For)):
            is_while = isinstance(s, ast.While)
            head = self._new("test" if is_while else "iter", s.test if is_while else s, copy)
            self._raising(head, ctx, force=not is_while)
            after = self._new("join", None, copy)
            be, bx = self._seq(s.body, ctx.replace(brk=after, cont=head), copy)
            self._edge(head, be, "true")
            for x in bx:
                self._edge(x, head, "n")
            const_true = is_while and isinstance(s.test, ast.Constant) and bool(s.test.value)
            if s.orelse:
                oe, ox = self._seq(s.orelse, ctx, copy)
                if not const_true:
                    self._edge(head, oe, "false")
                for x in ox:
                    self._edge(x, after, "n")
            elif not const_true:
                self._edge(head, after, "false")
            return head, [after]
        if isinstance(s, ast.With):
            return self._with(s, 0, ctx, copy)
        if isinstance(s, ast.Try):
            return self._try(s, ctx, copy)
        if isinstance(s, ast.Expr) and isinstance(s.value, ast.BoolOp) and isinstance(s.value.values[-1], ast.Call):
            # `a and f()` / `a or f()` used as a conditional statement
            bo = s.value
            prefix = bo.values[0] if len(bo.values) == 2 else ast.BoolOp(op=bo.op, values=bo.values[:-1])
            ast.copy_location(prefix, s)
            t = self._new("test", prefix, copy)
            self._raising(t, ctx)
            call_stmt = ast.Expr(value=bo.values[-1])
            ast.copy_location(call_stmt, bo.values[-1])
            call_stmt._p = s
            c = self._new("stmt", call_stmt, copy)
            self._raising(c, ctx)
            is_and = isinstance(bo.op, ast.And)
            self._edge(t, c, "true" if is_and else "false")
            j = self._new("join", None, copy)
            self._edge(t, j, "false" if is_and else "true")
            return t, [j, c]
        n = self._simple(s, ctx, copy)
        return n, [n]

    def _finally_wrap(self, builder, ctx: _Ctx, copy):
        cache = {}

        def via(kind, target):
            if target is None:
                return None
            key = (kind, target.id)
            if key not in cache:
                tag = f"{copy}/fin:{kind}" if copy else f"fin:{kind}"
                e, xs = builder(ctx, tag)
                lab = {"ret": "ret", "brk": "brk", "cont": "cont"}.get(kind, "p:" + kind[-2:])
                for x in xs:
                    self._edge(x, target, lab)
                cache[key] = e
            return cache[key]

        return _Ctx(
            {KI: via("excKI", ctx.exc[KI]), EX: via("excEX", ctx.exc[EX])},
            via("ret", ctx.ret),
            via("brk", ctx.brk),
            via("cont", ctx.cont),
        )

    def _with(self, s: ast.With, i, ctx, copy):
        item = s.items[i]
        enter = self._new("with_enter", item, copy)
        self._raising(enter, ctx, force=True)

        def build_exit(c, tag):
            n = self._new("with_exit", item, tag)
            self._raising(n, c, force=True)
            return n, [n]

        inner = self._finally_wrap(build_exit, ctx, copy)
        if i + 1 < len(s.items):
            be, bx = self._with(s, i + 1, inner, copy)
        else:
            be, bx = self._seq(s.body, inner, copy)
        self._edge(enter, be, "n")
        ex = self._new("with_exit", item, copy)
        self._raising(ex, ctx, force=True)
        for x in bx:
            self._edge(x, ex, "n")
        return enter, [ex]

    def _try(self, s: ast.Try, ctx, copy):
        if s.finalbody:
            inner = self._finally_wrap(lambda c, tag: self._seq(s.finalbody, c, tag), ctx, copy)
        else:
            inner = ctx
        handler_exits = []
        if s.handlers:
            disp = {KI: self._new("dispatch", s, copy), EX: self._new("dispatch", s, copy)}
            caught_must = set()
            for h in s.handlers:
                may, must = handler_classes(h)
                he, hx = self._seq(h.body, inner, copy)
                hn = self._new("handler", h, copy)
                self._edge(hn, he, "n")
                for k in may - caught_must:
                    self._edge(disp[k], hn, "catch")
                caught_must |= must
                handler_exits += hx
            for k in (KI, EX):
                if k not in caught_must:
                    self._edge(disp[k], inner.exc[k], "p:" + k)
            body_ctx = inner.replace(exc=disp)
        else:
            body_ctx = inner
        be, bx = self._seq(s.body, body_ctx, copy)
        exits = []
        if s.orelse:
            oe, ox = self._seq(s.orelse, inner, copy)
            for x in bx:
                self._edge(x, oe, "n")
            exits += ox
        else:
            exits += bx
        exits += handler_exits
        if s.finalbody:
            fe, fx = self._seq(s.finalbody, ctx, f"{copy}/fin:fall" if copy else "fin:fall")
            for x in exits:
                self._edge(x, fe, "n")
            exits = fx
        return be, exits

    # -- queries -------------------------------------------------------------------
    def nodes_of(self, a) -> list[Node]:
        """CFG nodes whose statement/test is `a` or (for compound heads) contains `a`."""
        out = [n for n in self.nodes if n.ast is a]
        if out:
            return out
        for n in self.nodes:
            if n.ast is not None and n.kind in ("stmt", "test", "iter", "with_enter") and not isinstance(n.ast, ast.Try):
                src = n.ast
                if n.kind == "iter":
                    src = n.ast.iter
                elif n.kind == "with_enter":
                    src = n.ast.context_expr
                if any(x is a for x in ast.walk(src)):
                    out.append(n)
        return out

    def search(self, starts, is_target, avoid=None, edge_ok=None, from_succ=True):
        """BFS from `starts` (their successors if from_succ) to the first node satisfying is_target,
        never entering a node satisfying avoid. Returns the path [(label, node), ...] or None."""
        avoid = avoid or (lambda n: False)
        q = deque()
        prev: dict[int, tuple] = {}
        seen = set()

        def push(src, lab, m):
            if m.id in seen:
                return
            if edge_ok is not None and not edge_ok(src, lab, m):
                return
            seen.add(m.id)
            prev[m.id] = (src, lab)
            q.append(m)

        for s in starts:
            if from_succ:
                for lab, m in s.succ:
                    push(s, lab, m)
            else:
                seen.add(s.id)
                prev[s.id] = (None, "")
                q.append(s)
        while q:
            n = q.popleft()
            if is_target(n):
                path = []
                cur = n
                walked = set()
                while cur is not None and cur.id in prev and cur.id not in walked:       # (a start that is its own target closes a cycle: walk it once)
                    walked.add(cur.id)
                    src, lab = prev[cur.id]
                    path.append((lab, cur))
                    cur = src
                    if src is not None and src.id not in prev:
                        path.append(("", src))
                        break
                return list(reversed(path))
            if avoid(n):
                continue
            for lab, m in n.succ:
                push(n, lab, m)
        return None

    def reachable(self, starts, avoid=None, edge_ok=None, from_succ=True):
        avoid = avoid or (lambda n: False)
        seen = {}
        st = []
        for s in starts:
            if from_succ:
                for lab, m in s.succ:
                    if edge_ok is None or edge_ok(s, lab, m):
                        st.append(m)
            else:
                st.append(s)
        while st:
            n = st.pop()
            if n.id in seen:
                continue
            seen[n.id] = n
            if avoid(n):
                continue
            for lab, m in n.succ:
                if edge_ok is None or edge_ok(n, lab, m):
                    st.append(m)
        return list(seen.values())

    def dominated_by(self, target: Node, is_dom, edge_ok=None) -> bool:
        """True iff every path entry -> target passes through a node satisfying is_dom
        (vacuously true if target is unreachable)."""
        if is_dom(target):
            return True
        p = self.search([self.entry], lambda n: n is target, avoid=is_dom, edge_ok=edge_ok, from_succ=False)
        return p is None

    def exits(self):
        return [self.exit_return, self.exit_raise[KI], self.exit_raise[EX]]


def _walk_local(fn):
    body = fn.body if isinstance(fn.body, list) else [fn.body]
    stack = list(body)
    while stack:
        n = stack.pop()
        yield n
        for c in ast.iter_child_nodes(n):
            if isinstance(c, (ast.FunctionDef, ast.AsyncFunctionDef, ast.Lambda, ast.ClassDef)):
                continue
            stack.append(c)


def flag_edges(flags: dict[str, bool]):
    """edge_ok callback pruning branches contradicted by the given boolean flags
    (tests of the form `name`, `not name`, `name and ...` (false branch kept), ...)."""

    def ok(src: Node, lab: str, dst: Node) -> bool:
        if src.kind != "test" or lab not in ("true", "false"):
            return True
        t = src.ast
        neg = False
        while isinstance(t, ast.UnaryOp) and isinstance(t.op, ast.Not):
            neg = not neg
            t = t.operand
        if isinstance(t, ast.Name) and t.id in flags:
            val = flags[t.id] != neg
            return (lab == "true") == val
        return True

    return ok


def fmt_path(path, limit=12) -> str:
    items = []
    for lab, n in path:
        if n.kind in ("join", "dispatch"):
            continue
        items.append(f"{'-' + lab + '->' if lab else ''}L{n.lineno}:{n.kind}{'@' + n.copy if n.copy else ''}")
    if len(items) > limit:
        items = items[: limit // 2] + ["..."] + items[-limit // 2 :]
    return " ".join(items)
