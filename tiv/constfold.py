"""E6 - constant folder for control-sequence templates.

Folds module-level (and class-body) assignments whose right-hand sides are built from literals with f-strings,
`%` (printf), `+`, `*`, tuples, `";".join(...)`, `.encode()`, `re.escape(...)` and calls of module-level helper
functions that consist of a single `return <pure expression>` (e.g. `Pm(n)`). It is constant propagation over the
syntax tree - the module is never imported. Anything outside this fragment is 'unknown' (None), never guessed.
"""
from __future__ import annotations

import ast
import re

UNKNOWN = object()


class Folder:
    def __init__(self, tree: ast.Module):
        self.tree = tree
        self.env: dict[str, object] = {}
        self.funcs = {s.name: s for s in tree.body if isinstance(s, ast.FunctionDef)}
        self.order: list[str] = []
        for st in tree.body:
            self._stmt(st, self.env)

    def _stmt(self, st, env):
        if isinstance(st, ast.Assign) and len(st.targets) == 1 and isinstance(st.targets[0], ast.Name):
            v = self.eval(st.value, env)
            if v is not UNKNOWN:
                env[st.targets[0].id] = v
                if env is self.env:
                    self.order.append(st.targets[0].id)
            else:
                env.pop(st.targets[0].id, None)
        elif isinstance(st, ast.ClassDef):
            cenv = dict(env)
            for s2 in st.body:
                self._stmt(s2, cenv)
            self.env[f"class:{st.name}"] = {k: v for k, v in cenv.items() if k not in env or env[k] is not v}

    def eval(self, e, env=None):
        env = self.env if env is None else env
        try:
            return self._eval(e, env)
        except _Unknown:
            return UNKNOWN

    def _eval(self, e, env):
        if isinstance(e, ast.Constant):
            return e.value
        if isinstance(e, ast.Name):
            if e.id in env:
                return env[e.id]
            raise _Unknown
        if isinstance(e, ast.Tuple):
            return tuple(self._eval(x, env) for x in e.elts)
        if isinstance(e, ast.JoinedStr):
            out = []
            for v in e.values:
                if isinstance(v, ast.Constant):
                    out.append(str(v.value))
                elif isinstance(v, ast.FormattedValue) and v.conversion == -1 and v.format_spec is None:
                    out.append(format(self._eval(v.value, env)))
                else:
                    raise _Unknown
            return "".join(out)
        if isinstance(e, ast.BinOp):
            l, r = self._eval(e.left, env), self._eval(e.right, env)
            try:
                if isinstance(e.op, ast.Add):
                    return l + r
                if isinstance(e.op, ast.Mult):
                    return l * r
                if isinstance(e.op, ast.Mod) and isinstance(l, (str, bytes)):
                    return l % r
                if isinstance(e.op, ast.Sub):
                    return l - r
                if isinstance(e.op, ast.Pow) and isinstance(l, int) and isinstance(r, int) and 0 <= r < 64:
                    return l ** r
            except Exception:
                raise _Unknown from None
            raise _Unknown
        if isinstance(e, ast.UnaryOp) and isinstance(e.op, ast.USub):
            return -self._eval(e.operand, env)
        if isinstance(e, ast.Call):
            f = e.func
            if isinstance(f, ast.Attribute) and f.attr == "join" and len(e.args) == 1:
                sep = self._eval(f.value, env)
                return sep.join(self._eval(e.args[0], env))
            if isinstance(f, ast.Attribute) and f.attr == "encode" and not e.args:
                return self._eval(f.value, env).encode()
            if isinstance(f, ast.Attribute) and f.attr == "split" and len(e.args) <= 1:
                return tuple(self._eval(f.value, env).split(*[self._eval(a, env) for a in e.args]))
            if isinstance(f, ast.Attribute) and isinstance(f.value, ast.Name) and f.value.id == "re" and f.attr == "escape" and len(e.args) == 1:
                return re.escape(self._eval(e.args[0], env))
            if isinstance(f, ast.Name) and f.id in self.funcs:
                fn = self.funcs[f.id]
                body = [s for s in fn.body if not (isinstance(s, ast.Expr) and isinstance(s.value, ast.Constant))]
                if len(body) == 1 and isinstance(body[0], ast.Return) and not e.keywords:
                    params = [a.arg for a in fn.args.args]
                    loc = dict(env)
                    for p, a in zip(params, e.args):
                        loc[p] = self._eval(a, env)
                    return self._eval(body[0].value, loc)
            raise _Unknown
        raise _Unknown


class _Unknown(Exception):
    pass
