"""ECMA-48 / xterm control-sequence *template* grammar (E6 companion).

A folded template is tokenised into ESC, BEL, printf placeholders (%d %s %c, treated as opaque parameter/payload
tokens) and ordinary characters, then parsed as a concatenation of complete sequences:
  CSI  = ESC [  (param byte 0x30-0x3F | placeholder)*  (intermediate 0x20-0x2F)*  final 0x40-0x7E
  OSC  = ESC ]  payload*  (ESC \\ | BEL)
  APC  = ESC _  payload*  ESC \\        DCS = ESC P payload* ESC \\
`parse(template)` returns a list of (kind, text) or raises Incomplete with the position and reason.
"""
from __future__ import annotations

import re


class Incomplete(Exception):
    pass


_PH = re.compile(r"%[dsc]")


def tokens(t: str):
    out = []
    i = 0
    while i < len(t):
        m = _PH.match(t, i)
        if m:
            out.append(("PH", m.group()))
            i = m.end()
        else:
            out.append(("CH", t[i]))
            i += 1
    return out


def parse(t: str):
    toks = tokens(t)
    i = 0
    seqs = []

    def ch(j):
        return toks[j][1] if j < len(toks) and toks[j][0] == "CH" else None

    while i < len(toks):
        if ch(i) != "\x1b":
            raise Incomplete(f"text outside a control sequence at offset {i}: {toks[i][1]!r}")
        intro = ch(i + 1)
        start = i
        if intro == "[":
            i += 2
            while i < len(toks) and (toks[i][0] == "PH" or (ch(i) is not None and 0x30 <= ord(ch(i)) <= 0x3F)):
                i += 1
            while ch(i) is not None and 0x20 <= ord(ch(i)) <= 0x2F:
                i += 1
            if ch(i) is None or not (0x40 <= ord(ch(i)) <= 0x7E):
                raise Incomplete(f"CSI sequence starting at offset {start} has no final byte")
            i += 1
            seqs.append(("CSI", "".join(x[1] for x in toks[start:i])))
        elif intro in ("]", "_", "P"):
            kind = {"]": "OSC", "_": "APC", "P": "DCS"}[intro]
            i += 2
            while i < len(toks):
                if ch(i) == "\x1b":
                    break
                if kind == "OSC" and ch(i) == "\x07":
                    break
                i += 1
            if i >= len(toks):
                raise Incomplete(f"{kind} string starting at offset {start} is not terminated (no ST)")
            if ch(i) == "\x07":
                i += 1
            elif ch(i + 1) == "\\":
                i += 2
            else:
                raise Incomplete(f"{kind} string starting at offset {start} is interrupted by another ESC")
            seqs.append((kind, "".join(x[1] for x in toks[start:i])))
        else:
            raise Incomplete(f"ESC at offset {i} is followed by {intro!r}: not a recognised sequence introducer")
    return seqs
