"""E4 - effect atoms: what a call *does* in rule vocabulary (resolved through names and aliases, never text)."""
from __future__ import annotations

import ast

from .astutil import body_walk, call_name, dotted, norm, stores_in


def output_aliases(fn) -> set[str]:
    """Local names bound to a stream's write/flush method or to print (`write = output.write`)."""
    out = set()
    for t, st in stores_in(ast.Module(body=fn.body if isinstance(fn.body, list) else [], type_ignores=[])):
        if isinstance(t, ast.Name) and isinstance(st, ast.Assign) and isinstance(st.value, ast.Attribute) and st.value.attr in ("write",):
            out.add(t.id)
    return out


def is_output_call(c: ast.Call, aliases=()) -> bool:
    """print(...), <stream>.write(...), write(...) through an alias, _stdout_write(...), write_tty(...)."""
    cn = call_name(c)
    if cn is None:
        return False
    last = cn.split(".")[-1]
    if cn == "print" or cn in aliases or last in ("_stdout_write", "write_tty"):
        return True
    if last == "write" and "." in cn:
        return True
    return False


def names_in(node) -> set[str]:
    """Last components of every Name / Attribute referenced in node (ctlseqs.ST -> 'ST')."""
    out = set()
    for n in ast.walk(node):
        if isinstance(n, ast.Name):
            out.add(n.id)
        elif isinstance(n, ast.Attribute):
            out.add(n.attr)
    return out


def emits(c: ast.Call, const: str, aliases=()) -> bool:
    """Does output call c write control-sequence constant `const`?"""
    if not is_output_call(c, aliases):
        return False
    for a in c.args:
        if const in names_in(a):
            return True
    # through locals: `seq = SHOW_CURSOR * tty; print(SGR_DEFAULT, seq)` (backward value slice of each argument)
    from .astutil import enclosing_func
    from .sem import trace
    fn = enclosing_func(c)
    if isinstance(fn, (ast.FunctionDef, ast.AsyncFunctionDef)):
        for a in c.args:
            if any(isinstance(x, ast.Name) for x in ast.walk(a)) and const in names_in(trace(fn, a, use=c)):
                return True
    return False


def output_calls(fn, aliases=None):
    al = output_aliases(fn) if aliases is None else aliases
    return [c for c in body_walk(fn) if isinstance(c, ast.Call) and is_output_call(c, al)]
