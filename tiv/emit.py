"""E9 - symbolic output shape ("what text does this function build?") without running it.

The summary of a string-building function is a regular-expression-like term over *atoms*:
    Lit(text)                 a literal fragment (newlines are split off into atoms of their own)
    Fmt(template, args)       `TEMPLATE % args` (a control-sequence template applied to operands)
    Sym(source)               an opaque string-valued expression (payloads, chunks, numbers)
    Seq(items)                concatenation (f-strings, `+`, `"".join((..))`, successive `buffer.write(..)`)
    Rep(count, body)          `text * n`, `for _ in range(n): write(..)`, `"".join(f(x) for x in it)`, other loops (count None)
    Alt(cond, then, else)     conditional expressions, `text * flag`, if-statements around writes
It is built from the *normalised* function (helpers inlined, locals expanded through their single definitions), so it does not
depend on how the code spells the construction. Rules then evaluate invariants of the *language* of the term:
    count_nl(term)            the number of newlines as a polynomial in the program's integer variables (tiv.affine)
    glushkov(term)            first / last / follow sets of atoms: "what can precede a newline", "what does the output end with"
    cases(term, facts)        specialisation under boolean facts, enumeration of the remaining free conditions
A loop over `range(a, b)` whose body tests the loop variable against the last index (`if line < r_height`) is peeled into
"all iterations but the last" + "the last", which is exact for b - a >= 1.
"""
from __future__ import annotations

import ast
import itertools

from . import affine
from .astutil import norm, call_name, clone
from .sem import definition as _definition, expand, ENTRY


def definition(*a, **k):
    d = _definition(*a, **k)
    return None if d is ENTRY else d

_uid = itertools.count(1)


class Node:
    pass


class Lit(Node):
    def __init__(self, text, src=None):
        self.text, self.src, self.uid = text, src, next(_uid)

    def __repr__(self):
        return "NL" if self.text == "\n" else repr(self.text)


class Fmt(Node):
    def __init__(self, tmpl, args, src=None):
        self.tmpl, self.args, self.src, self.uid = tmpl, args, src, next(_uid)

    def __repr__(self):
        return f"{self.tmpl}({norm(self.args)})"


class Sym(Node):
    def __init__(self, text, src=None):
        self.text, self.src, self.uid = text, src, next(_uid)

    def __repr__(self):
        return f"<{self.text}>"


class Seq(Node):
    def __init__(self, items):
        out = []
        for i in items:
            if isinstance(i, Seq):
                out.extend(i.items)
            elif isinstance(i, Lit) and i.text == "":
                continue
            else:
                out.append(i)
        self.items = out

    def __repr__(self):
        return " ".join(map(repr, self.items)) if self.items else "ε"


def _lift_ifexp(e, budget=4):
    """Arithmetic over a conditional expression as a conditional expression over arithmetic (outermost first, a few levels)."""
    if e is None or budget <= 0 or isinstance(e, ast.IfExp):
        return e
    if isinstance(e, ast.BinOp):
        l, r = _lift_ifexp(e.left, budget - 1), _lift_ifexp(e.right, budget - 1)
        if isinstance(l, ast.IfExp):
            return ast.IfExp(test=l.test, body=_lift_ifexp(ast.BinOp(left=l.body, op=e.op, right=r), budget - 1), orelse=_lift_ifexp(ast.BinOp(left=l.orelse, op=e.op, right=r), budget - 1))
        if isinstance(r, ast.IfExp):
            return ast.IfExp(test=r.test, body=_lift_ifexp(ast.BinOp(left=l, op=e.op, right=r.body), budget - 1), orelse=_lift_ifexp(ast.BinOp(left=l, op=e.op, right=r.orelse), budget - 1))
        return e
    if isinstance(e, ast.UnaryOp) and isinstance(e.op, (ast.USub, ast.UAdd)):
        o = _lift_ifexp(e.operand, budget - 1)
        if isinstance(o, ast.IfExp):
            return ast.IfExp(test=o.test, body=ast.UnaryOp(op=e.op, operand=o.body), orelse=ast.UnaryOp(op=e.op, operand=o.orelse))
    return e


class Rep(Node):
    def __new__(cls, count=None, body=None, var=None, rng=None, it=None):
        # a conditional count is a choice between two repetitions (a conditional operand of an arithmetic count is lifted first:
        # `n - (a if c else b)` == `(n - a) if c else (n - b)`)
        count = _lift_ifexp(count)
        if isinstance(count, ast.IfExp):
            return Alt(count.test, Rep(count.body, body, var, rng, it), Rep(count.orelse, body, var, rng, it))
        if isinstance(count, ast.Constant) and isinstance(count.value, bool):
            return body if count.value else Seq([])          # `text * flag` with the flag decided
        if isinstance(count, ast.Constant) and count.value == 0:
            return Seq([])
        if isinstance(count, ast.Constant) and count.value == 1:
            return body
        return super().__new__(cls)

    def __init__(self, count, body, var=None, rng=None, it=None):
        self.count, self.body, self.var, self.rng, self.it = count, body, var, rng, it

    def __repr__(self):
        c = norm(self.count) if self.count is not None else f"*{self.it or ''}"
        return f"({self.body!r}){{{c}}}"


def canon_cond(t):
    """Chained comparisons split into conjunctions of binary ones; constants on the right of ==/!=/is/is not."""
    if t is None:
        return None

    class T(ast.NodeTransformer):
        def visit_Compare(self, n):
            self.generic_visit(n)
            parts = []
            left = n.left
            for op, right in zip(n.ops, n.comparators):
                l_, r_ = left, right
                if isinstance(op, (ast.Eq, ast.NotEq, ast.Is, ast.IsNot)) and isinstance(l_, ast.Constant) and not isinstance(r_, ast.Constant):
                    l_, r_ = r_, l_
                parts.append(ast.Compare(left=l_, ops=[op], comparators=[r_]))
                left = right
            return parts[0] if len(parts) == 1 else ast.BoolOp(op=ast.And(), values=parts)
    return T().visit(clone(t))


class Alt(Node):
    def __init__(self, cond, a, b):
        cond = canon_cond(cond)
        # canonical orientation: strip `not`
        while isinstance(cond, ast.UnaryOp) and isinstance(cond.op, ast.Not):
            cond, a, b = cond.operand, b, a
        self.cond, self.a, self.b = cond, a, b

    def __repr__(self):
        return f"[{norm(self.cond) if self.cond is not None else '?'} ? {self.a!r} : {self.b!r}]"


EMPTY = Seq([])


def _lits(text, src):
    out = []
    parts = text.split("\n")
    for i, p in enumerate(parts):
        if p:
            out.append(Lit(p, src))
        if i < len(parts) - 1:
            out.append(Lit("\n", src))
    return Seq(out)


def _boolish(fn, e) -> bool:
    x = expand(fn, e)
    if isinstance(x, (ast.Compare, ast.BoolOp)) or (isinstance(x, ast.UnaryOp) and isinstance(x.op, ast.Not)):
        return True
    if isinstance(x, ast.Constant) and isinstance(x.value, bool):
        return True
    if isinstance(x, ast.Call) and call_name(x) in ("bool", "isinstance"):
        return True
    if isinstance(x, ast.Name):
        # a parameter annotated bool / defaulting to a bool
        a = fn.args
        for p, d in list(zip(reversed(a.args), reversed(a.defaults))) + [(p, d) for p, d in zip(a.kwonlyargs, a.kw_defaults) if d is not None]:
            if p.arg == x.id and ((isinstance(d, ast.Constant) and isinstance(d.value, bool)) or (p.annotation is not None and norm(p.annotation) == "bool")):
                return True
        for p in a.args + a.kwonlyargs:
            if p.arg == x.id and p.annotation is not None and norm(p.annotation) == "bool":
                return True
    return False


def _stringish(fn, e) -> bool:
    x = e
    if isinstance(x, (ast.JoinedStr,)) or (isinstance(x, ast.Constant) and isinstance(x.value, str)):
        return True
    if isinstance(x, ast.BinOp) and isinstance(x.op, (ast.Add, ast.Mod)):
        return _stringish(fn, x.left)
    if isinstance(x, ast.BinOp) and isinstance(x.op, ast.Mult):
        return _stringish(fn, x.left) or _stringish(fn, x.right)
    if isinstance(x, ast.IfExp):
        return _stringish(fn, x.body) or _stringish(fn, x.orelse)
    if isinstance(x, ast.Attribute) and x.attr.isupper():
        return True
    if isinstance(x, ast.Name):
        if x.id.isupper():
            return True
        d = definition(fn, x.id, x if hasattr(x, "_p") else None)
        return d is not None and _stringish(fn, d)
    if isinstance(x, ast.Call) and isinstance(x.func, ast.Attribute) and x.func.attr in ("join", "decode", "getvalue", "format"):
        return True
    return False


class Builder:
    def __init__(self, fn, writers=None, depth=8):
        self.fn = fn
        self.depth = depth
        self.unresolved = []   # constructs the summary treats as opaque although they might emit
        self.closures = {s.name: s for s in ast.walk(fn) if isinstance(s, ast.FunctionDef) and s is not fn}

    # ---- expressions -------------------------------------------------------------------
    def expr(self, e, depth=None) -> Node:
        depth = self.depth if depth is None else depth
        fn = self.fn
        if isinstance(e, ast.Constant):
            if isinstance(e.value, str):
                return _lits(e.value, e)
            return Sym(norm(e), e)
        if isinstance(e, ast.JoinedStr):
            items = []
            for v in e.values:
                if isinstance(v, ast.Constant):
                    items.append(_lits(v.value, v))
                elif isinstance(v, ast.FormattedValue) and v.conversion == -1 and v.format_spec is None:
                    items.append(self.expr(v.value, depth))
                else:
                    items.append(Sym(norm(v), v))
            return Seq(items)
        if isinstance(e, ast.BinOp) and isinstance(e.op, ast.Add):
            return Seq([self.expr(e.left, depth), self.expr(e.right, depth)])
        if isinstance(e, ast.BinOp) and isinstance(e.op, ast.Mod):
            return Fmt(norm(e.left), expand(fn, e.right), e)
        if isinstance(e, ast.BinOp) and isinstance(e.op, ast.Mult):
            s, c = (e.left, e.right) if (_stringish(fn, e.left) or not _stringish(fn, e.right)) and not (isinstance(e.left, ast.Constant) and isinstance(e.left.value, (int, bool))) else (e.right, e.left)
            if _boolish(fn, c):
                return Alt(expand(fn, c), self.expr(s, depth), EMPTY)
            return Rep(expand(fn, c), self.expr(s, depth))
        if isinstance(e, ast.IfExp):
            return Alt(expand(fn, e.test), self.expr(e.body, depth), self.expr(e.orelse, depth))
        if isinstance(e, ast.Call) and isinstance(e.func, ast.Attribute) and e.func.attr == "join" and len(e.args) == 1 \
                and isinstance(e.func.value, ast.Constant) and e.func.value.value == "":
            a = e.args[0]
            if isinstance(a, ast.Name):
                d = definition(fn, a.id, a if hasattr(a, "_p") else None)
                if d is not None:
                    a = d
            if isinstance(a, (ast.Tuple, ast.List)) and not any(isinstance(x, ast.Starred) for x in a.elts):
                return Seq([self.expr(x, depth) for x in a.elts])
            if isinstance(a, (ast.GeneratorExp, ast.ListComp)) and len(a.generators) == 1 and not a.generators[0].ifs:
                g = a.generators[0]
                cnt, rng = _range_count(expand(fn, g.iter))
                return Rep(cnt, self.expr(a.elt, depth), var=norm(g.target), rng=rng, it=norm(g.iter))
            if isinstance(a, ast.IfExp):
                def j(x):
                    return ast.Call(func=e.func, args=[x], keywords=[])
                return Alt(expand(fn, a.test), self.expr(j(a.body), depth), self.expr(j(a.orelse), depth))
            if isinstance(a, (ast.JoinedStr, ast.Constant)):
                return self.expr(a, depth)      # "".join(<str>) == the string itself
            return Sym(norm(e), e)
        if isinstance(e, ast.Call) and isinstance(e.func, ast.Name) and e.func.id == "str" and len(e.args) == 1 and not e.keywords:
            inner = self.expr(e.args[0], depth)
            return inner if isinstance(inner, (Sym, Seq, Lit)) else Sym(norm(e.args[0]), e)
        if isinstance(e, ast.Name):
            if depth > 0:
                d = definition(fn, e.id, e if hasattr(e, "_p") else None, allow_calls=True)
                if d is not None:
                    return self.expr(d, depth - 1)
                alts = _all_definitions(fn, e.id)
                if alts:
                    # several bindings: any of them (unknown choice)
                    node = self.expr(alts[0], depth - 1)
                    for d2 in alts[1:]:
                        node = Alt(None, node, self.expr(d2, depth - 1))
                    return node
            return Sym(e.id, e)
        if isinstance(e, ast.Call):
            return Sym(norm(expand(fn, e, allow_calls=True)), e)     # operands of an opaque call in traced (name-free) form
        return Sym(norm(e), e)

    # ---- statements --------------------------------------------------------------------
    def writers_of(self, buf: str):
        """Callables that append to buffer `buf`: `buf.write` and local aliases of it."""
        w = {f"{buf}.write"}
        for n in ast.walk(self.fn):
            if isinstance(n, ast.Assign) and len(n.targets) == 1 and isinstance(n.targets[0], ast.Name) and norm(n.value) in w:
                w.add(n.targets[0].id)
        return w

    def block(self, stmts, W, stop=None) -> Node:
        """Emission of a statement list into the buffer whose writers are W, up to (not including) statement `stop`.
        An `if` from which control can leave the function (return/raise somewhere inside) gets the rest of the block pushed into
        both of its branches, so that what follows is emitted only on the paths that get there."""
        items = []
        stmts = list(stmts)
        for i, s in enumerate(stmts):
            if s is stop:
                break
            has_stop = stop is not None and any(x is stop for x in ast.walk(s))
            if isinstance(s, ast.If) and not has_stop and _has_exit(s):
                rest = stmts[i + 1:]
                items.append(Alt(expand(self.fn, s.test), self.block(list(s.body) + rest, W, stop), self.block(list(s.orelse) + rest, W, stop)))
                break
            items.append(self.stmt(s, W, stop))
            if has_stop:
                break
            if isinstance(s, (ast.Return, ast.Raise)):
                break
        return Seq(items)

    def stmt(self, s, W, stop=None) -> Node:
        if isinstance(s, ast.Expr) and isinstance(s.value, ast.Call):
            c = s.value
            f = norm(c.func)
            if f in W and len(c.args) == 1:
                return self.expr(c.args[0])
            if isinstance(c.func, ast.Name) and c.func.id in self.closures and self._emits(self.closures[c.func.id], W):
                return self.block(self.closures[c.func.id].body, W)
            if isinstance(c.func, ast.Attribute) and c.func.attr == "writelines" and norm(c.func.value) + ".write" in W and len(c.args) == 1:
                return self.expr(ast.Call(func=ast.Attribute(value=ast.Constant(value=""), attr="join", ctx=ast.Load()), args=[c.args[0]], keywords=[]))
            return EMPTY
        if isinstance(s, (ast.For, ast.While)):
            if not self._emits(s, W):
                return EMPTY
            body = self.block(s.body, W, stop)
            if isinstance(s, ast.For):
                cnt, rng = _range_count(expand(self.fn, s.iter))
                return Rep(cnt, body, var=norm(s.target), rng=rng, it=norm(s.iter))
            return Rep(None, body, it=f"while {norm(s.test)}")
        if isinstance(s, ast.If):
            if not self._emits(s, W):
                return EMPTY
            return Alt(expand(self.fn, s.test), self.block(s.body, W, stop), self.block(s.orelse, W, stop))
        if isinstance(s, (ast.With, ast.AsyncWith)):
            return self.block(s.body, W, stop)
        if isinstance(s, ast.Try):
            return Seq([self.block(s.body, W, stop), self.block(s.orelse, W, stop), self.block(s.finalbody, W, stop)])
        return EMPTY

    def _emits(self, node, W) -> bool:
        for n in ast.walk(node):
            if isinstance(n, ast.Call):
                if norm(n.func) in W:
                    return True
                if isinstance(n.func, ast.Name) and n.func.id in self.closures and n.func.id != getattr(node, "name", None) and self._emits(self.closures[n.func.id], W):
                    return True
        return False

    # ---- whole function -----------------------------------------------------------------
    def returns(self):
        """[(return statement, term)] for every return of the function itself (not of nested defs)."""
        out = []
        fn = self.fn

        def walk(stmts):
            for s in stmts:
                if isinstance(s, (ast.FunctionDef, ast.AsyncFunctionDef, ast.ClassDef)):
                    continue
                if isinstance(s, ast.Return) and s.value is not None:
                    out.append((s, self.value(s)))
                for f in ("body", "orelse", "finalbody"):
                    v = getattr(s, f, None)
                    if isinstance(v, list):
                        walk(v)
                for h in getattr(s, "handlers", []) or []:
                    walk(h.body)
        walk(fn.body)
        return out

    def value(self, ret) -> Node:
        v = ret.value
        if isinstance(v, ast.Call) and isinstance(v.func, ast.Attribute) and v.func.attr == "getvalue" and isinstance(v.func.value, ast.Name):
            buf = v.func.value.id
            W = self.writers_of(buf)
            # the emission of everything executed before this return, in the outermost block that contains it
            return self.block(self.fn.body, W, stop=ret)
        return self.expr(v)


def _has_exit(s) -> bool:
    """A return/raise somewhere inside statement s (not in nested functions)."""
    stack = [s]
    while stack:
        n = stack.pop()
        if isinstance(n, (ast.Return, ast.Raise)):
            return True
        if isinstance(n, (ast.FunctionDef, ast.AsyncFunctionDef, ast.Lambda, ast.ClassDef)) and n is not s:
            continue
        stack.extend(ast.iter_child_nodes(n))
    return False


def _all_definitions(fn, name):
    out = []
    for n in ast.walk(fn):
        if isinstance(n, ast.Assign) and len(n.targets) == 1 and isinstance(n.targets[0], ast.Name) and n.targets[0].id == name:
            out.append(n.value)
    return out if 1 < len(out) <= 4 else []


def _range_count(it):
    """(count expression, (a, b)) for range(n) / range(a, b); (None, None) otherwise."""
    if isinstance(it, ast.Call) and isinstance(it.func, ast.Name) and it.func.id == "range" and not it.keywords:
        if len(it.args) == 1:
            return it.args[0], (ast.Constant(value=0), it.args[0])
        if len(it.args) == 2:
            return ast.BinOp(left=it.args[1], op=ast.Sub(), right=it.args[0]), (it.args[0], it.args[1])
    return None, None


# ---- specialisation -----------------------------------------------------------------------
def truth(t, facts):
    if t is None:
        return None
    k = norm(t)
    if k in facts:
        return facts[k]
    if isinstance(t, ast.UnaryOp) and isinstance(t.op, ast.Not):
        v = truth(t.operand, facts)
        return None if v is None else (not v)
    if isinstance(t, ast.BoolOp):
        vals = [truth(v, facts) for v in t.values]
        if isinstance(t.op, ast.And):
            if any(v is False for v in vals):
                return False
            if all(v is True for v in vals):
                return True
        else:
            if any(v is True for v in vals):
                return True
            if all(v is False for v in vals):
                return False
        return None
    if isinstance(t, ast.Compare) and len(t.ops) == 1:
        neg = {ast.NotEq: ast.Eq, ast.IsNot: ast.Is, ast.NotIn: ast.In, ast.GtE: ast.Lt, ast.LtE: ast.Gt}
        for a, b in neg.items():
            if isinstance(t.ops[0], a):
                k2 = norm(ast.Compare(left=t.left, ops=[b()], comparators=t.comparators))
                if k2 in facts:
                    return not facts[k2]
        # x == CONST decided by a fact x == OTHER_CONST: True
        if isinstance(t.ops[0], ast.Eq):
            for fk, fv in facts.items():
                if fv and fk.startswith(norm(t.left) + " == ") and fk != k:
                    return False
    if isinstance(t, ast.Constant) and isinstance(t.value, (bool, int)):
        return bool(t.value)
    if isinstance(t, ast.IfExp):
        tv = truth(t.test, facts)
        if tv is True:
            return truth(t.body, facts)
        if tv is False:
            return truth(t.orelse, facts)
        a, b = truth(t.body, facts), truth(t.orelse, facts)
        return a if a is not None and a == b else None
    return None


def atoms_of_cond(t):
    """Atomic conditions of a boolean expression."""
    if isinstance(t, ast.UnaryOp) and isinstance(t.op, ast.Not):
        return atoms_of_cond(t.operand)
    if isinstance(t, ast.BoolOp):
        out = []
        for v in t.values:
            out.extend(atoms_of_cond(v))
        return out
    if isinstance(t, ast.IfExp):
        return atoms_of_cond(t.test) + atoms_of_cond(t.body) + atoms_of_cond(t.orelse)
    if isinstance(t, ast.Constant):
        return []
    return [t]


def _last_index_test(cond, var, rng):
    """For a loop `for var in range(a, b)`: 'butlast' when cond holds on every iteration except the last, 'last' when it holds on
    the last iteration only, None otherwise."""
    if rng is None or not isinstance(cond, ast.Compare) or len(cond.ops) != 1:
        return None
    l, op, r = cond.left, cond.ops[0], cond.comparators[0]
    if norm(r) == var and norm(l) != var:
        flip = {ast.Lt: ast.Gt, ast.Gt: ast.Lt, ast.LtE: ast.GtE, ast.GtE: ast.LtE}
        l, r, op = r, l, flip.get(type(op), type(op))()
    if norm(l) != var:
        return None
    a, b = rng
    last = ast.BinOp(left=b, op=ast.Sub(), right=ast.Constant(value=1))
    try:
        if isinstance(op, (ast.Lt, ast.NotEq)) and affine.equal(r, last):
            return "butlast"
        if isinstance(op, ast.LtE) and affine.equal(ast.BinOp(left=r, op=ast.Add(), right=ast.Constant(value=1)), last):
            return "butlast"
        if isinstance(op, (ast.Eq, ast.GtE)) and affine.equal(r, last):
            return "last"
        if isinstance(op, ast.Gt) and affine.equal(ast.BinOp(left=r, op=ast.Add(), right=ast.Constant(value=1)), last):
            return "last"
    except affine.NotPoly:
        return None
    return None


def _first_index_test(cond, var, rng):
    """For a loop `for var in range(a, b)`: 'butfirst' when cond holds on every iteration except the first (`if var:` with a == 0,
    `var > a`, `var != a`, `var >= a + 1`), 'first' when it holds on the first iteration only, None otherwise."""
    if rng is None:
        return None
    a, _b = rng
    if isinstance(cond, ast.Name) and cond.id == var:
        return "butfirst" if isinstance(a, ast.Constant) and a.value == 0 else None
    if not isinstance(cond, ast.Compare) or len(cond.ops) != 1:
        return None
    l, op, r = cond.left, cond.ops[0], cond.comparators[0]
    if norm(r) == var and norm(l) != var:
        flip = {ast.Lt: ast.Gt, ast.Gt: ast.Lt, ast.LtE: ast.GtE, ast.GtE: ast.LtE}
        l, r, op = r, l, flip.get(type(op), type(op))()
    if norm(l) != var:
        return None
    a1 = ast.BinOp(left=a, op=ast.Add(), right=ast.Constant(value=1))
    try:
        if isinstance(op, (ast.Gt, ast.NotEq)) and affine.equal(r, a):
            return "butfirst"
        if isinstance(op, ast.GtE) and affine.equal(r, a1):
            return "butfirst"
        if isinstance(op, (ast.Eq, ast.LtE)) and affine.equal(r, a):
            return "first"
        if isinstance(op, ast.Lt) and affine.equal(r, a1):
            return "first"
    except affine.NotPoly:
        return None
    return None


def specialise(node, facts, loop=None):
    """Term with every Alt whose condition is decided by `facts` resolved. `loop` = (var, rng, phase) while inside a peeled loop."""
    if isinstance(node, (Lit, Fmt, Sym)):
        return node
    if isinstance(node, Seq):
        return Seq([specialise(i, facts, loop) for i in node.items])
    if isinstance(node, Alt):
        v = truth(node.cond, facts)
        if v is None and loop is not None and node.cond is not None:
            if loop[2] in ("butlast", "last"):
                k = _last_index_test(node.cond, loop[0], loop[1])
                if k is not None:
                    v = (k == "butlast") == (loop[2] == "butlast")
            else:
                k = _first_index_test(node.cond, loop[0], loop[1])
                if k is not None:
                    v = (k == "butfirst") == (loop[2] == "butfirst")
        if v is True:
            return specialise(node.a, facts, loop)
        if v is False:
            return specialise(node.b, facts, loop)
        return Alt(node.cond, specialise(node.a, facts, loop), specialise(node.b, facts, loop))
    if isinstance(node, Rep):
        if node.var and node.rng and _mentions_last_test(node.body, node.var, node.rng):
            one = ast.Constant(value=1)
            butlast = Rep(ast.BinOp(left=node.count, op=ast.Sub(), right=one), specialise(node.body, facts, (node.var, node.rng, "butlast")))
            last = specialise(node.body, facts, (node.var, node.rng, "last"))
            return Seq([butlast, last])
        if node.var and node.rng and _mentions_last_test(node.body, node.var, node.rng, _first_index_test):
            one = ast.Constant(value=1)
            first = specialise(node.body, facts, (node.var, node.rng, "first"))
            butfirst = Rep(ast.BinOp(left=node.count, op=ast.Sub(), right=one), specialise(node.body, facts, (node.var, node.rng, "butfirst")))
            return Seq([first, butfirst])
        return Rep(node.count, specialise(node.body, facts, loop), node.var, node.rng, node.it)
    return node


def _mentions_last_test(node, var, rng, test=None) -> bool:
    test = test or _last_index_test
    if isinstance(node, Alt):
        if node.cond is not None and test(node.cond, var, rng) is not None:
            return True
        return _mentions_last_test(node.a, var, rng, test) or _mentions_last_test(node.b, var, rng, test)
    if isinstance(node, Seq):
        return any(_mentions_last_test(i, var, rng, test) for i in node.items)
    if isinstance(node, Rep):
        return _mentions_last_test(node.body, var, rng, test)
    return False


def free_conditions(node):
    """Conditions (source text -> ast) to enumerate for the Alts left in the term: the atomic conditions, except that a compound
    condition none of whose atoms occurs in any other condition is enumerated as a whole (one case split instead of 2**k)."""
    conds_ = []

    def go(n):
        if isinstance(n, Alt):
            if n.cond is not None:
                conds_.append(n.cond)
            go(n.a)
            go(n.b)
        elif isinstance(n, Seq):
            for i in n.items:
                go(i)
        elif isinstance(n, Rep):
            go(n.body)
    go(node)
    atoms_by_cond = [(c, {norm(a): a for a in atoms_of_cond(c)}) for c in conds_]
    out = {}
    for i, (c, ats) in enumerate(atoms_by_cond):
        others = set()
        for j, (c2, ats2) in enumerate(atoms_by_cond):
            if j != i and norm(c2) != norm(c):
                others |= set(ats2)
        if len(ats) > 1 and not (set(ats) & others):
            out.setdefault(norm(c), c)
        else:
            for k, a in ats.items():
                out.setdefault(k, a)
    return out


def cases(node, facts=None, limit=6):
    """[(facts, specialised term)] over every assignment of the free atomic conditions (at most 2**limit cases)."""
    facts = dict(facts or {})
    node = specialise(node, facts)
    free = sorted(free_conditions(node))
    if len(free) > limit:
        return None
    out = []
    for bits in itertools.product((True, False), repeat=len(free)):
        f = dict(facts)
        f.update(zip(free, bits))
        out.append((f, specialise(node, f)))
    return out


# ---- invariants ---------------------------------------------------------------------------
def atoms(node):
    if isinstance(node, (Lit, Fmt, Sym)):
        yield node
    elif isinstance(node, Seq):
        for i in node.items:
            yield from atoms(i)
    elif isinstance(node, Rep):
        yield from atoms(node.body)
    elif isinstance(node, Alt):
        yield from atoms(node.a)
        yield from atoms(node.b)


def count(node, pred):
    """Number of atoms satisfying pred in every string of the term, as an affine polynomial (dict) - or None when it is not
    determined (an undecided Alt with different counts, a loop of unknown length around a counted atom)."""
    if isinstance(node, (Lit, Fmt, Sym)):
        return {(): 1} if pred(node) else {}
    if isinstance(node, Seq):
        tot = {}
        for i in node.items:
            c = count(i, pred)
            if c is None:
                return None
            tot = affine._add(tot, c)
        return tot
    if isinstance(node, Alt):
        a, b = count(node.a, pred), count(node.b, pred)
        if a is None or b is None or a != b:
            return None
        return a
    if isinstance(node, Rep):
        c = count(node.body, pred)
        if c is None:
            return None
        if not c:
            return {}
        if node.count is None:
            return None
        try:
            return affine._mul(affine.poly(node.count), c)
        except affine.NotPoly:
            return None
    return None


def glushkov(node):
    """(nullable, first, last, follow) over atom uids; follow = set of (uid_a, uid_b) meaning b can directly follow a.
    A Rep may run zero times only when its count is not known to be >= 1; callers pass terms where counts like `h - 1` may be 0,
    so every Rep is treated as nullable (a superset of adjacencies: sound for 'every predecessor of X is Y' rules)."""
    if isinstance(node, (Lit, Fmt, Sym)):
        return False, {node.uid}, {node.uid}, set()
    if isinstance(node, Seq):
        nullable, first, last, follow = True, set(), set(), set()
        for i in node.items:
            n2, f2, l2, fo2 = glushkov(i)
            follow |= fo2
            follow |= {(a, b) for a in last for b in f2}
            if nullable:
                first |= f2
            last = (last | l2) if n2 else set(l2)
            nullable = nullable and n2
        return nullable, first, last, follow
    if isinstance(node, Alt):
        n1, f1, l1, fo1 = glushkov(node.a)
        n2, f2, l2, fo2 = glushkov(node.b)
        return n1 or n2, f1 | f2, l1 | l2, fo1 | fo2
    if isinstance(node, Rep):
        n1, f1, l1, fo1 = glushkov(node.body)
        return True, f1, l1, fo1 | {(a, b) for a in l1 for b in f1}
    return True, set(), set(), set()


def predecessors(node):
    """{uid: set(uid of atoms that can directly precede it)}, plus 'START' when it can come first."""
    _, first, last, follow = glushkov(node)
    pre = {}
    for a, b in follow:
        pre.setdefault(b, set()).add(a)
    for u in first:
        pre.setdefault(u, set()).add("START")
    return pre, last


def is_nl(a) -> bool:
    return isinstance(a, Lit) and a.text == "\n"


def facts_from_guards(fn, node):
    """{condition source: bool} implied by the if/elif/guard-clause conditions under which `node` executes."""
    from .astutil import guards
    facts = {}

    def add(t, v):
        if isinstance(t, ast.UnaryOp) and isinstance(t.op, ast.Not):
            return add(t.operand, not v)
        if isinstance(t, ast.BoolOp) and ((isinstance(t.op, ast.And) and v) or (isinstance(t.op, ast.Or) and not v)):
            for x in t.values:
                add(x, v)
            return
        facts[norm(t)] = v
    for t, v in guards(node):
        add(expand(fn, t), v)
    return facts


def fold_syms(node, consts):
    """Replace Sym atoms naming a module constant whose folded value is known by literal atoms (so that `ST`, `ITERM2_START` ... are
    seen character by character)."""
    if isinstance(node, Sym) and node.text in consts and isinstance(consts[node.text], str):
        s = _lits(consts[node.text], node.src)
        for a in atoms(s):
            a.name = node.text
        return s
    if isinstance(node, Seq):
        return Seq([fold_syms(i, consts) for i in node.items])
    if isinstance(node, Rep):
        return Rep(node.count, fold_syms(node.body, consts), node.var, node.rng, node.it)
    if isinstance(node, Alt):
        return Alt(node.cond, fold_syms(node.a, consts), fold_syms(node.b, consts))
    return node


def summaries(fn, consts=None):
    """[(return stmt, guard facts, term)] for a string-building function."""
    b = Builder(fn)
    out = []
    for ret, node in b.returns():
        if consts:
            node = fold_syms(node, consts)
        out.append((ret, facts_from_guards(fn, ret), node))
    return out
