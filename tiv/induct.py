"""E11 - induction variables of a for-loop (pure syntax; nothing is executed).

value_at(fn, loop, expr, use) gives the polynomial (tiv.affine form) of an integer expression evaluated at statement `use` of
the K-th iteration (K = 1, 2, ...) of `loop`, in terms of the atom `K` and of loop-invariant names. Recognised variables:
  * the counter of `for i, ... in enumerate(X[, s])`                      -> s + K - 1
  * the item of `for i in range(a[, b[, c]])` with constant poly a, c     -> a + c*(K - 1)
  * a variable initialised before the loop with a loop-invariant value and stepped by one unconditional, top-level
    `v += d` / `v -= d` / `v = v + d` of the loop body                    -> init + d*K after the step, init + d*(K-1) before it
  * a variable assigned once, unconditionally and at top level of the loop body before `use`, from such values
Everything else raises NotInductive (the rule then says it cannot decide; it never guesses).
"""
from __future__ import annotations

import ast

from . import affine, sem
from .astutil import assigned_targets, norm, stores_in, walk_local

K = "K"


class NotInductive(Exception):
    pass


def _pos(n):
    return (n.lineno, n.col_offset)


def _stores(loop, name):
    out = []
    for st in loop.body:
        for t, s in stores_in(st):
            if isinstance(t, ast.Name) and t.id == name:
                out.append(s)
    return out


def _target_names(loop):
    return {t.id for t in assigned_targets(loop) if isinstance(t, ast.Name)}


def _invariant(loop, e) -> bool:
    tn = _target_names(loop)
    for n in ast.walk(e):
        if isinstance(n, ast.Name) and (n.id in tn or _stores(loop, n.id)):
            return False
        if isinstance(n, ast.Call) and not (isinstance(n.func, ast.Name) and n.func.id in ("len", "max", "min", "abs", "int")):
            return False
    return True


def _step(st, name):
    """d (expression, sign) when `st` is `name += d`, `name -= d`, `name = name + d` or `name = d + name`."""
    if isinstance(st, ast.AugAssign) and isinstance(st.op, (ast.Add, ast.Sub)):
        return st.value, (1 if isinstance(st.op, ast.Add) else -1)
    if isinstance(st, ast.Assign) and len(st.targets) == 1 and isinstance(st.value, ast.BinOp) and isinstance(st.value.op, (ast.Add, ast.Sub)):
        l, r = st.value.left, st.value.right
        if isinstance(l, ast.Name) and l.id == name:
            return r, (1 if isinstance(st.value.op, ast.Add) else -1)
        if isinstance(r, ast.Name) and r.id == name and isinstance(st.value.op, ast.Add):
            return l, 1
    return None


def var_at(fn, loop, name, use, _depth=0):
    if _depth > 6:
        raise NotInductive(name)
    k1 = affine._add({(K,): 1}, {(): -1})  # K - 1
    # loop target
    if name in _target_names(loop):
        it = loop.iter
        if isinstance(it, ast.Call) and isinstance(it.func, ast.Name) and it.func.id == "enumerate" and isinstance(loop.target, ast.Tuple) \
                and isinstance(loop.target.elts[0], ast.Name) and loop.target.elts[0].id == name and not _stores(loop, name):
            s = it.args[1] if len(it.args) > 1 else next((k.value for k in it.keywords if k.arg == "start"), ast.Constant(0))
            if not _invariant(loop, s):
                raise NotInductive(name)
            return affine._add(affine.poly(s), k1)
        if isinstance(it, ast.Call) and isinstance(it.func, ast.Name) and it.func.id == "range" and isinstance(loop.target, ast.Name) and not _stores(loop, name) \
                and not it.keywords and 1 <= len(it.args) <= 3:
            a = it.args[0] if len(it.args) > 1 else ast.Constant(0)
            c = it.args[2] if len(it.args) > 2 else ast.Constant(1)
            if not (_invariant(loop, a) and _invariant(loop, c)):
                raise NotInductive(name)
            return affine._add(affine.poly(a), affine._mul(affine.poly(c), k1))
        raise NotInductive(name)
    st = _stores(loop, name)
    if not st:
        return {(name,): 1}
    if len(st) != 1 or not any(st[0] is s for s in loop.body):
        raise NotInductive(name)
    s0 = st[0]
    step = _step(s0, name)
    if step is not None:
        d, sg = step
        if not _invariant(loop, d):
            raise NotInductive(name)
        init = sem.reaching_definition(fn, name, loop)
        if init is None or not _invariant(loop, init):
            raise NotInductive(name)
        n_steps = {(K,): 1} if _pos(s0) < _pos(use) else k1
        return affine._add(affine.poly(init), affine._mul(affine._mul(affine.poly(d), {(): sg}), n_steps))
    if isinstance(s0, ast.Assign) and len(s0.targets) == 1 and isinstance(s0.targets[0], ast.Name) and _pos(s0) < _pos(use):
        return value_at(fn, loop, s0.value, s0, _depth + 1)
    raise NotInductive(name)


def value_at(fn, loop, e, use, _depth=0):
    """Polynomial of integer expression `e` at statement `use` in iteration K of `loop`."""
    subst = {}
    for n in ast.walk(e):
        if isinstance(n, ast.Name) and n.id not in subst:
            subst[n.id] = var_at(fn, loop, n.id, use, _depth)
        elif isinstance(n, ast.Call) and not (isinstance(n.func, ast.Name) and n.func.id in ("len", "max", "min", "abs", "int")):
            raise NotInductive(norm(e))
    try:
        return affine.poly(e, subst)
    except affine.NotPoly as ex:
        raise NotInductive(str(ex))


def compare_at(fn, loop, test, use):
    """(op, P) for a two-operand integer comparison `l op r`: P = l - r as a polynomial in K and loop-invariant names."""
    if not (isinstance(test, ast.Compare) and len(test.ops) == 1):
        raise NotInductive(norm(test))
    P = affine._add(value_at(fn, loop, test.left, use), value_at(fn, loop, test.comparators[0], use), -1)
    return type(test.ops[0]), P


def proportional(P, Q):
    """c with P == c*Q (Fraction), else None."""
    from fractions import Fraction
    if not Q or set(P) != set(Q):
        return None
    cs = {Fraction(P[k], Q[k]) for k in Q}
    return cs.pop() if len(cs) == 1 else None
