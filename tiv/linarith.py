"""E13 - path-wise linear arithmetic for small integer functions (pure syntax; nothing is executed).

For a function whose body is straight-line code over integer locals - assignments (plain, tuple, += / -=), if / elif / else on linear
comparisons, min / max, one final `return (e1, ..., ek)` - paths(fn) enumerates every path as
    (constraints, outputs):  constraints = linear forms that are >= 0 on the path (integers: `a < b` is `b - a - 1 >= 0`),
                             outputs     = the returned expressions as linear forms over the parameters.
A linear form is a tiv.affine polynomial of degree <= 1. min / max (in the code and in a specification) split a path into cases.

Deciding steps (all exact for what they claim):
  infeasible(cs)      Fourier-Motzkin elimination over the rationals: True means the constraints have no rational - hence no integer - solution.
  entails_eq(cs, v, w) cs |= v == w, shown by the infeasibility of cs & v - w >= 1 and of cs & w - v >= 1.
  witness(cs, v, w)    a small integer valuation satisfying cs with v != w (searched in a box): a concrete counterexample, or None.
So a specification clause is PROVEN on a path (entailment), REFUTED (witness), or left undecided (neither) - never guessed.
Anything outside the fragment raises NotLinear (the rule then says it cannot decide).
"""
from __future__ import annotations

import ast
import itertools
from fractions import Fraction

from . import affine
from .astutil import norm


class NotLinear(Exception):
    pass


# ------------------------------------------------------------------------------------------------ linear forms
def lin(e, env):
    """linear form(s) of expression e under env {name: linear form}: list of (constraints, form) - one per min/max case."""
    if isinstance(e, ast.Call) and isinstance(e.func, ast.Name) and e.func.id in ("min", "max") and len(e.args) >= 2 and not e.keywords:
        acc = lin(e.args[0], env)
        for a in e.args[1:]:
            nxt = []
            for (c1, v1), (c2, v2) in itertools.product(acc, lin(a, env)):
                d = affine._add(v1, v2, -1)              # v1 - v2
                if e.func.id == "max":
                    nxt.append((c1 + c2 + [d], v1))                     # v1 >= v2
                    nxt.append((c1 + c2 + [_neg_strict(d)], v2))        # v2 > v1
                else:
                    nxt.append((c1 + c2 + [affine._add({}, d, -1)], v1))  # v1 <= v2
                    nxt.append((c1 + c2 + [_gt0(d)], v2))               # v1 > v2
            acc = nxt
        return acc
    if isinstance(e, ast.BinOp) and isinstance(e.op, (ast.Add, ast.Sub)):
        out = []
        for (c1, v1), (c2, v2) in itertools.product(lin(e.left, env), lin(e.right, env)):
            out.append((c1 + c2, affine._add(v1, v2, 1 if isinstance(e.op, ast.Add) else -1)))
        return out
    if isinstance(e, ast.UnaryOp) and isinstance(e.op, ast.USub):
        return [(c, affine._add({}, v, -1)) for c, v in lin(e.operand, env)]
    if isinstance(e, ast.BinOp) and isinstance(e.op, ast.Mult):
        out = []
        for (c1, v1), (c2, v2) in itertools.product(lin(e.left, env), lin(e.right, env)):
            p = affine._mul(v1, v2)
            if any(len(m) > 1 for m in p):
                raise NotLinear(norm(e))
            out.append((c1 + c2, p))
        return out
    if isinstance(e, ast.Constant) and isinstance(e.value, int) and not isinstance(e.value, bool):
        return [([], {(): e.value} if e.value else {})]
    if isinstance(e, ast.Name):
        if e.id in env:
            return [([], dict(env[e.id]))]
        raise NotLinear(f"unbound name {e.id}")
    raise NotLinear(norm(e))


def _gt0(d):
    """d > 0 over the integers: d - 1 >= 0"""
    return affine._add(d, {(): 1}, -1)


def _neg_strict(d):
    """d < 0 over the integers: -d - 1 >= 0"""
    return affine._add(affine._add({}, d, -1), {(): 1}, -1)


def compare(test, env, truth=True):
    """the test (a chain-free comparison, `and` / `or` / `not` of such) as a list of alternative constraint lists (DNF)."""
    if isinstance(test, ast.UnaryOp) and isinstance(test.op, ast.Not):
        return compare(test.operand, env, not truth)
    if isinstance(test, ast.BoolOp):
        conj = isinstance(test.op, ast.And) == truth
        parts = [compare(v, env, truth) for v in test.values]
        if conj:
            out = [[]]
            for alts in parts:
                out = [a + b for a in out for b in alts]
            return out
        return [a for alts in parts for a in alts]
    if isinstance(test, ast.Compare):
        if len(test.ops) != 1:
            # a < b < c  ==  a < b and b < c
            vals = [test.left] + list(test.comparators)
            return compare(ast.BoolOp(op=ast.And(), values=[ast.Compare(left=vals[i], ops=[test.ops[i]], comparators=[vals[i + 1]]) for i in range(len(test.ops))]), env, truth)
        op = type(test.ops[0])
        if not truth:
            op = {ast.Lt: ast.GtE, ast.LtE: ast.Gt, ast.Gt: ast.LtE, ast.GtE: ast.Lt, ast.Eq: ast.NotEq, ast.NotEq: ast.Eq}.get(op)
        if op is None:
            raise NotLinear(norm(test))
        out = []
        for (c1, l), (c2, r) in itertools.product(lin(test.left, env), lin(test.comparators[0], env)):
            d = affine._add(l, r, -1)                    # l - r
            base = c1 + c2
            if op is ast.GtE:
                out.append(base + [d])
            elif op is ast.Gt:
                out.append(base + [_gt0(d)])
            elif op is ast.LtE:
                out.append(base + [affine._add({}, d, -1)])
            elif op is ast.Lt:
                out.append(base + [_neg_strict(d)])
            elif op is ast.Eq:
                out.append(base + [d, affine._add({}, d, -1)])
            elif op is ast.NotEq:
                out.append(base + [_gt0(d)])
                out.append(base + [_neg_strict(d)])
            else:
                raise NotLinear(norm(test))
        return out
    raise NotLinear(norm(test))


# ------------------------------------------------------------------------------------------------ paths
def paths(fn, params=None, limit=400):
    """[(constraints, [output forms])] for every path of fn; parameters are the atoms (renamed by position when `params` is given)."""
    names = [a.arg for a in fn.args.posonlyargs + fn.args.args + fn.args.kwonlyargs if a.arg not in ("self", "cls")]
    if params is not None:
        if len(params) != len(names):
            raise NotLinear(f"{fn.name}: {len(names)} parameters, {len(params)} expected")
        env0 = {n: {(p,): 1} for n, p in zip(names, params)}
    else:
        env0 = {n: {(n,): 1} for n in names}
    done = []

    def run(stmts, states):
        """states: [(constraints, env)] -> states after stmts; returns collected in `done`"""
        for st in stmts:
            if not states:
                return []
            if len(states) + len(done) > limit:
                raise NotLinear("too many paths")
            if isinstance(st, ast.Expr) and isinstance(st.value, ast.Constant):
                continue
            if isinstance(st, ast.Pass):
                continue
            if isinstance(st, (ast.Assign, ast.AnnAssign, ast.AugAssign)):
                nxt = []
                for cs, env in states:
                    for cs2, env2 in assign(st, cs, env):
                        nxt.append((cs2, env2))
                states = nxt
                continue
            if isinstance(st, ast.If):
                nxt = []
                for cs, env in states:
                    for alt in compare(st.test, env, True):
                        nxt += run(st.body, [(cs + alt, dict(env))])
                    for alt in compare(st.test, env, False):
                        nxt += run(st.orelse, [(cs + alt, dict(env))])
                states = nxt
                continue
            if isinstance(st, ast.Return):
                v = st.value
                elts = v.elts if isinstance(v, ast.Tuple) else [v]
                for cs, env in states:
                    outs = [([], [])]
                    for e in elts:
                        outs = [(c0 + c1, o0 + [v1]) for (c0, o0) in outs for (c1, v1) in lin(e, env)]
                    for c1, o in outs:
                        done.append((cs + c1, o))
                return []
            raise NotLinear(f"statement outside the fragment: {norm(st)[:60]}")
        return states

    def assign(st, cs, env):
        if isinstance(st, ast.AugAssign):
            if not (isinstance(st.target, ast.Name) and isinstance(st.op, (ast.Add, ast.Sub))):
                raise NotLinear(norm(st))
            e = ast.BinOp(left=ast.Name(id=st.target.id, ctx=ast.Load()), op=st.op, right=st.value)
            return [(cs + c1, {**env, st.target.id: v1}) for c1, v1 in lin(e, env)]
        value = st.value
        if value is None:
            return [(cs, env)]
        targets = st.targets if isinstance(st, ast.Assign) else [st.target]
        out = [(cs, dict(env))]
        for tg in targets:
            if isinstance(tg, ast.Name):
                out = [(c0 + c1, {**e0, tg.id: v1}) for (c0, e0) in out for (c1, v1) in lin(value, env)]
            elif isinstance(tg, (ast.Tuple, ast.List)) and isinstance(value, (ast.Tuple, ast.List)) and len(tg.elts) == len(value.elts) and all(isinstance(t, ast.Name) for t in tg.elts):
                for t, ve in zip(tg.elts, value.elts):           # right-hand sides are evaluated in the state before the assignment
                    out = [(c0 + c1, {**e0, t.id: v1}) for (c0, e0) in out for (c1, v1) in lin(ve, env)]
            else:
                raise NotLinear(norm(st))
        return out
    rest = run(fn.body, [([], env0)])
    if rest:
        raise NotLinear(f"{fn.name}: a path ends without a return")
    return done


# ------------------------------------------------------------------------------------------------ deciding
def _vars(cs):
    return sorted({m[0] for c in cs for m in c if m})


def infeasible(cs, cap=4000) -> bool:
    """Fourier-Motzkin over the rationals on constraints `form >= 0`. True = certainly no solution. (False = a rational solution exists.)"""
    rows = []
    for c in cs:
        if any(len(m) > 1 for m in c):
            raise NotLinear("non-linear constraint")
        rows.append({(m[0] if m else ""): Fraction(v) for m, v in c.items()})
    for var in _vars(cs):
        pos = [r for r in rows if r.get(var, 0) > 0]
        neg = [r for r in rows if r.get(var, 0) < 0]
        keep = [r for r in rows if r.get(var, 0) == 0]
        for p in pos:
            for n in neg:
                a, b = p[var], -n[var]
                new = {}
                for k in set(p) | set(n):
                    if k == var:
                        continue
                    val = p.get(k, 0) * b + n.get(k, 0) * a
                    if val != 0:
                        new[k] = val
                keep.append(new)
        # constant rows decide immediately; drop duplicates
        seen, rows = set(), []
        for r in keep:
            if not any(k for k in r):                      # only the constant term
                if r.get("", 0) < 0:
                    return True
                continue
            key = tuple(sorted(r.items()))
            if key not in seen:
                seen.add(key)
                rows.append(r)
        if len(rows) > cap:
            raise NotLinear("elimination blow-up")
    return any(r.get("", 0) < 0 for r in rows if not any(k for k in r))


def entails_eq(cs, v, w) -> bool:
    d = affine._add(v, w, -1)
    return infeasible(cs + [_gt0(d)]) and infeasible(cs + [_neg_strict(d)])


def _eval(form, val):
    return sum(c * (val[m[0]] if m else 1) for m, c in form.items())


def witness(cs, v, w, names, box=range(0, 7)):
    """an integer valuation (dict) in the box satisfying every constraint with v != w, or None."""
    for tup in itertools.product(box, repeat=len(names)):
        val = dict(zip(names, tup))
        try:
            if all(_eval(c, val) >= 0 for c in cs) and _eval(v, val) != _eval(w, val):
                return val
        except KeyError:
            return None
    return None


def spec_cases(src: str, names):
    """a specification expression (names, + - *, min, max, integer constants) as [(constraints, form)]."""
    e = ast.parse(src, mode="eval").body
    return lin(e, {n: {(n,): 1} for n in names})
