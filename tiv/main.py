"""CLI: check <Cxx> [--tier quick|thorough] [--replay file] [--repo dir]"""
from __future__ import annotations

import argparse
import importlib
import json
import os
import sys
import traceback

from . import report
from .srcmodel import AnalysisError, Model


def load_rules(pid: str):
    return importlib.import_module(f"rules.{pid.lower()}")


def evaluate(pid: str, model: Model, tier: str = "quick", ck: report.Check | None = None) -> report.Check:
    mod = load_rules(pid)
    ck = ck or report.Check(pid, model, tier)
    for rid, text in getattr(mod, "RULES", {}).items():
        ck.rule(rid, text)
    mod.run(ck, model)
    return ck


def run_all(a) -> int:
    """Evaluate every property on one model (dev aid for the seed/twin experiments): one status line per property."""
    import glob
    worst = 0
    try:
        model = Model(a.repo)
    except AnalysisError as e:
        print(f"ANALYSIS-ERROR property=ALL: {e}")
        return 2
    for f in sorted(glob.glob(os.path.join(report.VERIF, "rules", "c[0-9][0-9].py"))):
        pid = os.path.basename(f)[:-3].upper()
        ck = report.Check(pid, model, "quick")
        try:
            early = None
            try:
                evaluate(pid, model, "quick", ck)
            except AnalysisError as e:
                early = e
            new, matched = report.classify(pid, ck.violations())
            if early is not None and not new:
                raise early
            if new:
                code = 1
                detail = " | ".join(f"{o.rule} {o.construct}: {o.msg[:160]}" for o in new[:3])
            elif ck.deferred:
                code, detail = 2, "; ".join(ck.deferred)[:300]
            else:
                code, detail = 0, ""
        except AnalysisError as e:
            code, detail = 2, str(e)[:300]
        except Exception:
            code, detail = 2, "internal error: " + traceback.format_exc().splitlines()[-1][:200]
        worst = max(worst, code)
        print(f"{pid} exit={code} {detail}")
    return worst


def main(argv=None) -> int:
    ap = argparse.ArgumentParser(prog="check")
    ap.add_argument("property")
    ap.add_argument("--tier", default=os.environ.get("VERIF_TIER") or "quick", choices=["quick", "thorough"])
    ap.add_argument("--replay")
    ap.add_argument("--repo", default=None)
    ap.add_argument("--jobs", type=int, default=int(os.environ.get("TIV_JOBS", "16")))
    ap.add_argument("--no-evidence", action="store_true")
    a = ap.parse_args(argv)
    pid = a.property.upper()
    if pid == "ALL":
        return run_all(a)
    ck = None
    try:
        model = Model(a.repo)
        ck = report.Check(pid, model, a.tier)
        early = None
        try:
            evaluate(pid, model, a.tier, ck)
        except AnalysisError as e:
            # a rule could not continue; violations established before that point are still violations
            early = e
            if not report.classify(pid, ck.violations())[0]:
                raise
            print(f"ANALYSIS-NOTE property={pid}: analysis stopped early ({str(e)[:200]}); reporting the violations established so far")
        extra = {}
        if a.tier == "thorough":
            from . import mutate

            extra = mutate.run_catalogue(pid, model, jobs=a.jobs)
        new, matched = report.classify(pid, ck.violations())
        if a.replay:
            want = json.load(open(a.replay)).get("violations", [])
            keys = {(w["rule"], w["construct"], w["statement"]) for w in want}
            hit = [o for o in ck.obs if o.key() in keys]
            print(f"replay: {len(hit)} of {len(keys)} recorded rule instance(s) found on the current tree")
            for o in hit:
                print(f"  {o.rule} {o.loc} in {o.construct}: {'discharged' if o.ok else 'VIOLATED'} - {o.msg}\n      statement: {o.stmt}")
            still = [o for o in hit if not o.ok]
            if still:
                print(f"VIOLATION property={pid} replay={a.replay}")
                return 1
            return 0
        if not a.no_evidence:
            report.write_evidence(ck, new, matched, extra)
        print(f"{pid} [{a.tier}] {len(ck.obs)} obligations over {len({o.construct for o in ck.obs})} constructs, "
              f"{sum(o.ok for o in ck.obs)} discharged, {len(matched)} known finding(s), {len(new)} new violation(s)"
              + (f"; selftest: {extra.get('mutants_killed')}/{extra.get('mutants')} mutants killed, "
                 f"{extra.get('twins_silent')}/{extra.get('twins')} twins silent" if extra else ""))
        for v, k in matched:
            print(f"KNOWN-FINDING: property={pid} {v.rule} {v.loc} in {v.construct}: {k.get('what', v.msg)}")
        if extra.get("selftest_problems"):
            for p in extra["selftest_problems"]:
                print(f"SELFTEST-NOTE: {p}")
        if not new and ck.deferred:
            raise AnalysisError("; ".join(ck.deferred))
        if not new and early is not None:
            raise early
        if new:
            for o in new:
                print(f"  {o.rule} {o.loc} in {o.construct}: {o.msg}\n      statement: {o.stmt}\n      rule: {ck.rules.get(o.rule, '')}")
            rp = report.write_replay(ck, new)
            print(f"VIOLATION property={pid} replay={rp}")
            return 1
        return 0
    except AnalysisError as e:
        print(f"ANALYSIS-ERROR property={pid}: {e}")
        if ck is None:
            try:
                ck = report.Check(pid, Model(a.repo), a.tier)
            except Exception:
                return 2
        try:
            if not a.no_evidence and not a.replay:
                report.write_evidence(ck, [], [], None, analysis_error=str(e))
        except Exception:
            pass
        return 2
    except Exception:
        print(f"ANALYSIS-ERROR property={pid}: internal error\n{traceback.format_exc()}")
        return 2


if __name__ == "__main__":
    sys.exit(main())
