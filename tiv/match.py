"""Structural pattern matching on ASTs with metavariables (name-agnostic rules).

A pattern is Python source in which `$x` stands for any expression (bound consistently: two occurrences of the
same metavariable must match structurally equal sub-trees) and `$$x` for any *name*. Example:
    match_stmt("$near = $pad * $n // $d", stmt)  ->  {"near": <ast>, "pad": ..., "n": ..., "d": ...} or None
Matching ignores expression contexts (Load/Store) and source positions.
"""
from __future__ import annotations

import ast
import re

from .astutil import norm

_MV = re.compile(r"\$(\$?)([A-Za-z_][A-Za-z0-9_]*)")


def _compile(pattern: str, mode: str):
    kinds = {}

    def rep(mo):
        kinds[f"__mv_{mo.group(2)}__"] = "name" if mo.group(1) else "expr"
        return f"__mv_{mo.group(2)}__"

    src = _MV.sub(rep, pattern)
    tree = ast.parse(src, mode="exec" if mode == "stmt" else "eval")
    node = tree.body[0] if mode == "stmt" else tree.body
    return node, kinds


def _match(p, n, kinds, env) -> bool:
    if isinstance(p, ast.Name) and p.id in kinds:
        if kinds[p.id] == "name" and not isinstance(n, ast.Name):
            return False
        key = p.id[5:-2]
        if key in env:
            return norm(env[key]) == norm(n)
        env[key] = n
        return True
    if isinstance(p, ast.Attribute) and p.attr in kinds and isinstance(n, ast.Attribute):
        key = p.attr[5:-2]
        if key in env and env[key] != n.attr:
            return False
        env[key] = n.attr
        return _match(p.value, n.value, kinds, env)
    if type(p) is not type(n):
        return False
    for f in p._fields:
        if f in ("ctx", "type_comment", "kind"):
            continue
        a, b = getattr(p, f, None), getattr(n, f, None)
        if isinstance(a, list):
            if not isinstance(b, list) or len(a) != len(b):
                return False
            for x, y in zip(a, b):
                if isinstance(x, ast.AST):
                    if not _match(x, y, kinds, env):
                        return False
                elif x != y:
                    return False
        elif isinstance(a, ast.AST):
            if not isinstance(b, ast.AST) or not _match(a, b, kinds, env):
                return False
        elif a != b:
            return False
    return True


def match_expr(pattern: str, node, env=None):
    p, kinds = _compile(pattern, "expr")
    e = dict(env or {})
    return e if _match(p, node, kinds, e) else None


def match_stmt(pattern: str, node, env=None):
    p, kinds = _compile(pattern, "stmt")
    e = dict(env or {})
    return e if _match(p, node, kinds, e) else None


def find_stmts(pattern: str, nodes, env=None):
    """[(stmt, bindings)] for every statement among nodes matching the pattern."""
    out = []
    for n in nodes:
        if isinstance(n, ast.stmt):
            b = match_stmt(pattern, n, env)
            if b is not None:
                out.append((n, b))
    return out


def find_exprs(pattern: str, nodes, env=None):
    out = []
    for n in nodes:
        if isinstance(n, ast.expr):
            b = match_expr(pattern, n, env)
            if b is not None:
                out.append((n, b))
    return out


def b2s(bindings) -> dict:
    return {k: (norm(v) if isinstance(v, ast.AST) else v) for k, v in bindings.items()}
