"""Thorough tier: the property's mutant catalogue, applied as in-memory overlays of /repo's current sources.

A mutant is a textual edit inside one named function (or module) of the current tree. For each mutant:
the edited file must still compile, the property's rules must report a NEW violation (one not present on
the unmutated tree) of one of the expected rules; behaviour-preserving twins must report nothing new.
This is evidence about the checker (it can fire, and names the right rule), not about the library;
results never turn into a VIOLATION of the property.
"""
from __future__ import annotations

import ast
import importlib
from concurrent.futures import ProcessPoolExecutor

from . import report
from .srcmodel import AnalysisError, Model


class M:
    def __init__(self, id, rel, qual, old, new, rules=(), twin=False, note="", count=1):
        self.id, self.rel, self.qual, self.old, self.new = id, rel, qual, old, new
        self.rules = set(rules)
        self.twin = twin
        self.note = note
        self.count = count


def apply(model: Model, mu: M) -> str | None:
    """Return the mutated text of mu.rel, or None if the locator no longer resolves."""
    f = model.files.get(mu.rel)
    if f is None:
        return None
    text = f.text
    if mu.qual:
        node = f.raw_defs.get(mu.qual)
        if node is None:
            return None
        lines = text.splitlines(keepends=True)
        start = node.lineno - 1
        if getattr(node, "decorator_list", None):
            start = min(d.lineno for d in node.decorator_list) - 1
        seg = "".join(lines[start : node.end_lineno])
        if (seg.count(mu.old) != mu.count) if mu.count else (seg.count(mu.old) == 0):
            return None
        seg2 = seg.replace(mu.old, mu.new)
        return "".join(lines[:start]) + seg2 + "".join(lines[node.end_lineno :])
    if (text.count(mu.old) != mu.count) if mu.count else (text.count(mu.old) == 0):
        return None
    return text.replace(mu.old, mu.new)


def _keys(pid: str, model: Model):
    from .main import evaluate

    try:
        ck = evaluate(pid, model)
    except AnalysisError as e:
        return {("ANALYSIS-ERROR", str(e), "")}
    v = {o.key() for o in ck.violations()}
    if not v and ck.deferred:
        return {("ANALYSIS-ERROR", "; ".join(ck.deferred), "")}
    return v


def _one(args):
    pid, repo, mu_id = args
    mod = importlib.import_module(f"rules.{pid.lower()}")
    mu = next(x for x in mod.MUTANTS if x.id == mu_id)
    base_model = Model(repo)
    text = apply(base_model, mu)
    if text is None:
        return mu_id, "stale", []
    try:
        compile(text, mu.rel, "exec")
    except SyntaxError as e:
        return mu_id, "nocompile", [str(e)]
    base = _keys(pid, base_model)
    got = _keys(pid, Model(repo, overlay={mu.rel: text}))
    new = sorted(got - base)
    if mu.twin:
        return mu_id, ("silent" if not new else "twin-fired"), new
    if not new:
        return mu_id, "survived", []
    if any(k[0] == "ANALYSIS-ERROR" for k in new):
        return mu_id, "fail-closed", new
    rules = {k[0].split(".", 1)[1] for k in new}
    if mu.rules and not (rules & mu.rules):
        return mu_id, "killed-other-rule", new
    return mu_id, "killed", new


def run_catalogue(pid: str, model: Model, jobs: int = 16) -> dict:
    mod = importlib.import_module(f"rules.{pid.lower()}")
    muts = list(getattr(mod, "MUTANTS", []))
    if not muts:
        return {"mutants": 0, "mutants_killed": 0, "twins": 0, "twins_silent": 0, "selftest_problems": ["no mutant catalogue for this property"]}
    args = [(pid, model.repo, mu.id) for mu in muts]
    results = {}
    with ProcessPoolExecutor(max_workers=max(1, min(jobs, len(args)))) as ex:
        for mu_id, status, new in ex.map(_one, args):
            results[mu_id] = (status, new)
    problems = []
    detail = []
    killed = twins = silent = nm = 0
    for mu in muts:
        status, new = results[mu.id]
        detail.append({"id": mu.id, "site": f"{mu.rel}::{mu.qual or '<module>'}", "edit": f"{mu.old!r} -> {mu.new!r}",
                       "twin": mu.twin, "expected_rules": sorted(mu.rules), "status": status,
                       "reported": [f"{k[0]} {k[1]}: {k[2]}"[:200] for k in new][:4], "note": mu.note})
        if mu.twin:
            twins += 1
            if status == "silent":
                silent += 1
            elif status != "stale":
                problems.append(f"twin {mu.id} raised an alarm ({status}): {new[:2]}")
            else:
                problems.append(f"twin {mu.id}: locator no longer resolves (stale)")
        else:
            nm += 1
            if status in ("killed", "fail-closed"):
                killed += 1
            elif status == "stale":
                problems.append(f"mutant {mu.id}: locator no longer resolves (stale)")
            else:
                problems.append(f"mutant {mu.id} {status}: expected {sorted(mu.rules)} got {[k[0] for k in new][:3]}")
    return {"mutants": nm, "mutants_killed": killed, "twins": twins, "twins_silent": silent,
            "mutant_results": detail, "selftest_problems": problems}
